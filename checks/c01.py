"""C01 — memory safety and clean teardown on arbitrary traffic and call histories.

What the model carries: the in-place decoders never write ahead of what they have read (list-level `wpos <= rpos`), cursors stay
inside the chunk, transaction references are valid. The physical part (real heap, UB outside modelled arithmetic) is NOT exhibited by
the model: every script of this check runs under ASan+UBSan+LSan and a report is a violation with the script as replay — support
and search, not proof (partial)."""
import conncheck
import connlib as cl
import connprops as P
import lib
import traffic

PROPS_MODULE = "C01"
TRUSTED = ["ASan/UBSan/LSan verdicts on the implementation (support for the physical part)", "stale-chunk-pointer detection in harness/h_conn.c"]
ASSUMPTIONS = ["physical memory safety outside the modelled arithmetic is observed, not proved (partial)", "allocation succeeds (C18 covers failures)"]
RULE = ("mutated and structured exchanges x all chunking kinds x interleavings x gaps x callback policies (OK, DECLINED, STOP, ERROR, register "
        "tx hooks, destroy completed tx) x personalities x auto-destroy x small limits, hand-over scenarios, .t captures re-chunked, each connection "
        "closed and destroyed, plus the distilled coverage corpus corpus/fuzz/conn.jsonl; run under ASan+UBSan+LeakSanitizer; distinct = distinct final dumps")


def oracle(sc, outs):
    found = []
    for e in cl.all_events(sc, outs):
        if e.kind == "stale":
            found.append(("S22", "callback %s was handed a pointer into a chunk whose data call had already returned (%d bytes)" % (e.name, e.data)))
            break
    return found


def run(ctx, model_ok=True, proofs_broken=False):
    n = 900 if ctx.tier == "quick" else 40000
    scripts = P.mixed_scripts(ctx, n, policy_p=0.7)
    scripts += P.handover_scripts(ctx, 300 if ctx.tier == "quick" else 12000)
    scripts += P.tfile_scripts(ctx, modes=("bytes", "rand"))
    scripts += P.reqline_scripts(ctx, 150 if ctx.tier == "quick" else 3000)
    scripts += lib.load_fuzz_corpus(ctx, 10 ** 9, "C01")
    # the decompression corpus: judged here by the sanitizers only (the model needs recorded inflate results: that replay is C07's)
    scripts += [[l for l in s if l != "conn zon"] for s in lib.load_fuzz_corpus_z(ctx, 1200, "C01z")]
    conncheck.run_conn_prop(ctx, "C01", scripts, oracle, "conn/memory", RULE, model_ok, san_prop=True)


def replay(ctx, path):
    return conncheck.generic_replay(ctx, path, oracle, None, "C01")
