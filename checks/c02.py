"""C02 — parse fidelity: what was sent is what is reported (well-formed messages)."""
import conncheck
import connprops as P

PROPS_MODULE = "C02"
TRUSTED = ["generator ground truth (gen/traffic.py) and field comparison in checks/connprops.py (search only)"]
ASSUMPTIONS = ["allocation succeeds", "well-formed exchanges only", "one-chunk delivery here; chunkings are C03"]


def run(ctx, model_ok=True, proofs_broken=False):
    scripts, meta = P.c02_scripts(ctx)
    by_id = {id(sc): m for sc, m in zip(scripts, meta)}
    conncheck.run_conn_prop(ctx, "C02", scripts, P.make_c02_oracle(by_id), "conn/fidelity", P.RULES["C02"], model_ok)


def replay(ctx, path):
    return conncheck.generic_replay(ctx, path, lambda sc, outs: [], None, "C02")
