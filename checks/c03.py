"""C03 — segmentation invariance: TCP chunking does not change the parse."""
import conncheck
import connlib as cl
import connprops as P
import lib

PROPS_MODULE = "C03"
TRUSTED = ["canonicaliser + whole-vs-chunked comparison in checks/connprops.py (search only)"]
ASSUMPTIONS = ["allocation succeeds", "well-formed exchanges only; non-first requests use methods of the library's table (finding S18 otherwise)",
               "every line fits field_limit_hard (LinesFit)"]


def run(ctx, model_ok=True, proofs_broken=False):
    scripts, meta = P.c03_scripts(ctx)
    by_id = {id(sc): m for sc, m in zip(scripts, meta)}
    base_canon = {}
    state = {"scripts": scripts, "meta": meta}

    def oracle(sc, outs):
        m = by_id.get(id(sc))
        if not m:
            return []
        canon = P.canonical_run(sc, outs)
        if m["role"] == "base":
            base_canon[m["gid"]] = canon
            return []
        b = base_canon.get(m["gid"])
        if b is None or b == canon:
            return []
        what = "dump" if b[1] != canon[1] else ("callbacks" if b[2] != canon[2] else "connection state")
        labs = sorted(m["labels"])
        sig = "+".join(labs) if labs else "chunking-changes-parse"
        return [(sig, "%s differ from whole delivery (%d cuts)" % (what, m["ncuts"]))]

    def attribute(sig, sc, outs):
        # a difference at a cut that carries one or more known labels is attributed to the first of them
        return sig.split("+")[0] if sig != "chunking-changes-parse" else sig

    conncheck.run_conn_prop(ctx, "C03", scripts, oracle, "conn/segmentation", P.RULES["C03"], model_ok, attribute=attribute)
    ctx.cov["exchanges"] = len(base_canon)


def replay(ctx, path):
    return conncheck.generic_replay(ctx, path, lambda sc, outs: [], None, "C03")
