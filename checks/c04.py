"""C04 — see checks/connprops.py."""
import conncheck
import connprops as P

PROPS_MODULE = "C04"
TRUSTED = ["scenario generator ground truth + Python oracle (checks/connprops.py), used to search for failing inputs"]
ASSUMPTIONS = ["allocation succeeds", "response decompression off in the conn slice"]


def run(ctx, model_ok=True, proofs_broken=False):
    scripts, meta = P.c04_scripts(ctx)
    by_id = {id(sc): m for sc, m in zip(scripts, meta)}
    conncheck.run_conn_prop(ctx, "C04", scripts, P.make_c04_oracle(by_id), "conn/c04", P.RULES["C04"], model_ok)


def replay(ctx, path):
    return conncheck.generic_replay(ctx, path, lambda sc, outs: [], None, "C04")
