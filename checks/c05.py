"""C05 — transaction lifecycle: callbacks follow the protocol, completion happens once."""
import conncheck
import connprops as P

PROPS_MODULE = "C05"
TRUSTED = ["lifecycle Monitor automaton re-stated in Python (checks/connlib.py:Monitor), used to search for failing inputs"]
ASSUMPTIONS = ["allocation succeeds", "response decompression off in the conn slice"]
RULE = ("hand-over scenarios (CONNECT 2xx/407/4xx/5xx, 101, 100-continue with/without C-L, early responses, responses without requests, "
        "HTTP/0.9) x chunkings x feed orders x policies, plus mutated structured exchanges and the .t captures; every callback of "
        "every run is fed to the Monitor; distinct = distinct final dumps")


def run(ctx, model_ok=True, proofs_broken=False):
    conncheck.run_conn_prop(ctx, "C05", P.c05_scripts(ctx), P.c05_oracle, "conn/events", RULE, model_ok, attribute=P.c05_attribute)


def replay(ctx, path):
    return conncheck.generic_replay(ctx, path, P.c05_oracle, P.c05_attribute, "C05")
