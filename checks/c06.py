"""C06 — body bytes are delivered exactly once, in order, with correct length accounting."""
import conncheck
import connprops as P

PROPS_MODULE = "C06"
TRUSTED = ["generator ground truth (gen/traffic.py) and its Python oracle (search only)"]
ASSUMPTIONS = ["allocation succeeds", "no content coding (C07 covers decompression)"]
RULE = ("well-formed exchanges from the grammar (bodies over all bytes incl. CR/LF/NUL and HTTP look-alikes; C-L, chunked with random "
        "chunk sizes/extensions/trailers, close-delimited) x chunkings (whole, every kind of single cut, 1-byte, random); accounting part on "
        "mutated streams; distinct = distinct final dumps")


def run(ctx, model_ok=True, proofs_broken=False):
    scripts, meta, acc = P.c06_scripts(ctx)
    by_id = {id(sc): w for sc, w in zip(scripts, meta)}
    conncheck.run_conn_prop(ctx, "C06", scripts + acc, P.make_c06_oracle(by_id), "conn/body", RULE, model_ok)


def replay(ctx, path):
    return conncheck.generic_replay(ctx, path, P.c06_accounting, None, "C06")
