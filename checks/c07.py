"""C07 — decompression is faithful for any chunking, and bombs are contained.

zlib is an external library: the model (HtpModel.Conn.TxState: decompress / decLoop / decSend / decFinalCallback, the Content-Encoding
chain construction) abstracts inflate() as a parameter. Tie: the guarded hook in htp_decompressors.c reports what every inflate()
call returned (return code, bytes consumed, bytes produced); pass 1 runs the implementation and records these traces, pass 2 feeds the
same operation lines plus the recorded traces to BOTH sides: the model of the driver must reproduce every callback (block
boundaries, pass-through decisions, restarts, bomb stops, lengths) and use up exactly the recorded inflate results.
Search oracles on the implementation's output: delivered body = original payload for every coding x framing x chunking;
data that is not valid for the announced coding is passed through, not lost; delivered bytes never exceed
max(bomb limit, 2048 x compressed bytes) by more than one output buffer; no more layers than configured.
"""
import json
import os
import re
import sys
import zlib

sys.path.insert(0, os.path.join(os.path.dirname(os.path.dirname(os.path.abspath(__file__))), "gen"))
import connlib as cl
import lib
import traffic

PROPS_MODULE = "C07"
TRUSTED = ["hook htp_verif_inflate_cb in htp_decompressors.c (guarded by LIBHTP_VERIF, recorded in MANIFEST.hooks)",
           "zlib's inflate() itself (abstracted: the model runs against its recorded results; theorems quantify over all results)",
           "Python zlib as the ground-truth compressor of the generator (search only)"]
ASSUMPTIONS = ["the time-based bomb check never fires (compression time limit set to its maximum, 1 s per data call)",
               "LZMA layers are outside the model (marked UNSUPPORTED and skipped)", "inflateInit2 succeeds", "allocation succeeds"]

BUF = 8192
RATIO = 2048


def gz(data, level=6):
    c = zlib.compressobj(level, zlib.DEFLATED, 31)
    return c.compress(data) + c.flush()


def raw_deflate(data, level=6):
    c = zlib.compressobj(level, zlib.DEFLATED, -15)
    return c.compress(data) + c.flush()


def zlib_deflate(data, level=6):
    return zlib.compress(data, level)


def gz_with_name(data):
    # gzip header with FNAME (flag 8): exercises the probe on restart
    body = raw_deflate(data)
    import struct
    return b"\x1f\x8b\x08\x08\x00\x00\x00\x00\x00\x03" + b"name.txt\x00" + body + struct.pack("<II", zlib.crc32(data) & 0xffffffff, len(data) & 0xffffffff)


def lzma_alone(data):
    # the legacy .lzma container (13-byte header: properties, dictionary size, size = -1 with end marker), which is what the library decodes
    import lzma
    return lzma.compress(data, format=lzma.FORMAT_ALONE, preset=1)


CODINGS = [
    ("lzma", b"lzma", lzma_alone),
    ("gzip", b"gzip", gz), ("x-gzip", b"x-gzip", gz), ("deflate-raw", b"deflate", raw_deflate), ("deflate-zlib", b"deflate", zlib_deflate),
    ("gzip-as-deflate", b"deflate", gz), ("raw-as-gzip", b"gzip", raw_deflate), ("zlib-as-gzip", b"gzip", zlib_deflate),
    ("gzip-fname", b"gzip", gz_with_name), ("Gzip-case", b"GZip", gz),
]


def payloads(r, quick):
    out = [b"", b"a", b"hello world\n" * 3, bytes(r.randrange(256) for _ in range(300)), b"A" * 9000, bytes(r.randrange(4) + 65 for _ in range(20000)),
           (b"the quick brown fox " * 2000)[:30000]]
    if not quick:
        out += [bytes(r.randrange(256) for _ in range(20000)), b"\x00" * 100000]
    return out


def frame(r, head, body, framing):
    if framing == "cl":
        return head + b"Content-Length: %d\r\n\r\n" % len(body) + body
    if framing == "chunked":
        out, pos = b"", 0
        while pos < len(body):
            n = r.randint(1, max(1, len(body) // 3))
            out += b"%x\r\n" % len(body[pos:pos + n]) + body[pos:pos + n] + b"\r\n"; pos += n
        return head + b"Transfer-Encoding: chunked\r\n\r\n" + out + b"0\r\n\r\n"
    return head + b"\r\n" + body     # close-delimited


def cuts(r, data, mode):
    n = len(data)
    if mode == "whole" or n < 2:
        return [data]
    if mode == "bytes":
        return [data[i:i + 1] for i in range(n)]
    if mode == "small-first":
        k = r.randint(1, 3)
        return [data[:k], data[k:]]
    k = r.randint(1, min(8, n - 1))
    cs = sorted(set(r.randint(1, n - 1) for _ in range(k)))
    out, prev = [], 0
    for c in cs + [n]:
        out.append(data[prev:c]); prev = c
    return out


def scenarios(ctx):
    r = ctx.rng
    quick = ctx.tier == "quick"
    out = []
    REQ = b"GET /z HTTP/1.1\r\nHost: h\r\n\r\n"
    pls = payloads(r, quick)
    for name, ce, comp in CODINGS:
        for pi, pl in enumerate(pls):
            for framing in (("cl", "chunked", "close") if not quick else (r.choice(("cl", "chunked", "close")),)):
                body = comp(pl)
                res = frame(r, b"HTTP/1.1 200 OK\r\nContent-Encoding: " + ce + b"\r\n", body, framing)
                for mode in (("whole", "rand", "small-first", "bytes") if len(res) < 3000 else ("whole", "rand", "small-first")):
                    valid = name in ("gzip", "x-gzip", "deflate-raw", "Gzip-case", "lzma")
                    out.append({"kind": "faithful", "name": "%s/p%d/%s/%s" % (name, pi, framing, mode), "cfg": "respdecomp=1,ztime=1000000",
                                "req": REQ, "pieces": cuts(r, res, mode), "payload": pl, "valid": valid, "compressed": body, "framing": framing,
                                "wrong_wrapper": not valid, "close": framing == "close"})
    # data that is not compressed at all: must be passed through
    for pl in (b"plain text, not compressed", bytes(r.randrange(256) for _ in range(500)), b"\x1f\x8b\x08garbage"):
        for ce in (b"gzip", b"deflate"):
            res = frame(r, b"HTTP/1.1 200 OK\r\nContent-Encoding: " + ce + b"\r\n", pl, "cl")
            for mode in ("whole", "rand", "small-first"):
                out.append({"kind": "passthrough", "name": "invalid/%s/%s" % (ce.decode(), mode), "cfg": "respdecomp=1,ztime=1000000", "req": REQ,
                            "pieces": cuts(r, res, mode), "payload": pl, "valid": False, "compressed": pl, "framing": "cl", "close": False})
    # junk behind a gzip-like header: the restart probe skips 10 / 12 / up-to-NUL bytes (FLG decides) before every retry, and when all
    # retries fail the WHOLE chunk must still be passed through
    for flg in (0x01, 0x02, 0x04, 0x08, 0x10, 0x18, 0x67, 0xff):
        # 0x07 = BFINAL 1, BTYPE 3 (reserved): an immediate data error for raw deflate, and no gzip/zlib magic either
        junk = b"\x07" + bytes(r.randrange(256) for _ in range(r.randint(30, 90)))
        pl = (b"\x1f\x8b\x08" + bytes([flg]) + b"\x00\x00\x00\x00\x00\x03" + (b"\x00\x00" if flg & 4 and flg != 0xff else b"") +
              (b"nm\x00" if flg & 0x08 else b"") + (b"cm\x00" if flg & 0x10 else b"") + junk)
        for ce in (b"gzip", b"deflate"):
            res = frame(r, b"HTTP/1.1 200 OK\r\nContent-Encoding: " + ce + b"\r\n", pl, "cl")
            for mode in ("whole", "rand") if quick else ("whole", "rand", "small-first", "rand"):
                out.append({"kind": "passthrough", "name": "gzip-like-junk/%02x/%s/%s" % (flg, ce.decode(), mode), "cfg": "respdecomp=1,ztime=1000000", "req": REQ,
                            "pieces": cuts(r, res, mode), "payload": pl, "valid": False, "compressed": pl, "framing": "cl", "close": False})
    # two layers and layer limits
    for ce, layers_fn, lim in ((b"gzip, deflate", (gz, raw_deflate), 2), (b"deflate, gzip", (raw_deflate, gz), 2), (b"gzip,gzip", (gz, gz), 2),
                               (b"gzip, gzip, gzip", (gz, gz, gz), 2), (b"gzip, deflate", (gz, raw_deflate), 1), (b"gzip,  deflate", (gz, raw_deflate), 3),
                               (b"identity, gzip", (gz,), 2), (b"gzip, lzma", (gz,), 2), (b"none", (), 2), (b"gzip, deflate, gzip, deflate", (gz, raw_deflate, gz, raw_deflate), 0),
                               # separators before a token (S40, repaired: the cursor used to re-split the token that followed them)
                               (b",gzip, deflate", (gz, raw_deflate), 3), (b"gzip , deflate", (gz, raw_deflate), 3), (b",, ,gzip", (gz,), 2),
                               (b"gzip ,,  , deflate , none", (gz, raw_deflate), 0)):
        pl = b"layered payload " * 50
        body = pl
        for f in reversed(layers_fn):     # the LAST listed coding was applied last... the library decodes in header order
            body = f(body)
        res = frame(r, b"HTTP/1.1 200 OK\r\nContent-Encoding: " + ce + b"\r\n", body, "cl")
        for mode in ("whole", "rand"):
            out.append({"kind": "layers", "name": "layers/%s/%d/%s" % (ce.decode(), lim, mode), "cfg": "respdecomp=1,ztime=1000000,layers=%d" % lim,
                        "req": REQ, "pieces": cuts(r, res, mode), "payload": pl, "valid": None, "compressed": body, "framing": "cl", "close": False,
                        "limit": lim, "tokens": len([t for t in ce.replace(b",", b" ").split() if t]),
                        # what must be delivered: the first `lim` listed codings undone, the rest left as they are (only judged when every
                        # token names a real coding, so that tokens and layers correspond one to one)
                        "expect": _after_layers(pl, layers_fn, lim) if len(layers_fn) == len([t for t in ce.replace(b",", b" ").split() if t]) else None})
    # bombs: highly compressible payloads against small limits
    for bomb in (1000, 20000, 1048576):
        for pl_len in (50000, 400000) if quick else (50000, 400000, 3000000):
            pl = b"\x00" * pl_len
            body = gz(pl, 9)
            res = frame(r, b"HTTP/1.1 200 OK\r\nContent-Encoding: gzip\r\n", body, "cl")
            for mode in ("whole", "rand"):
                out.append({"kind": "bomb", "name": "bomb/%d/%d/%s" % (bomb, pl_len, mode), "cfg": "respdecomp=1,ztime=1000000,bomb=%d" % bomb, "req": REQ,
                            "pieces": cuts(r, res, mode), "payload": pl, "valid": True, "compressed": body, "framing": "cl", "close": False, "bomb": bomb})
    # a body larger than the bomb limit but with an ordinary ratio is NOT a bomb: it must arrive in full
    for bomb in (1000, 5000):
        pl = bytes(r.randrange(256) for _ in range(20000))
        res = frame(r, b"HTTP/1.1 200 OK\r\nContent-Encoding: gzip\r\n", gz(pl), "cl")
        for mode in ("whole", "rand"):
            out.append({"kind": "faithful", "name": "over-limit-ordinary-ratio/%d/%s" % (bomb, mode), "cfg": "respdecomp=1,ztime=1000000,bomb=%d" % bomb,
                        "req": REQ, "pieces": cuts(r, res, mode), "payload": pl, "valid": True, "compressed": gz(pl), "framing": "cl", "close": False})
    # a real bomb (ratio far above 2048: zeros compressed twice), after a GET and after a POST that itself carried a body: the bound is
    # about the RESPONSE's compressed bytes whatever the request looked like
    pl = b"\x00" * (3000000 if quick else 8000000)
    inner = gz(pl, 9)
    outer = gz(inner, 9)
    POST = b"POST /p HTTP/1.1\r\nHost: h\r\nContent-Length: 6000\r\n\r\n" + b"x" * 6000
    for reqb, tag in ((REQ, "get"), (POST, "post")):
        for bomb in (1000, 100000):
            res = frame(r, b"HTTP/1.1 200 OK\r\nContent-Encoding: gzip, gzip\r\n", outer, "cl")
            # "bytes": after the bomb is reported every further data call must deliver nothing more (finding S39: each call used to
            # flush the stale output buffer again)
            for mode in ("whole", "rand", "bytes"):
                out.append({"kind": "bomb", "name": "bomb2/%s/%d/%s" % (tag, bomb, mode), "cfg": "respdecomp=1,ztime=1000000,bomb=%d" % bomb, "req": reqb,
                            "pieces": cuts(r, res, mode), "payload": pl, "valid": True, "compressed": outer, "framing": "cl", "close": False, "bomb": bomb})
    # ---- request decompression (htp_config_set_request_decompression): one layer, the same driver, its own accounting callback
    for name, ce, comp in CODINGS:
        for pi, pl in enumerate(pls if not quick else pls[:4] + pls[-1:]):
            body = comp(pl)
            framing = r.choice(("cl", "chunked"))
            reqm = frame(r, b"POST /up HTTP/1.1\r\nHost: h\r\nContent-Encoding: " + ce + b"\r\n", body, framing)
            for mode in (("whole", "rand", "small-first", "bytes") if len(reqm) < 1500 else ("whole", "rand")):
                valid = name in ("gzip", "x-gzip", "deflate-raw", "Gzip-case", "lzma")
                out.append({"kind": "faithful", "side": "req", "name": "req/%s/p%d/%s/%s" % (name, pi, framing, mode), "cfg": "respdecomp=1,reqdecomp=1,ztime=1000000",
                            "pieces": cuts(r, reqm, mode), "payload": pl, "valid": valid, "compressed": body, "framing": framing,
                            "wrong_wrapper": not valid, "close": False})
    for pl in (b"plain text, not compressed", b"\x1f\x8b\x08\x08\x00\x00\x00\x00\x00\x03nm\x00\x07" + bytes(r.randrange(256) for _ in range(60))):
        for ce in (b"gzip", b"deflate"):
            reqm = frame(r, b"POST /up HTTP/1.1\r\nHost: h\r\nContent-Encoding: " + ce + b"\r\n", pl, "cl")
            for mode in ("whole", "rand"):
                out.append({"kind": "passthrough", "side": "req", "name": "req/invalid/%s/%s" % (ce.decode(), mode), "cfg": "respdecomp=1,reqdecomp=1,ztime=1000000",
                            "pieces": cuts(r, reqm, mode), "payload": pl, "valid": False, "compressed": pl, "framing": "cl", "close": False})
    # request-side bombs, and a request body announced but request decompression left off (must arrive undecoded)
    for bomb in (1000, 20000):
        pl = b"\x00" * 3000000
        body = gz(pl, 9)
        reqm = frame(r, b"POST /up HTTP/1.1\r\nHost: h\r\nContent-Encoding: gzip\r\n", body, "cl")
        for mode in ("whole", "rand"):
            out.append({"kind": "bomb", "side": "req", "name": "req/bomb/%d/%s" % (bomb, mode), "cfg": "respdecomp=1,reqdecomp=1,ztime=1000000,bomb=%d" % bomb,
                        "pieces": cuts(r, reqm, mode), "payload": pl, "valid": True, "compressed": body, "framing": "cl", "close": False, "bomb": bomb})
    body = gz(b"not decoded when the option is off " * 10)
    reqm = frame(r, b"POST /up HTTP/1.1\r\nHost: h\r\nContent-Encoding: gzip\r\n", body, "cl")
    out.append({"kind": "faithful", "side": "req", "name": "req/option-off", "cfg": "respdecomp=1,ztime=1000000", "pieces": cuts(r, reqm, "rand"),
                "payload": body, "valid": True, "compressed": body, "framing": "cl", "wrong_wrapper": False, "close": False})
    return out


def script_of(sc, traces=None):
    """side 'res' (default): the request whole, then the response in pieces; side 'req': the request in pieces (request decompression),
    then a plain response. `traces` = the recorded inflate results, one entry per data call of the coded side, in order."""
    if sc.get("kind") == "raw":
        # a script of the distilled decompression corpus: explicit data calls; the recorded results are appended to each of them
        if traces is None:
            return list(sc["lines"])
        out_, k = [], 0
        for l in sc["lines"]:
            if l.startswith("conn req ") or l.startswith("conn res "):
                out_.append(l + " " + traces[k]); k += 1
            else:
                out_.append(l)
        return out_
    if sc.get("side") == "req":
        lines = ["conn new %s -" % sc["cfg"], "conn open", "conn zon"]
        for i, p in enumerate(sc["pieces"]):
            l = "conn req " + traffic.hx(p)
            if traces is not None:
                l += " " + traces[i]
            lines.append(l)
            if i == 0 or i == len(sc["pieces"]) - 1:
                lines.append("conn dump")
        lines += ["conn res " + traffic.hx(b"HTTP/1.1 200 OK\r\nContent-Length: 0\r\n\r\n"), "conn close", "conn dump", "conn destroy"]
        return lines
    lines = ["conn new %s -" % sc["cfg"], "conn open", "conn zon", "conn req " + traffic.hx(sc["req"])]
    for i, p in enumerate(sc["pieces"]):
        l = "conn res " + traffic.hx(p)
        if traces is not None:
            l += " " + traces[i]
        lines.append(l)
        if i == 0 or i == len(sc["pieces"]) - 1:
            lines.append("conn dump")
    lines += ["conn close", "conn dump", "conn destroy"]
    return lines


def _after_layers(pl, layers_fn, lim):
    """payload after the codings were applied (last listed first) and the first `lim` listed ones undone again (0 = no limit)"""
    keep = layers_fn[lim:] if lim else ()
    out = pl
    for f in reversed(keep):
        out = f(out)
    return out


def run(ctx, model_ok=True, proofs_broken=False):
    quick = ctx.tier == "quick"
    known = {f["signature"]: f for f in lib.known_findings()["findings"] if f["property"] == "C07"}
    scs = scenarios(ctx)
    for i, ls in enumerate(lib.load_fuzz_corpus_z(ctx, 500, "C07")):
        scs.append({"kind": "raw", "name": "fuzz/%d" % i, "lines": ls, "cfg": ls[0].split(" ")[2]})
    # ---- pass 1: implementation alone, record the inflate traces
    p1 = [script_of(sc) for sc in scs]
    co_all = []
    san = []
    for i in range(0, len(p1), 200):
        chunk = p1[i:i + 200]
        co, ce, rc = lib.run_c(ctx.corr, [l for s in chunk for l in s])
        san += lib.san_reports(ce)
        if rc != 0 or len(co) != sum(len(s) for s in chunk):
            ctx.violation("crash", {"what": "harness died in pass 1 (rc=%s)" % rc, "stderr": ce[-2000:], "script": chunk[0]}, found_input=False, sig="crash")
            return
        pos = 0
        for s in chunk:
            co_all.append(co[pos:pos + len(s)]); pos += len(s)
    found = {}
    stats = {"blocks": 0, "restarted_or_passthrough": 0, "inflate_calls": 0}

    def note(sig, item):
        found.setdefault(sig, []).append(item)

    p2 = []
    for sc, lines, outs in zip(scs, p1, co_all):
        traces = []
        delivered = b""
        ends = 0
        msg_len = 0
        coded = ("conn req ", "conn res ") if sc["kind"] == "raw" else (("conn req ",) if sc.get("side") == "req" else ("conn res ",))
        for l, o in zip(lines, outs):
            if l.startswith(coded):
                zt = "-"
                if " zt=[" in o:
                    zt = o.split(" zt=[", 1)[1].rsplit("]", 1)[0]
                    stats["inflate_calls"] += zt.count(",") + 1
                traces.append(zt)
        for e in cl.all_events(lines, outs):
            if e.name == ("request_body_data" if sc.get("side") == "req" else "response_body_data"):
                if e.kind == "bytes":
                    delivered += e.data; stats["blocks"] += 1
                elif e.kind == "null":
                    ends += 1
        p2.append(script_of(sc, traces))
        g, slots = cl.final_dump(lines, outs)
        t = slots[0] if slots else None
        # ---- oracles
        if sc["kind"] == "faithful":
            if sc["valid"] and delivered != sc["payload"]:
                note("unfaithful", {"script": lines, "what": "%s: %d bytes delivered, payload has %d (first difference at %d)" % (
                    sc["name"], len(delivered), len(sc["payload"]), next((i for i, (a, b) in enumerate(zip(delivered, sc["payload"])) if a != b), min(len(delivered), len(sc["payload"]))))})
            if not sc["valid"]:
                # a coding announced with the other wrapper: either decoded after a restart (= payload) or passed through (= the raw body);
                # anything else means bytes were lost or invented
                if delivered not in (sc["payload"], sc["compressed"]):
                    note("S3", {"script": lines, "what": "%s: %d bytes delivered; neither the payload (%d) nor the raw body (%d)" % (
                        sc["name"], len(delivered), len(sc["payload"]), len(sc["compressed"]))})
        elif sc["kind"] == "passthrough":
            # when some inflate() call produced output the library has (deliberately) taken the stream for partly valid: "there is data
            # even if there is an error, so use this data"; that is a corrupted coded stream, not data to pass through
            produced = any(len(x.split(":")) > 2 and x.split(":")[2] not in ("", "-") for zt in traces if zt != "-" for x in zt.split(","))
            if produced:
                stats["passthrough_partly_decodable_skipped"] = stats.get("passthrough_partly_decodable_skipped", 0) + 1
            elif delivered != sc["payload"]:
                # known class S3b: exactly the body bytes of EARLIER data calls are missing (the pass-through starts with the whole chunk
                # in which the last retry failed). Anything else - bytes missing from inside a chunk, reordered or invented - is not.
                pl = sc["payload"]
                body_off = sum(len(x) for x in sc["pieces"]) - len(pl)
                bounds, acc = set(), 0
                for x in sc["pieces"]:
                    acc += len(x)
                    if acc - body_off > 0:
                        bounds.add(acc - body_off)
                k = len(pl) - len(delivered)
                earlier = 0 < k < len(pl) + 1 and delivered == pl[k:] and k in bounds
                note("passthrough-lost" if earlier else "passthrough-damaged",
                     {"script": lines, "what": "%s: data not valid for the announced coding: %d of %d bytes delivered%s" % (
                         sc["name"], len(delivered), len(pl), "" if earlier else " and what is missing is not a run of whole earlier chunks")})
        elif sc["kind"] == "layers":
            dump0 = cl.first_dump(lines, outs)[0] or {}
            chain = [x for x in dump0.get("dec", "").split(",") if x]
            if sc["limit"] and len(chain) > sc["limit"]:
                note("layers-over-limit", {"script": lines, "what": "%s: %d decompression layers built with a limit of %d" % (sc["name"], len(chain), sc["limit"])})
            if sc.get("expect") is not None and delivered != sc["expect"]:
                note("layers-over-limit" if (sc["limit"] and delivered == sc["payload"]) else "layers-wrong-data",
                     {"script": lines, "what": "%s: limit %d, %d codings listed: %d bytes delivered, expected %d (the first %s codings undone)%s" % (
                         sc["name"], sc["limit"], sc["tokens"], len(delivered), len(sc["expect"]), sc["limit"] or "all",
                         " - the payload itself was delivered: more layers were undone than configured" if delivered == sc["payload"] else "")})
        elif sc["kind"] == "bomb":
            comp_len = len(sc["compressed"])
            bound = max(sc["bomb"], RATIO * comp_len) + BUF
            if len(delivered) > bound:
                # known finding: with two layers, the buffer of the OUTER layer that was ended by the bomb is still flushed to the callback at the
                # end of the stream (raw, less than one buffer): attributed only when the excess is below one buffer in a layered chain
                note("bomb-over-bound", {"script": lines, "what": "%s: %d bytes delivered; bound max(%d, 2048 x %d) + %d = %d" % (
                    sc["name"], len(delivered), sc["bomb"], comp_len, BUF, bound)})
        if sc["kind"] == "raw":
            # "for every input": per transaction and side, delivered (entity) bytes stay within max(limit, 2048 x wire bytes) + one buffer
            m_ = re.search(r"bomb=(\d+)", sc["cfg"])
            limit = int(m_.group(1)) if m_ else 1048576
            for t_ in slots or []:
                if not t_:
                    continue
                for ek, mk, side in (("sel", "sml", "response"), ("el", "ml", "request")):
                    ent, msg = int(t_.get(ek, 0)), int(t_.get(mk, 0))
                    bound = max(limit, RATIO * msg) + BUF
                    if ent > msg and ent > bound:
                        note("bomb-over-bound", {"script": lines, "what": "%s: %s entity %d bytes for %d on the wire; bound max(%d, 2048 x %d) + %d = %d" % (
                            sc["name"], side, ent, msg, limit, msg, BUF, bound)})
            continue
        elk = "el" if sc.get("side") == "req" else "sel"
        if t and int(t.get(elk, 0)) != len(delivered):
            note("entity-len", {"script": lines, "what": "%s: entity_len=%s but %d bytes were delivered" % (sc["name"], t.get(elk), len(delivered))})
    for sig, items in found.items():
        if sig in known:
            ctx.known_hits.append("%s (%s) x%d" % (sig, known[sig]["what_fails"][:160], len(items)))
        else:
            ctx.violation("oracle-" + sig, dict(items[0], count=len(items)), found_input=True, sig=sig)
    # ---- pass 2: same lines + recorded inflate results, implementation vs model
    nlines = sum(len(s) for s in p1)
    ndis = 0
    lib.UNSUPPORTED_SEEN[0] = 0
    if model_ok:
        n2, disagreements, c_outs, san2 = lib.corr_scripts(ctx, p2, "conn/decompress", batch=20000)
        nlines += n2
        ndis = len(disagreements)
        unknown = [s for s in found if s not in known]
        for d in disagreements[:3]:
            if d.get("crash"):
                ctx.violation("crash", d, found_input=bool(d.get("script")))
            elif not unknown:
                ctx.violation("correspondence", dict(d, note="the model of the decompression driver, run against the recorded inflate() results, "
                                                             "does not reproduce the implementation's callbacks"), found_input=False)
        for sc_, outs_ in c_outs:
            for o in outs_:
                if "zleft=trace-differs" in o:
                    ctx.violation("nondeterministic-trace", {"script": sc_, "what": "zlib returned different results on the replay run"}, found_input=False)
                    break
    for kind, fn in set(san):
        if kind.startswith("ubsan:applying zero offset to null pointer"):
            continue
        ctx.violation("sanitizer", {"report": kind, "file": fn}, found_input=False, sig="%s@%s" % (kind, fn))
    ctx.cov.update({"evaluations": nlines, "distinct_nontrivial": len({o for outs in co_all for o in outs if "ev=[" in o}), "programs": len(scs),
                    "rule": "codings {gzip, x-gzip, raw deflate, zlib deflate, each also announced with the other wrapper, gzip with FNAME} x payloads "
                            "(empty, tiny, text, random, 9 kB run, 20-100 kB) x framings {C-L, chunked, close} x chunkings {whole, random, 1-3 byte first "
                            "chunk, 1-byte}; uncompressed data announced as gzip/deflate; 10 multi-coding headers x layer limits; zero-bombs x bomb "
                            "limits {1000, 20000, 1 MiB}. Pass 1 records inflate results, pass 2 compares implementation and model on them",
                    "scenarios_by_kind": {k: sum(1 for s in scs if s["kind"] == k) for k in ("faithful", "passthrough", "layers", "bomb")},
                    "inflate_calls_recorded": stats["inflate_calls"], "body_blocks_delivered": stats["blocks"],
                    "passthrough_partly_decodable_skipped": stats.get("passthrough_partly_decodable_skipped", 0),
                    "disagreements_checked": ndis, "model_unsupported_scripts": lib.UNSUPPORTED_SEEN[0],
                    "samples": [p2[0][:6], p2[len(p2) // 2][:6]], "exhaustive": False})


def replay(ctx, path):
    ctx.build = lib.build_repo("san")
    p = json.load(open(path))
    sc = p.get("script") or []
    if not sc:
        print("replay file names no script:", json.dumps(p)[:600])
        print("VIOLATION property=C07 replay=%s no-failing-input-found" % path)
        return 1
    co, ce, rc = lib.run_c(ctx.build["corr"], sc)
    delivered = b"".join(e.data for e in cl.all_events(sc, co) if e.name == "response_body_data" and e.kind == "bytes")
    for l, o in zip(sc, co):
        print(l[:120], "->", o[:300])
    print("delivered %d body bytes; recorded: %s" % (len(delivered), p.get("what")))
    if p.get("what") or rc != 0:
        print("VIOLATION property=C07 replay=%s" % path)
        return 1
    return 0
