"""C08 — work is linear in stream length (no algorithmic-complexity blow-up).

Tie between the cost model and the code: the hook counter `htp_verif_table_cmp` (htp_table.c under LIBHTP_VERIF) counts the key
comparisons of every lookup; `table cost` prints it on the implementation side and the Lean model prints `Table.getLoopCost`
summed over the same lookups: exact equality over random and exhaustive small operation sequences.
Search on the implementation (not a proof): the measurement ladder. The library objects are rebuilt with
-fsanitize-coverage=trace-pc-guard and the harness counts executed edges ("work") around data calls; for each pump family
prefix + unit^k + suffix the work at k and 2k is compared along a doubling ladder, whole-chunk and byte-by-byte delivery. A ratio
W(2k)/W(k) that stays near 2 is linear; one that tends to 4 is quadratic.
"""
import itertools
import json
import os
import sys

sys.path.insert(0, os.path.join(os.path.dirname(os.path.dirname(os.path.abspath(__file__))), "gen"))
import lib
import traffic

PROPS_MODULE = "C08"
TRUSTED = ["hook counter htp_verif_table_cmp in htp_table.c (guarded by LIBHTP_VERIF, recorded in MANIFEST.hooks)",
           "edge counter of the trace-pc-guard build (measurement ladder, search only)"]
ASSUMPTIONS = ["work is measured in executed control-flow edges of the library objects (compiler-inserted callback), not in time",
               "costs capped by a configured limit (hard field limit, 64 repetitions, folded-header cap) count as constants"]

RATIO_LIMIT = 2.7        # W(2k)/W(k): 2 = linear, 4 = quadratic
DEFAULT_CFG = "respdecomp=0,urlenc=1,mpart=1,cookies=1"


def hx(b):
    return traffic.hx(b)


def families():
    """(name, side-independent builder k -> (request bytes, response bytes))"""
    G = b"GET / HTTP/1.1\r\nHost: h\r\n"
    OK = b"HTTP/1.1 200 OK\r\n"
    fam = []
    fam.append(("req-distinct-headers", lambda k: (G + b"".join(b"X-%d: v\r\n" % i for i in range(k)) + b"\r\n", b"")))
    fam.append(("res-distinct-headers", lambda k: (G + b"\r\n", OK + b"".join(b"X-%d: v\r\n" % i for i in range(k)) + b"Content-Length: 0\r\n\r\n")))
    fam.append(("req-repeated-header", lambda k: (G + b"X-A: v\r\n" * k + b"\r\n", b"")))
    fam.append(("req-folded-lines", lambda k: (G + b"X-F: a\r\n" + b" c\r\n" * k + b"\r\n", b"")))
    fam.append(("req-empty-lines", lambda k: (b"\r\n" * k + G + b"\r\n", b"")))
    fam.append(("req-header-whitespace", lambda k: (G + b"X-W:" + b" " * k + b"v\r\n\r\n", b"")))
    fam.append(("req-chunks", lambda k: (b"POST / HTTP/1.1\r\nHost: h\r\nTransfer-Encoding: chunked\r\n\r\n" + b"1\r\na\r\n" * k + b"0\r\n\r\n", b"")))
    fam.append(("res-chunks", lambda k: (G + b"\r\n", OK + b"Transfer-Encoding: chunked\r\n\r\n" + b"1\r\na\r\n" * k + b"0\r\n\r\n")))
    fam.append(("res-chunk-ext", lambda k: (G + b"\r\n", OK + b"Transfer-Encoding: chunked\r\n\r\n" + b"1;x=y\r\na\r\n" * k + b"0\r\n\r\n")))
    CH = G + b"\r\n", OK + b"Transfer-Encoding: chunked\r\n\r\n"
    # runs inside ONE chunk-size line (not capped by the hard field limit while the line sits in one data chunk)
    fam.append(("res-chunkline-ctl-run", lambda k: (CH[0], CH[1] + b"\t" * k + b"1\r\na\r\n0\r\n\r\n")))
    fam.append(("res-chunkline-ctl-then-digits", lambda k: (CH[0], CH[1] + b"\t" * k + b"0" * k + b"1\r\na\r\n0\r\n\r\n")))
    fam.append(("res-chunkline-digits", lambda k: (CH[0], CH[1] + b"0" * k + b"1\r\na\r\n0\r\n\r\n")))
    fam.append(("req-chunkline-ctl-then-digits", lambda k: (b"POST / HTTP/1.1\r\nHost: h\r\nTransfer-Encoding: chunked\r\n\r\n" + b"\t" * k + b"0" * k + b"1\r\na\r\n0\r\n\r\n", b"")))
    fam.append(("req-urlenc-params", lambda k: (b"POST /?" + b"&".join(b"q%d=1" % i for i in range(min(k, 400))) + b" HTTP/1.1\r\nHost: h\r\n"
                                                b"Content-Type: application/x-www-form-urlencoded\r\nContent-Length: %d\r\n\r\n" % len(b"".join(b"a%d=1&" % i for i in range(k))) +
                                                b"".join(b"a%d=1&" % i for i in range(k)), b"")))
    fam.append(("req-cookies", lambda k: (G + b"".join(b"Cookie: c%d=v\r\n" % i for i in range(k)) + b"\r\n", b"")))
    fam.append(("req-te-tokens", lambda k: (b"POST / HTTP/1.1\r\nHost: h\r\nTransfer-Encoding: " + b"gzip, " * k + b"chunked\r\n\r\n0\r\n\r\n", b"")))

    def mp(k):
        body = b"".join(b"--B\r\nContent-Disposition: form-data; name=\"f%d\"\r\n\r\nv\r\n" % i for i in range(k)) + b"--B--\r\n"
        return (b"POST /m HTTP/1.1\r\nHost: h\r\nContent-Type: multipart/form-data; boundary=B\r\nContent-Length: %d\r\n\r\n" % len(body) + body, b"")
    fam.append(("req-multipart-parts", mp))
    fam.append(("pipelined-exchanges", lambda k: ((G + b"\r\n") * k, (OK + b"Content-Length: 1\r\n\r\nx") * k)))
    fam.append(("res-body-bytes", lambda k: (G + b"\r\n", OK + b"Content-Length: %d\r\n\r\n" % (k * 10) + b"0123456789" * k)))
    # folded response header lines behind a long first line, by protocol (the mis-folding test scans the pending header for a colon;
    # S42, repaired: it did so before looking at the protocol, k lines x k bytes for anything but HTTP/1.1)
    for ver in (b"1.0", b"1.1"):
        fam.append(("res-folded-colon-lines-" + ver.decode(), lambda k, ver=ver: (G + b"\r\n", b"HTTP/" + ver + b" 200 OK\r\n" + b"X" * k + b":\r\n" + b" :\r\n" * k +
                                                                               b"Content-Length: 0\r\n\r\n")))
    fam.append(("res-te-nul-run", lambda k: (G + b"\r\n", OK + b"Transfer-Encoding: x" + b"\x00" * k + b"y\r\n\r\n")))
    # Content-Encoding token lists (the token loop of htp_tx_state_response_headers runs only with response decompression on): separator
    # runs and token runs, with the default layer limit and with "0 = no limit"
    ZD = "respdecomp=1,urlenc=1,mpart=1,cookies=1"
    Z0 = ZD + ",layers=0"
    CE = lambda v: (G + b"\r\n", OK + b"Content-Encoding: " + v + b"\r\nContent-Length: 1\r\n\r\nx")
    for tag, cfg in (("", ZD), ("-nolimit", Z0)):
        fam.append(("res-ce-separators-none" + tag, lambda k: CE(b"," * k + b"none"), cfg))
        fam.append(("res-ce-spaces-unknown" + tag, lambda k: CE(b"a" + b" " * k + b"zz"), cfg))
        fam.append(("res-ce-none-tokens" + tag, lambda k: CE(b"none, " * k + b"none"), cfg))
        fam.append(("res-ce-separators-gzip" + tag, lambda k: CE(b"," * k + b"gzip"), cfg))
    return [f if len(f) == 3 else (f[0], f[1], DEFAULT_CFG) for f in fam]


def measure(corr, cfg, req, res, bytewise):
    def calls(d, data):
        if not data:
            return []
        if bytewise:
            return ["conn %s %s" % (d, hx(data[i:i + 1])) for i in range(len(data))]
        return ["conn %s %s" % (d, hx(data))]
    sc = ["conn new %s -" % cfg, "conn open", "work"] + calls("req", req) + calls("res", res) + ["work", "conn close", "conn destroy"]
    co, ce, rc = lib.run_c(corr, sc)
    if rc != 0 or len(co) != len(sc):
        return None
    try:
        return int(co[-3])
    except ValueError:
        return None


def run(ctx, model_ok=True, proofs_broken=False):
    rng = ctx.rng
    quick = ctx.tier == "quick"
    known = {f["signature"]: f for f in lib.known_findings()["findings"] if f["property"] == "C08"}
    # ---- 1. cost correspondence on the table (hook counter vs cost model)
    scripts = []
    keys = [b"a", b"A", b"b", b"Host", b"host", b"x-1", b"X-1", b"", b"a\x00", b"zz"]
    for cap in (1, 2, 3):
        for seq in itertools.product(range(4), repeat=3 if quick else 4):
            sc = ["table new %d" % cap, "table cost"]
            for j, o in enumerate(seq):
                k = keys[(o * 3 + j) % len(keys)]
                sc.append("table add %s %d" % (hx(k), j))
                sc.append("table get %s" % hx(keys[(o + j) % len(keys)]))
                sc.append("table cost")
            scripts.append(sc)
    for _ in range(300 if quick else 3000):
        sc = ["table new %d" % rng.randint(1, 4), "table cost"]
        names = [bytes(rng.choice(b"abAB-1") for _ in range(rng.randint(1, 3))) for _ in range(rng.randint(1, 30))]
        for j, n in enumerate(names):
            sc.append("table get %s" % hx(n))
            sc.append("table add %s %d" % (hx(n), j))
            if rng.random() < 0.3:
                sc.append("table getmem %s" % hx(rng.choice(names)))
            if rng.random() < 0.2:
                sc.append("table cost")
        sc.append("table cost")
        scripts.append(sc)
    if model_ok:
        nlines, disagreements, c_outs, san = lib.corr_scripts(ctx, scripts, "table", batch=60000)
    else:
        nlines, disagreements, c_outs, san = 0, [], [], []
    for d in disagreements[:3]:
        ctx.violation("correspondence", dict(d, note="the cost model (key comparisons per lookup) and the hook counter of the implementation differ"),
                      found_input=False)
    costs_seen = sorted({int(o) for sc, outs in c_outs for l, o in zip(sc, outs) if l == "table cost" and o.isdigit()})
    # ---- 2. the measurement ladder on the implementation
    cov = lib.build_repo("cov")
    ladder = [100, 200, 400, 800] if quick else [200, 400, 800, 1600, 3200]
    rows = []
    for name, build, fcfg in families():
        for bytewise in (False, True):
            ks = ladder if not bytewise else ladder[:-1]
            ws = []
            for k in ks:
                req, res = build(k)
                ws.append(measure(cov["corr"], fcfg, req, res, bytewise))
            if any(w is None for w in ws):
                ctx.violation("ladder-run-failed", {"family": name, "bytewise": bytewise, "work": ws}, found_input=False)
                continue
            ratios = [round(ws[i + 1] / max(ws[i], 1), 2) for i in range(len(ws) - 1)]
            rows.append({"family": name, "cfg": fcfg, "delivery": "1-byte" if bytewise else "whole", "k": ks, "work": ws, "ratios": ratios,
                         "work_per_byte_at_top": round(ws[-1] / max(len(build(ks[-1])[0]) + len(build(ks[-1])[1]), 1), 1)})
            if ratios[-1] > RATIO_LIMIT and ratios[-1] >= ratios[0] - 0.05:
                sig = "superlinear:" + name
                req, res = build(ks[-1])
                item = {"what": "family %s (%s delivery): work %s at k=%s, ratios %s: W(2k)/W(k) stays above %.1f - not linear" % (
                    name, "1-byte" if bytewise else "whole", ws, ks, ratios, RATIO_LIMIT),
                    "script": ["conn new %s -" % fcfg, "conn open", "work", "conn req " + hx(req)] +
                              (["conn res " + hx(res)] if res else []) + ["work", "conn destroy"]}
                if sig in known:
                    ctx.known_hits.append("%s (%s) ratios %s" % (sig, known[sig]["what_fails"][:140], ratios))
                else:
                    ctx.violation("oracle-superlinear", item, found_input=True, sig=sig)
    ctx.cov.update({"evaluations": nlines + sum(len(r["k"]) for r in rows), "distinct_nontrivial": len(costs_seen), "programs": len(scripts),
                    "rule": "cost correspondence: table operation sequences (exhaustive short sequences over 3 capacities + random blocks of up to "
                            "30 names) with `table cost` after lookups, implementation hook counter vs Lean cost model; ladder: %d pump families "
                            "x {whole, 1-byte} x doubling k %s, executed library edges per run" % (len(families()), ladder),
                    "lookup_costs_seen": costs_seen[:40], "disagreements_checked": len(disagreements), "ladder": rows,
                    "ratio_limit": RATIO_LIMIT, "samples": [scripts[0][:6], scripts[-1][:6]], "exhaustive": False})


def replay(ctx, path):
    cov = lib.build_repo("cov")
    p = json.load(open(path))
    sc = p.get("script") or []
    if not sc:
        print("replay file names no script:", json.dumps(p)[:600])
        print("VIOLATION property=C08 replay=%s no-failing-input-found" % path)
        return 1
    co, ce, rc = lib.run_c(cov["corr"], sc)
    for l, o in zip(sc, co):
        print(l[:100], "->", o[:200])
    print("recorded:", p.get("what"))
    if p.get("what") or rc != 0:
        print("VIOLATION property=C08 replay=%s" % path)
        return 1
    return 0
