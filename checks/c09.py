"""C09 — stream API contract: return codes, consumed counts, sticky failure, counters."""
import conncheck
import connprops as P

PROPS_MODULE = "C09"
TRUSTED = ["ApiSpec acceptor re-stated in Python (checks/connprops.py:c09_oracle), used to search for failing inputs"]
ASSUMPTIONS = ["allocation succeeds", "callbacks follow the policy table of the script (OK/DECLINED/STOP/ERROR/register/destroy)",
               "response decompression off in the conn slice (zlib is outside the model, see C07)"]
RULE = ("structured exchanges (RFC 7230 grammar) x mutation x chunkings (whole, 1-byte, random) x interleavings x callback policies "
        "returning STOP/ERROR/DECLINED at the k-th callback, followed by extra data calls and close; the repository's .t captures "
        "re-chunked; distinct = distinct final dumps")


def run(ctx, model_ok=True, proofs_broken=False):
    conncheck.run_conn_prop(ctx, "C09", P.c09_scripts(ctx), P.c09_oracle, "conn/api", RULE, model_ok)


def replay(ctx, path):
    return conncheck.generic_replay(ctx, path, P.c09_oracle, None, "C09")
