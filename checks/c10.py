"""C10 — configured limits bound what the parser keeps."""
import conncheck
import connprops as P

PROPS_MODULE = "C10"
TRUSTED = ["limit oracle in checks/connprops.py (search only)", "ASan allocator statistics for the steady-state clause (implementation-only observation)"]
ASSUMPTIONS = ["allocation succeeds", "steady-state clause: heap is measured on the implementation only (the model keeps no heap)"]


def run(ctx, model_ok=True, proofs_broken=False):
    scripts, meta = P.c10_scripts(ctx)
    by_id = {id(sc): m for sc, m in zip(scripts, meta)}
    found, cov = P.c10_steady_state(ctx)
    conncheck.run_conn_prop(ctx, "C10", scripts, P.make_c10_oracle(by_id), "conn/limits", P.RULES["C10"], model_ok, extra_cov=cov)
    for sig, desc in found:
        ctx.violation("oracle-" + sig, {"what": desc, "script": ["(steady-state script: checks/connprops.py:c10_steady_state)"]}, found_input=True, sig=sig)


def replay(ctx, path):
    return conncheck.generic_replay(ctx, path, lambda sc, outs: [], None, "C10")
