"""C11 — framing and host ambiguities are always flagged (anti-smuggling indicators)."""
import conncheck
import connprops as P

PROPS_MODULE = "C11"
TRUSTED = ["trigger generator and its expected indicator set (checks/connprops.py:c11_case), used to search for failing inputs"]
ASSUMPTIONS = ["allocation succeeds", "request side only (the response-side arbitration is modelled and corresponded, not stated in C11's theorems)"]
RULE = ("base message x one trigger (T-E+C-L, repeated C-L, folded C-L, chunked below 1.1, unparseable C-L, unsupported T-E, host differs, "
        "host missing, invalid URI host, invalid Host field, none) x random header order / name casing / optional whitespace / value "
        "spelling x chunking (whole, single cut, 1-byte, random) x 5 personalities; distinct = distinct final dumps")


def run(ctx, model_ok=True, proofs_broken=False):
    scripts, meta = P.c11_scripts(ctx)
    by_id = {id(sc): m for sc, m in zip(scripts, meta)}
    conncheck.run_conn_prop(ctx, "C11", scripts, P.make_c11_oracle(by_id), "conn/flags", RULE, model_ok)


def replay(ctx, path):
    return conncheck.generic_replay(ctx, path, lambda sc, outs: [], None, "C11")
