"""C12 — path decoding and normalisation match the documented semantics for every path.

Correspondence: `fn decode_path | urldecode | urldecode_path | utf8_decode | utf8_validate | normalize |
pipeline | norm_uri` under a covering set of configurations (public setters) and all personalities.
Oracle on the implementation: RFC 3986 §5.2.4 reference with the pinned exception, no dot segment,
idempotence, length, and the raw-NUL indicator rule.
"""
import itertools
import lib

PROPS_MODULE = "C12"
TRUSTED = ["Python RFC 3986 5.2.4 reference + invariants in checks/c12.py (search for failing inputs only)"]
ASSUMPTIONS = ["allocation succeeds", "path shorter than 2^31 bytes",
               "url_encoding_invalid_handling takes one of its three enum values (public setter's type)"]

ALPHA = bytes([0x2f, 0x2e, 0x25, 0x75, 0x5c, 0x30, 0x31, 0x61, 0x46, 0x00, 0xc0, 0x80, 0x41])
PERSONALITIES = ["MINIMAL", "GENERIC", "IDS", "IIS_5_1", "IIS_6_0", "IIS_7_0", "IIS_7_5", "APACHE_2"]
PATH_RAW_NUL = 0x8000


def hx(b):
    return bytes(b).hex() if len(b) else "-"


def unhx(s):
    return b"" if s == "-" else bytes.fromhex(s)


def covering_cfgs():
    """each switch both ways, each invalid-handling, every personality"""
    cfgs = ["-"]
    for p in PERSONALITIES:
        cfgs.append("p=" + p)
    base = "p=IDS"
    for k in ("bs", "lc", "comp", "sepdec", "nrt", "udec", "net", "u8best"):
        for v in (0, 1):
            cfgs.append("%s,%s=%d" % (base, k, v))
    for inv in (0, 1, 2):
        cfgs.append("%s,inv=%d" % (base, inv))
        cfgs.append("p=IIS_6_0,inv=%d,nrt=1" % inv)
        cfgs.append("p=APACHE_2,inv=%d,net=1" % inv)
    for k in ("sepunw", "nru", "uunw", "invunw", "neu", "u8unw"):
        cfgs.append("%s,%s=400" % (base, k))
        cfgs.append("p=MINIMAL,%s=404" % k)
    cfgs.append("p=IDS,repl=33")
    cfgs.append("p=GENERIC,udec=1,inv=2,nrt=1,net=1,lc=1,u8best=1,sepunw=400,nru=404,uunw=400,invunw=404,neu=400,u8unw=404")
    seen = []
    for c in cfgs:
        if c not in seen:
            seen.append(c)
    return seen


def rfc_remove_dot_segments(path):
    """RFC 3986 5.2.4 as written (input/output buffers), with the pinned exception: a '/' that is only
    the replacement produced by rule B/C ('/.' or '/..' complete segment, or '/./' '/../') is dropped when the
    input is then exhausted."""
    inp = path
    out = b""
    replaced = False  # the leading '/' of inp is a replacement produced by B or C
    while inp:
        if inp.startswith(b"../"):
            inp = inp[3:]; replaced = False
        elif inp.startswith(b"./"):
            inp = inp[2:]; replaced = False
        elif inp.startswith(b"/./"):
            inp = b"/" + inp[3:]; replaced = True
        elif inp == b"/.":
            inp = b"/"; replaced = True
        elif inp.startswith(b"/../"):
            inp = b"/" + inp[4:]; replaced = True
            out = out[:out.rfind(b"/")] if b"/" in out else b""
        elif inp == b"/..":
            inp = b"/"; replaced = True
            out = out[:out.rfind(b"/")] if b"/" in out else b""
        elif inp in (b".", b".."):
            inp = b""
        else:
            if replaced and inp == b"/":
                inp = b""   # pinned exception
                break
            j = inp.find(b"/", 1)
            seg = inp if j < 0 else inp[:j]
            out += seg
            inp = inp[len(seg):]
            replaced = False
    return out


def escape_tokens():
    cps = [0x00, 0x01, 0x20, 0x25, 0x2e, 0x2f, 0x5c, 0x41, 0x61, 0x7f, 0x80, 0xaf, 0xc0, 0xe9, 0xff]
    wide = [0x0100, 0x00e9, 0x2215, 0x2216, 0xff0f, 0xff3c, 0xff0e, 0xff21, 0xff41, 0xfeff, 0xff00, 0xffff, 0x0441, 0x2044]
    out = []
    for cp in cps:
        out.append(bytes([cp]))
        out.append(b"%%%02x" % cp)
        out.append(b"%%%02X" % cp)
        out.append(b"%%u%04x" % cp)
        out.append(b"%%U%04X" % cp)
        out.append(b"%%u%04X" % cp)
    for cp in wide:
        out.append(b"%%u%04x" % cp)
        out.append(b"%%u%04X" % cp)
        out.append(chr(cp).encode("utf-8"))
    # overlong / invalid UTF-8 forms of '/', '.', '\\' and NUL; encoded UTF-8; malformed escapes
    out += [b"\xc0\xaf", b"\xe0\x80\xaf", b"\xc0\xae", b"\xc1\x9c", b"\xc0\x80", b"%c0%af", b"%c0%ae", b"%e0%80%af", b"%ef%bc%8f", b"%c3%a9",
            b"%", b"%2", b"%u", b"%u0", b"%u00", b"%u002", b"%zz", b"%2z", b"%u00zz", b"%uzz2f", b"%%2f", b"%25%32%66", b"%252f", b"%u0025u002f",
            b"\xef\xbc", b"\xf0\x90\x80\x80", b"\xf4\x90\x80\x80", b"\x80", b"\xff"]
    seen = []
    for t in out:
        if t not in seen:
            seen.append(t)
    return seen


def has_dot_segment(p):
    return any(seg in (b".", b"..") for seg in p.split(b"/"))


def strings_upto(alpha, n, lo=0):
    for k in range(lo, n + 1):
        for t in itertools.product(alpha, repeat=k):
            yield bytes(t)


def run(ctx, model_ok=True, proofs_broken=False):
    rng = ctx.rng
    quick = ctx.tier == "quick"
    lines = []
    cfgs = covering_cfgs()
    L = 3 if quick else 4
    strs = list(strings_upto(ALPHA, L))
    for c in cfgs:
        for s in strs:
            lines.append("fn decode_path %s %s" % (c, hx(s)))
    # deeper under the richest configurations; escapes need up to 6 bytes, so prefix them
    L2 = 4 if quick else 5
    deep = list(strings_upto(ALPHA, L2, lo=L + 1))
    for c in ("p=IDS", "p=IIS_6_0,inv=2,nrt=1", "p=APACHE_2,net=1"):
        for s in deep:
            lines.append("fn decode_path %s %s" % (c, hx(s)))
    L3 = 3 if quick else 4
    for pre in (b"%u", b"%u00", b"%", b"/%u0", b"%uF"):
        for s in strings_upto(ALPHA, L3):
            for c in ("p=IDS", "p=IDS,inv=1", "p=IDS,inv=2", "p=IIS_6_0"):
                lines.append("fn decode_path %s %s" % (c, hx(pre + s)))
                lines.append("fn urldecode_path %s %s" % (c, hx(pre + s)))
    ualpha = bytes([0x61, 0x3d, 0x26, 0x25, 0x2b, 0x31, 0x00, 0x75, 0x46])
    ucfgs = ["-", "ctx=1,plus=0", "ctx=1,inv=1", "ctx=1,inv=2", "ctx=1,udec=1", "ctx=1,udec=1,inv=2", "ctx=1,nrt=1", "ctx=1,net=1",
             "ctx=1,udec=1,inv=1,nrt=1,net=1,plus=0,nru=400,neu=404,invunw=400,uunw=404"]
    LU = 4 if quick else 5
    for c in ucfgs:
        for s in strings_upto(ualpha, LU):
            lines.append("fn urldecode %s %s" % (c, hx(s)))
    # UTF-8
    u8alpha = bytes([0x2f, 0x41, 0xc0, 0xc1, 0xc2, 0xe0, 0xef, 0xf0, 0xf4, 0xf5, 0x80, 0xaf, 0xbc, 0xbf, 0xff, 0x8f, 0x90])
    LU8 = 3 if quick else 4
    for s in strings_upto(u8alpha, LU8):
        lines.append("fn utf8_validate %s" % hx(s))
        lines.append("fn utf8_decode p=IDS %s" % hx(s))
    for s in strings_upto(u8alpha, LU8 - 1):
        lines.append("fn utf8_decode p=IDS,u8unw=400,repl=33 %s" % hx(b"\xef\xbc" + s))
        lines.append("fn utf8_decode p=IDS %s" % hx(b"\xf0\x90\x80" + s))
    # normalisation: {/ . a} deep, full alphabet shallow
    LN = 9 if quick else 11
    for s in strings_upto(b"/.a", LN):
        lines.append("fn normalize %s" % hx(s))
    for s in strs:
        lines.append("fn normalize %s" % hx(s))
    # whole pipeline / URI under every personality
    LP = 3 if quick else 4
    for p in PERSONALITIES:
        for s in strings_upto(ALPHA, LP):
            lines.append("fn pipeline p=%s %s" % (p, hx(b"/" + s)))
    for p in PERSONALITIES:
        for _ in range(400 if quick else 5000):
            n = rng.randint(0, 30)
            s = bytes(rng.choice((rng.randrange(256), rng.choice(ALPHA), rng.choice(b"/.%u\\"))) for _ in range(n))
            lines.append("fn pipeline p=%s %s" % (p, hx(s)))
            if rng.random() < 0.4:
                u = rng.choice((b"http://", b"//", b"/", b"hTTp://U%73er:p%00w@Ho%73t.:80")) + s + rng.choice((b"", b"?q%41", b"#f%zz", b"?a#b%u0041"))
                lines.append("fn norm_uri p=%s %s" % (p, hx(u)))
    for _ in range(8000 if quick else 100000):
        n = rng.randint(0, 40)
        s = bytes(rng.choice((rng.randrange(256), rng.choice(ALPHA), rng.choice(b"/.%u\\"), rng.choice(b"0123456789abcdefABCDEF"))) for _ in range(n))
        c = rng.choice(cfgs)
        lines.append("fn %s %s %s" % (rng.choice(("decode_path", "pipeline", "urldecode_path", "utf8_decode")), c, hx(s)))
        if rng.random() < 0.3:
            lines.append("fn normalize %s" % hx(s))
    # escape grammar: token sequences over the code points every decoding stage singles out (separators, dot, NUL, '%', letters,
    # control, high/best-fit/full-width forms) written raw, as %XX and as %uXXXX in both hex cases, plus malformed escapes.
    # The byte alphabet above has only the hex digits 0 1 a F, so escapes such as %2f, %5C, %u002f, %uff0f are generated here.
    toks = escape_tokens()
    tcfgs = [c for c in cfgs if c.startswith("p=") and "," not in c] + ["-", "p=IDS,inv=1", "p=IDS,inv=2", "p=IDS,sepdec=0", "p=IDS,sepdec=1,bs=1",
             "p=IDS,bs=0", "p=IDS,udec=0", "p=IDS,nrt=1", "p=IDS,net=1", "p=IDS,u8best=1", "p=IIS_6_0,inv=2,nrt=1", "p=APACHE_2,net=1,sepdec=1",
             "p=GENERIC,udec=1,inv=2,nrt=1,net=1,lc=1,u8best=1,sepunw=400,nru=404,uunw=400,invunw=404,neu=400,u8unw=404"]
    for c in tcfgs:
        for t in toks:
            lines.append("fn decode_path %s %s" % (c, hx(b"/a" + t + b"b")))
            lines.append("fn pipeline %s %s" % (c, hx(b"/a" + t + b"b/" + t)))
    pairs = [(a, b) for a in toks for b in toks]
    if quick:
        pairs = rng.sample(pairs, 1500)
    for a, b in pairs:
        c = rng.choice(tcfgs)
        lines.append("fn pipeline %s %s" % (c, hx(b"/" + a + b)))
        lines.append("fn decode_path %s %s" % (c, hx(a + b"x" + b)))
    for _ in range(3000 if quick else 40000):
        s = b"".join(rng.choice(toks) if rng.random() < 0.6 else rng.choice((b"/", b"a", b".", b"..", b"/./", b"x/")) for _ in range(rng.randint(1, 8)))
        c = rng.choice(tcfgs if rng.random() < 0.7 else cfgs)
        lines.append("fn %s %s %s" % (rng.choice(("decode_path", "pipeline", "pipeline", "urldecode_path")), c, hx(s)))
        if rng.random() < 0.2:
            lines.append("fn norm_uri %s %s" % (c if c.startswith("p=") and "," not in c else "p=IDS", hx(b"http://h" + (s if s.startswith(b"/") else b"/" + s) + b"?q=" + rng.choice(toks))))
        if rng.random() < 0.2:
            lines.append("fn urldecode %s %s" % (rng.choice(ucfgs), hx(b"n=" + s + b"&" + rng.choice(toks) + b"=v")))
    lines += lib.load_fuzz_lines(("fn decode_path ", "fn pipeline ", "fn norm_uri ", "fn urldecode ", "fn urldecode_path ", "fn utf8_decode ", "fn normalize "))
    corpus = lib.load_corpus("C12")
    scripts = corpus + [[l] for l in lines]
    if model_ok:
        nlines, disagreements, c_outs, san = lib.corr_scripts(ctx, scripts, "decoders")
    else:
        co, ce, rc = lib.run_c(ctx.corr, [l for sc in scripts for l in sc])
        c_outs = list(zip(scripts, [[x] for x in co]))
        nlines, disagreements, san = len(co), [], lib.san_reports(ce)

    known = {f["signature"]: f for f in lib.known_findings()["findings"] if f["property"] == "C12"}
    found = {}
    distinct = set()
    fam = {}
    norm_outputs = set()

    def oracle(line, got):
        t = line.split(" ")
        f = t[1]
        if f == "normalize":
            inp = unhx(t[2]); out = unhx(got)
            norm_outputs.add(out)
            if len(out) > len(inp):
                return ("length", "normalised path longer than input")
            if has_dot_segment(out):
                return ("dot-segment", "output %r contains a '.' or '..' segment" % out)
            want = rfc_remove_dot_segments(inp)
            if out != want:
                return ("rfc3986", "RFC 3986 5.2.4 (with pinned exception) gives %r, implementation %r" % (want, out))
        elif f in ("decode_path", "urldecode_path", "urldecode", "utf8_decode", "pipeline"):
            inp = unhx(t[3]); g = got.split(" ")
            out = unhx(g[0]); flags = int(g[1])
            if len(out) > len(inp):
                return ("length", "%s output longer than input" % f)
            if f == "pipeline":
                norm_outputs.add(out)
                if has_dot_segment(out):
                    return ("dot-segment", "pipeline output %r contains a dot segment" % out)
            if f == "decode_path" and b"%" not in inp:
                spec = t[2]
                kv = dict(x.split("=") for x in spec.split(",")) if spec != "-" else {}
                nrt = kv.get("nrt", "0") == "1"
                if not nrt:
                    want = 0 in inp
                    if want != bool(flags & PATH_RAW_NUL):
                        return ("S5", "raw NUL in path but HTP_PATH_RAW_NUL %s" % ("set" if flags & PATH_RAW_NUL else "not set"))
        return None

    for sc, outs in c_outs:
        for line, got in zip(sc, outs):
            t = line.split(" ")
            fam[t[1]] = fam.get(t[1], 0) + 1
            distinct.add((t[1], got))
            r = oracle(line, got)
            if r:
                found.setdefault(r[0], []).append({"line": line, "impl": got, "what": r[1]})
    # idempotence: normalise every distinct output again on the implementation
    outs2 = sorted(norm_outputs)
    if outs2:
        co, ce, rc = lib.run_c(ctx.corr, ["fn normalize " + hx(o) for o in outs2])
        for o, g in zip(outs2, co):
            if unhx(g) != o:
                found.setdefault("idempotence", []).append({"line": "fn normalize " + hx(o), "impl": g,
                                                            "what": "normalising an already normalised path changes it"})
    for sig, items in found.items():
        if sig in known:
            ctx.known_hits.append("%s (%s) e.g. %s" % (sig, known[sig]["what_fails"], items[0]["line"]))
        else:
            ctx.violation("oracle-" + sig, {"examples": items[:5], "count": len(items)}, found_input=True, sig=sig)
    unknown_found = [s for s in found if s not in known]
    for d in disagreements:
        if d.get("crash"):
            ctx.violation("crash", d, found_input=bool(d.get("script")))
            continue
        bad = None
        for line, got in zip(d.get("script", []), d.get("impl", [])):
            r = oracle(line, got)
            if r and r[0] not in known:
                bad = r
        if bad:
            ctx.violation("correspondence+oracle", dict(d, oracle=bad), found_input=True)
        else:
            # the executable Lean model is the statement of the documented pipeline (theorems are about it):
            # a disagreement is an input on which the implementation no longer equals the documented semantics
            ctx.violation("correspondence-spec", dict(d, note="implementation differs from the Lean specification of the "
                                                                "documented pipeline on this input"), found_input=True)
    for kind, fn in set(san):
        if "pointer" in kind:
            continue
        ctx.violation("sanitizer", {"report": kind, "file": fn}, found_input=False)
    ctx.cov.update({"evaluations": nlines + len(outs2), "distinct_nontrivial": len(distinct),
                    "rule": "exhaustive over the property's 13-symbol alphabet up to length %d x %d covering configurations (each "
                            "switch both ways, each invalid-handling, all personalities), deeper (%d) under 3 configs, escape prefixes, "
                            "urlencoded alphabet up to %d, UTF-8 alphabet up to %d, {/ . a} up to %d for normalisation; random bytes. "
                            "distinct = distinct (function, result) pairs" % (L, len(cfgs), L2, LU, LU8, LN),
                    "programs": len(scripts), "disagreements_checked": len(disagreements), "op_family_counts": fam,
                    "configurations": len(cfgs), "idempotence_rechecks": len(outs2),
                    "samples": [lines[1234], lines[len(lines) // 2], lines[-1]], "exhaustive": False})


def replay(ctx, path):
    import json
    ctx.build = lib.build_repo("san")
    p = json.load(open(path))
    ex = p.get("examples") or [{"line": l} for l in p.get("script", [])]
    lines = [e["line"] for e in ex]
    co, ce, rc = lib.run_c(ctx.build["corr"], lines)
    lo = lib.run_lean(lines)
    bad = False
    for l, c, m in zip(lines, co, lo):
        print(l, "-> impl:", c, " lean-spec:", m)
        bad = bad or c != m
    if bad or p.get("kind", "").startswith("oracle"):
        print("VIOLATION property=C12 replay=%s" % path)
        return 1
    return 0
