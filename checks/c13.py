"""C13 — URI splitting partitions the request target without inventing bytes.

Correspondence: `fn parse_uri`, `fn hostport`, `fn norm_uri` (port rule), `fn validate_hostname`,
`fn inet6` (the Lean re-implementation of inet_pton against libc).
Oracle on the implementation: rejoin identity, '/'-rule, port rule — stated here in Python.
"""
import itertools
import lib

PROPS_MODULE = "C13"
TRUSTED = ["Python re-statement of rejoin / port rule in checks/c13.py (search for failing inputs only)",
           "inet_pton(AF_INET6) re-implemented in Lean (Uri.ipv6Valid) and compared with libc on every run"]
ASSUMPTIONS = ["allocation succeeds", "request target shorter than 2^31 bytes"]

ALPHA = b"a:/@?#[].09 "
HOSTU_INVALID = 0x002000000


def hx(b):
    return bytes(b).hex() if len(b) else "-"


def unhx(s):
    if s == "~":
        return None
    return b"" if s == "-" else bytes.fromhex(s)


def parse_kv(line):
    d = {}
    for kv in line.split(" "):
        k, _, v = kv.partition("=")
        d[k] = v
    return d


def rejoin(c):
    out = b""
    if c["scheme"] is not None:
        out += c["scheme"] + b":"
    if c["host"] is not None or c["user"] is not None:
        out += b"//"
    if c["user"] is not None:
        out += c["user"]
        if c["pass"] is not None:
            out += b":" + c["pass"]
        out += b"@"
    if c["host"] is not None:
        out += c["host"]
    if c["port"] is not None:
        out += b":" + c["port"]
    if c["path"] is not None:
        out += c["path"]
    if c["query"] is not None:
        out += b"?" + c["query"]
    if c["frag"] is not None:
        out += b"#" + c["frag"]
    return out


def s6_class(target):
    """structural class of known finding S6: an authority with a bracketed literal followed by bytes
    other than ':' before the port colon / end of authority"""
    t = target.rstrip(b" ")
    i = t.find(b"://")
    if i < 0 or t[:1] == b"/":
        return False
    auth = t[i + 3:]
    for j, ch in enumerate(auth):
        if ch in b"?/#":
            auth = auth[:j]
            break
    if b"@" in auth:
        auth = auth[auth.index(b"@") + 1:]
    if not auth.startswith(b"["):
        return False
    k = auth.find(b"]")
    if k < 0:
        return False
    after = auth[k + 1:]
    return len(after) > 0 and not after.startswith(b":")


def oracle_parse_uri(target, outline):
    """returns None if fine, else (signature, description)"""
    if outline == "error":
        return ("alloc", "error")
    kv = parse_kv(outline)
    c = {k: unhx(v) for k, v in kv.items()}
    want = target.rstrip(b" ")
    if len(want) == 0:
        return None if all(v is None for v in c.values()) else ("empty", "components for empty target")
    got = rejoin(c)
    if target[:1] == b"/" and any(c[k] is not None for k in ("scheme", "host", "user", "port")):
        return ("slash-rule", "target starting with '/' got scheme/authority")
    if got != want:
        # an invalid scheme-less target keeps everything in path: covered by identity too
        if s6_class(target):
            return ("S6", "bytes between ']' and ':'/end of authority vanish: rejoin=%r target=%r" % (got, want))
        return ("rejoin", "rejoin=%r target=%r" % (got, want))
    return None


def port_rule(port_text):
    """decimal value when in 1..65535 else invalid; LWS around allowed (as the code documents)"""
    t = port_text.strip(b" \t")
    if len(t) == 0 or not all(48 <= ch <= 57 for ch in t):
        # the parser accepts a digit prefix only if followed by LWS; anything else is invalid
        return -1
    v = int(t)
    return v if 1 <= v <= 65535 else -1


def strings_upto(alpha, n):
    for k in range(0, n + 1):
        for t in itertools.product(alpha, repeat=k):
            yield bytes(t)


def run(ctx, model_ok=True, proofs_broken=False):
    rng = ctx.rng
    L = 5 if ctx.tier == "quick" else 6
    lines = []
    for s in strings_upto(ALPHA, L):
        lines.append("fn parse_uri " + hx(s))
    # with an authority prefix so the deeper branches are reached exhaustively too
    LP = 4 if ctx.tier == "quick" else 5
    for pre in (b"a://", b"a://[", b"a://a@", b"a://[a]"):
        for s in strings_upto(ALPHA, LP):
            lines.append("fn parse_uri " + hx(pre + s))
    LH = 4 if ctx.tier == "quick" else 5
    halpha = b"aA:[]. 09\t"
    for s in strings_upto(halpha, LH):
        lines.append("fn hostport " + hx(s))
        lines.append("fn validate_hostname " + hx(s))
    # port rule through the normaliser
    ports = [b"", b"0", b"1", b"80", b"65535", b"65536", b"65537", b"99999999999999999999", b" 80", b"80 ", b"8 0", b"8a",
             b"a", b"-1", b"+1", b"0080", b"\t443\t", b"4294967297", b"18446744073709551617", b"9223372036854775808",
             b"4294967376", b"8589934672", b"281474976710736", b"4611686018427387984", b"65616", b"2147483728"]
    for p in ports:
        lines.append("fn norm_uri - " + hx(b"http://h:" + p + b"/x"))
        lines.append("fn norm_uri - " + hx(b"http://[::1]:" + p + b"/x"))
        lines.append("fn hostport " + hx(b"h:" + p))
    for _ in range(3000 if ctx.tier == "quick" else 60000):
        p = bytes(rng.choice(b"0123456789 \t") for _ in range(rng.randint(0, 7)))
        lines.append("fn norm_uri - " + hx(b"http://h:" + p + b"/"))
    # inet_pton re-implementation vs libc
    v6 = [b"::", b"::1", b"1::", b"1:2:3:4:5:6:7:8", b"1:2:3:4:5:6:7", b"1:2:3:4:5:6:7:8:9", b"::ffff:1.2.3.4", b"1.2.3.4",
          b"::1.2.3.4", b"::1.2.3", b"::1.2.3.256", b"::01.2.3.4", b"12345::", b"g::", b":1", b"1:", b":::", b"1::2::3",
          b"1:2:3:4:5:6:1.2.3.4", b"1:2:3:4:5:6:7:1.2.3.4", b"::1:2:3:4:5:6:7", b"::1:2:3:4:5:6:7:8", b"1:2:3:4:5:6:7::",
          b"FFFF::ffff", b"0:0:0:0:0:0:0:0", b"::1.2.3.4.5", b"::1..2", b"1::\x001", b"", b"abcd:ef01::", b"::00001"]
    for a in v6:
        lines.append("fn inet6 " + hx(a))
        lines.append("fn validate_hostname " + hx(b"[" + a + b"]"))
    v6alpha = b"01af:.:"
    for _ in range(20000 if ctx.tier == "quick" else 300000):
        a = bytes(rng.choice(v6alpha) for _ in range(rng.randint(0, 14)))
        lines.append("fn inet6 " + hx(a))
    for s in strings_upto(b"1:.a", 6 if ctx.tier == "quick" else 7):
        lines.append("fn inet6 " + hx(s))
    # random printable/unprintable targets
    for _ in range(20000 if ctx.tier == "quick" else 200000):
        n = rng.randint(0, 40)
        s = bytes(rng.choice((rng.randrange(256), rng.choice(b":/@?#[]. "), rng.choice(b"abc012"))) for _ in range(n))
        if rng.random() < 0.5:
            s = rng.choice((b"http://", b"h:", b"//", b"/", b"a://u:p@")) + s
        lines.append("fn parse_uri " + hx(s))
        if rng.random() < 0.3:
            lines.append("fn hostport " + hx(s))
    lines += lib.load_fuzz_lines(("fn parse_uri ", "fn hostport ", "fn validate_hostname ", "fn inet6 ", "fn norm_uri "))
    corpus = lib.load_corpus("C13")
    scripts = corpus + [[l] for l in lines]
    # CONNECT targets go through htp_parse_uri_hostport (authority form) inside the request-line processing: judged on the raw components
    # of the connection-level dump (seeded change C13e: the host was dropped when it failed validation)
    auths = [b"internal..corp:443", b"a.b:80", b"user@x:1", b"[a]:443", b"[::1]:443", b"h:0", b"H.Example:443", b"a_b:8", b"-x:1", b"a..b", b"ab",
             b".:1", b"a.:2", b"x:65536", b"x:", b"[::1]", b"a%b:1", b"a/b:1", b"x:99999999999"]
    for _ in range(60 if ctx.tier == "quick" else 1500):
        auths.append(bytes(rng.choice(b"aA.-_09@[]:%") for _ in range(rng.randint(1, 9))))
    for a in auths:
        if any(c in a for c in b" \t\r\n"):
            continue
        scripts.append(["conn new - -", "conn open", "conn req " + hx(b"CONNECT " + a + b" HTTP/1.1\r\nHost: " + a + b"\r\n\r\n"),
                        "conn dump", "conn destroy"])
    if model_ok:
        nlines, disagreements, c_outs, san = lib.corr_scripts(ctx, scripts, "uri")
    else:
        co, ce, rc = lib.run_c(ctx.corr, [l for sc in scripts for l in sc])
        c_outs = list(zip(scripts, [[x] for x in co]))
        nlines, disagreements, san = len(co), [], lib.san_reports(ce)
    # oracle on the implementation
    distinct = set()
    found = {}
    known = {f["signature"]: f for f in lib.known_findings()["findings"] if f["property"] == "C13"}
    fam = {}
    nontrivial = 0
    for sc, outs in c_outs:
        if sc and sc[0].startswith("conn "):
            fam["connect"] = fam.get("connect", 0) + 1
            import re as _re2
            target = unhx(sc[2].split(" ")[2]).split(b" ")[1]
            dump = next((o for l, o in zip(sc, outs) if l == "conn dump"), "")
            m = _re2.search(r"raw=\[(\S+) (\S+) (\S+) (\S+) (\S+) (-?\d+) ", dump)
            if m:
                def fld(x):
                    return None if x == "~" else (b"" if x == "-" else unhx(x))
                host, port = fld(m.group(4)), fld(m.group(5))
                distinct.add(("connect", m.group(0)))
                j = target.find(b"]")
                whole_reject = target.startswith(b"[") and (j < 0 or (j + 1 < len(target) and target[j + 1:j + 2] != b":"))
                rj = (host or b"") + ((b":" + port) if port is not None else b"")
                if not whole_reject and rj.lower() != target.lower():
                    found.setdefault("connect-rejoin", []).append({"line": sc[2], "target": repr(target), "impl": m.group(0),
                        "what": "CONNECT target %r: host [':' port] re-joins to %r" % (target, rj)})
            continue
        for line, got in zip(sc, outs):
            t = line.split(" ")
            fam[t[1]] = fam.get(t[1], 0) + 1
            distinct.add((t[1], got))
            if t[1] == "parse_uri":
                target = unhx(t[2])
                r = oracle_parse_uri(target, got)
                if r:
                    found.setdefault(r[0], []).append({"line": line, "target": repr(target), "impl": got, "what": r[1]})
                if "host=~" not in got:
                    nontrivial += 1
            elif t[1] == "hostport":
                # "no invented bytes" for the authority splitter (CONNECT targets, Host fields): outside the shapes that are rejected as a
                # whole (white space, an unterminated bracket, junk behind the closing bracket) host [":" port] re-joins to the input (up to the case of the host)
                src = unhx(t[2])
                if not any(c in src for c in b" \t\r\n\x0b\x0c"):
                    j = src.find(b"]")
                    if not (src.startswith(b"[") and (j < 0 or (j + 1 < len(src) and src[j + 1:j + 2] != b":"))):
                        kv = parse_kv(got)
                        host = None if kv["host"] == "~" else unhx(kv["host"])
                        port = None if kv["port"] == "~" else unhx(kv["port"])
                        rj = (host or b"") + ((b":" + port) if port is not None else b"")
                        # the port number reported for the port text is its exact decimal value when that is in 1..65535 (no wrap at any
                        # integer width), and otherwise the 'invalid' mark is set
                        if port is not None and b":" not in (host or b"") and not src.startswith(b"["):
                            want = port_rule(port)
                            if int(kv["pn"]) != want or (kv["invalid"] == "1") != (want == -1):
                                found.setdefault("hostport-port-rule", []).append({"line": line, "target": repr(src), "impl": got,
                                    "what": "port text %r: expected port number %d, invalid=%s" % (port, want, want == -1)})
                        if rj.lower() != src.lower():      # the host part is lower-cased (documented)
                            found.setdefault("hostport-rejoin", []).append({"line": line, "target": repr(src), "impl": got,
                                                                            "what": "host [':' port] re-joins to %r, the input is %r" % (rj, src)})
            elif t[1] == "norm_uri":
                target = unhx(t[3])
                kv = parse_kv(got)
                # the port-rule ground truth applies to the generated targets http://h:<port>/… or http://[::1]:<port>/… only
                # (targets from the distilled corpus are corresponded, not judged here)
                import re as _re
                if t[2] != "-" or not _re.match(rb"^http://(h|\[::1\]):[^/]*/", target):
                    continue
                auth = target[7:target.index(b"/", 7)]
                ptxt = auth.split(b"]:", 1)[1] if auth.startswith(b"[") else auth.split(b":", 1)[1]
                want = port_rule(ptxt)
                gotpn = int(kv["pn"])
                flags = int(kv["flags"])
                if gotpn != want or ((flags & HOSTU_INVALID) != 0) != (want == -1):
                    found.setdefault("port-rule", []).append({"line": line, "port_text": repr(ptxt), "impl": got,
                                                              "what": "expected port_number %d / invalid=%s" % (want, want == -1)})
    for sig, items in found.items():
        if sig in known:
            ctx.known_hits.append("%s (%s) e.g. %s" % (sig, known[sig]["what_fails"], items[0]["target"] if "target" in items[0] else items[0]["line"]))
        else:
            ctx.violation("oracle-" + sig, {"examples": items[:5], "count": len(items)}, found_input=True, sig=sig)
    for d in disagreements:
        if d.get("crash"):
            ctx.violation("crash", d, found_input=bool(d.get("script")))
            continue
        bad = None
        for line, got in zip(d.get("script", []), d.get("impl", [])):
            t = line.split(" ")
            if t[0] == "fn" and t[1] == "parse_uri":
                r = oracle_parse_uri(unhx(t[2]), got)
                if r and r[0] not in known:
                    bad = r
        if bad:
            ctx.violation("correspondence+oracle", dict(d, oracle=bad), found_input=True)
        elif not [s for s in found if s not in known]:
            ctx.violation("correspondence", dict(d, note="model and implementation disagree; rejoin/port oracle accepts the "
                                                         "implementation on this input"), found_input=False)
    for kind, fn in set(san):
        if kind.startswith("ubsan:applying") or "pointer" in kind:
            continue
        ctx.violation("sanitizer", {"report": kind, "file": fn}, found_input=False)
    ctx.cov.update({"evaluations": nlines, "distinct_nontrivial": len(distinct),
                    "rule": "exhaustive over the property's alphabet {a : / @ ? # [ ] . 0 9 SP} up to length %d (plain) and %d after "
                            "authority prefixes; host:port alphabet up to %d; port texts; inet_pton strings; random bytes. "
                            "distinct = distinct (function, result) pairs" % (L, LP, LH),
                    "programs": len(scripts), "disagreements_checked": len(disagreements), "op_family_counts": fam,
                    "targets_with_authority": nontrivial,
                    "samples": [lines[5000], lines[len(lines) // 2], lines[-1]], "exhaustive": False})


def replay(ctx, path):
    import json
    ctx.build = lib.build_repo("san")
    p = json.load(open(path))
    ex = p.get("examples") or [{"line": l} for l in p.get("script", [])]
    bad = False
    for e in ex:
        co, ce, rc = lib.run_c(ctx.build["corr"], [e["line"]])
        t = e["line"].split(" ")
        r = oracle_parse_uri(unhx(t[2]), co[0]) if t[1] == "parse_uri" else None
        print(e["line"], "->", co[0], "oracle:", r)
        bad = bad or bool(r)
    if bad:
        print("VIOLATION property=C13 replay=%s" % path)
        return 1
    return 0
