"""C14 — multipart bodies: parts are exact and independent of chunking.

Tie: `mpart <content-type> <chunks>` (htp_mpartp_find_boundary/create/parse*/finalize) and `conn ...` with the multipart
content handler registered, implementation vs the executable Lean model (HtpModel.Multipart, wired into the connection model).
Search oracles on the implementation's output (re-statements of the property; never a stand-in for the theorems):
  truth      the parts reported for a well-formed body built by gen/mpgen.py are the parts that were encoded
             (type, name, file name, content type, value / file bytes, order);
  chunking   result and anomaly indicators do not depend on the chunking (every single cut for small bodies, 1/2/3-byte
             chunks, random multi-cuts with empty chunks);
  params     through the connection parser, text parts become body parameters with the same names and values and file
             bytes reach the FILE_DATA callback exactly once, in order.
"""
import json
import os
import re
import sys

sys.path.insert(0, os.path.join(os.path.dirname(os.path.dirname(os.path.abspath(__file__))), "gen"))
import connlib as cl
import lib
import mpgen
import traffic

PROPS_MODULE = "C14"
TRUSTED = ["ground-truth multipart encoder gen/mpgen.py and the oracles in checks/c14.py (search only)"]
ASSUMPTIONS = ["allocation succeeds", "file extraction to disk is off (extract_request_files = 0)",
               "a body is well-formed when no data line starts with '--' boundary and, with bare-LF line ends, data does not end in CR"]

PART_RE = re.compile(r"type=(\d+);len=(\d+);name=([^;]*);file=([^;]*);flen=([^;]*);ct=([^;]*);value=([^;]*);headers=(.*)$")
LINE_RE = re.compile(r"^boundary=(\S+) mb=(\S+) flags=(\d+) bc=(\d+) parts=\[(.*)\] events=\[(.*)\]( STUCK)?$")


def opt(h):
    return None if h == "~" else cl.unhx(h)


def parse_result(line):
    m = LINE_RE.match(line)
    if not m:
        return None
    parts = []
    if m.group(5):
        for ps in m.group(5).split(" | "):
            pm = PART_RE.match(ps)
            if not pm:
                return None
            parts.append({"type": int(pm.group(1)), "len": int(pm.group(2)), "name": opt(pm.group(3)), "file": opt(pm.group(4)),
                          "flen": None if pm.group(5) == "~" else int(pm.group(5)), "ct": opt(pm.group(6)), "value": opt(pm.group(7)),
                          "headers": pm.group(8)})
    events = []
    if m.group(6):
        for e in m.group(6).split(" "):
            i, _, d = e.partition(":")
            events.append((int(i), None if d == "~" else cl.unhx(d)))
    return {"boundary": opt(m.group(1)), "flags": int(m.group(3)), "bc": int(m.group(4)), "parts": parts, "events": events}


def file_bytes(res, idx):
    """-> (concatenated FILE_DATA bytes of part idx, number of end markers, marker-is-last)"""
    data, ends, last_is_end = b"", 0, False
    for i, d in res["events"]:
        if i != idx:
            continue
        if d is None:
            ends += 1
            last_is_end = True
        else:
            data += d
            last_is_end = False
    return data, ends, last_is_end


def projection(res):
    """what the property says must not depend on the chunking"""
    if res is None:
        return None
    out = [res["flags"], res["bc"]]
    for i, p in enumerate(res["parts"]):
        fb = file_bytes(res, i)
        out.append((p["type"], p["name"], p["file"], p["flen"], p["ct"], p["value"], p["headers"], fb))
    return out


def truth_check(res, truth):
    """[(sig, description)]"""
    found = []
    if res is None:
        return [("unparsed", "result line not understood")]
    if res["boundary"] != truth["boundary"]:
        return [("boundary", "boundary reported %r, sent %r" % (res["boundary"], truth["boundary"]))]
    real = [(i, p) for i, p in enumerate(res["parts"]) if p["type"] not in (3, 4)]
    pre = [p for p in res["parts"] if p["type"] == 3]
    epi = [p for p in res["parts"] if p["type"] == 4]
    want = truth["parts"]
    if len(real) != len(want):
        return [("part-count", "%d parts reported (types %s) for %d encoded" % (len(real), [p["type"] for _, p in real], len(want)))]
    for k, ((i, p), w) in enumerate(zip(real, want)):
        if w.filename is None:
            if p["type"] != 1:
                found.append(("type", "part %d: type %d, expected TEXT" % (k, p["type"])))
            if p["value"] is None and w.data == b"":
                found.append(("empty-value-null", "part %d: an empty text part is reported with a NULL value" % k))
            elif p["value"] != w.data:
                found.append(("value", "part %d: value %r, encoded %r" % (k, p["value"], w.data)))
            if p["file"] is not None:
                found.append(("filename", "part %d: file name %r for a field" % (k, p["file"])))
        else:
            if p["type"] != 2:
                found.append(("type", "part %d: type %d, expected FILE" % (k, p["type"])))
            if p["file"] != w.filename:
                found.append(("filename", "part %d: file name %r, encoded %r" % (k, p["file"], w.filename)))
            fb, ends, last_is_end = file_bytes(res, i)
            if fb != w.data:
                found.append(("file-bytes", "part %d: FILE_DATA bytes %r, encoded %r" % (k, fb, w.data)))
            if p["flen"] != len(w.data):
                found.append(("file-len", "part %d: file length %r, encoded %d bytes" % (k, p["flen"], len(w.data))))
            if ends != 1 or not last_is_end:
                found.append(("file-end", "part %d: %d end-of-file calls (last=%s)" % (k, ends, last_is_end)))
        if p["name"] != w.name:
            found.append(("name", "part %d: name %r, encoded %r" % (k, p["name"], w.name)))
        if p["ct"] != w.ctype:
            found.append(("content-type", "part %d: content type %r, encoded %r" % (k, p["ct"], w.ctype)))
    if truth["preamble"] is None and pre:
        found.append(("preamble", "a preamble part is reported for a body without preamble"))
    if truth["preamble"] is not None and (len(pre) != 1 or pre[0]["value"] != truth["preamble"]):
        found.append(("preamble", "preamble reported %r, sent %r" % ([p["value"] for p in pre], truth["preamble"])))
    if truth["epilogue"] is None and epi:
        found.append(("epilogue", "an epilogue part is reported for a body without epilogue"))
    if truth["epilogue"] is not None and (len(epi) != 1 or epi[0]["value"] != truth["epilogue"]):
        found.append(("epilogue", "epilogue reported %r, sent %r" % ([p["value"] for p in epi], truth["epilogue"])))
    return found


# ------------------------------------------------------------------------------------------------


def wellformed_scripts(ctx):
    r = ctx.rng
    quick = ctx.tier == "quick"
    out, meta = [], []
    for i in range(260 if quick else 2500):
        small = i % 3 == 0
        ct, body, truth = mpgen.gen_wellformed(r, max_parts=2 if small else 4, small=small)
        sent = r.choice([None, None, None, 0x2d, 0x0a, 0x0d, 0x41])
        sc = [mpgen.mpart_line(ct, ch, sent) for ch in mpgen.chunkings(r, body, exhaustive_upto=140 if quick else 400,
                                                                       sampled=16 if quick else 60)]
        out.append(sc); meta.append({"truth": truth, "body": body})
    return out, meta


def conn_scripts(ctx):
    r = ctx.rng
    quick = ctx.tier == "quick"
    out, meta = [], []
    for i in range(120 if quick else 1200):
        ct, body, truth = mpgen.gen_wellformed(r, max_parts=3)
        chunked = r.random() < 0.3
        head = b"POST /upload?q=1 HTTP/1.1\r\nHost: h\r\nContent-Type: " + ct + b"\r\n"
        if chunked:
            pieces, pos = [], 0
            while pos < len(body):
                n = r.randint(1, max(1, len(body) // 2))
                pieces.append(b"%x\r\n" % len(body[pos:pos + n]) + body[pos:pos + n] + b"\r\n"); pos += n
            req = head + b"Transfer-Encoding: chunked\r\n\r\n" + b"".join(pieces) + b"0\r\n\r\n"
        else:
            req = head + b"Content-Length: %d\r\n\r\n" % len(body) + body
        res = b"HTTP/1.1 200 OK\r\nContent-Length: 0\r\n\r\n"
        n = len(req)
        for mode in range(3 if quick else 6):
            if mode == 0:
                cuts = []
            elif mode == 1:
                cuts = sorted(r.sample(range(1, n), min(n - 1, r.randint(1, 6))))
            elif mode == 2:
                cuts = list(range(1, n)) if n < 400 else sorted(r.sample(range(1, n), 200))
            else:
                cuts = sorted(r.sample(range(1, n), min(n - 1, r.randint(1, 12))))
            items, prev = [], 0
            for c in cuts + [n]:
                items.append(">" + traffic.hx(req[prev:c])); prev = c
            items.append("<" + traffic.hx(res))
            cfg = r.choice(("urlenc=1,mpart=1,respdecomp=0", "mpart=1,respdecomp=0", "p=IDS,urlenc=1,mpart=1,respdecomp=0"))
            out.append(traffic.script(cfg, "-", items)); meta.append({"truth": truth, "body": body})
    return out, meta


def conn_oracle(sc, outs, truth):
    g, slots = cl.final_dump(sc, outs)
    if not slots or slots[0] is None:
        return [("no-tx", "no transaction in the dump")]
    t = slots[0]
    found = []
    want = [(p.name, p.data) for p in truth["parts"] if p.filename is None]
    got = []
    for item in (t.get("params", "").split(",") if t.get("params") else []):
        nv, _, src = item.rpartition("@")
        n, _, v = nv.partition("=")
        if src == "3":
            got.append((cl.unhx(n), None if v == "~" else cl.unhx(v)))
    if [(n, v if v is not None else b"") for n, v in got] != want:
        found.append(("params", "body parameters %r, text parts encoded %r" % (got[:6], want[:6])))
    elif any(v is None for n, v in got):
        found.append(("empty-value-null", "a body parameter made from an empty text part has a NULL value"))
    files = [p.data for p in truth["parts"] if p.filename is not None]
    stream, ends = b"", 0
    for e in cl.all_events(sc, outs):
        if e.name == "request_file_data":
            if e.kind == "bytes":
                stream += e.data
            elif e.kind == "null":
                ends += 1
    if stream != b"".join(files) or ends != len(files):
        found.append(("file-bytes", "FILE_DATA delivered %r (%d end markers); files encoded %r" % (stream[:60], ends, files[:4])))
    return found


def run(ctx, model_ok=True, proofs_broken=False):
    import mpart_diff
    quick = ctx.tier == "quick"
    known = {f["signature"]: f for f in lib.known_findings()["findings"] if f["property"] == "C14"}
    wf, wf_meta = wellformed_scripts(ctx)
    # arbitrary / malformed bodies and content types: correspondence only (the tie between model and code)
    arb = []
    seed = ctx.rng.randrange(1 << 30)
    for ct, chunks, oob in mpart_diff.gen_cases(seed, 60 if quick else 700, 150):
        arb.append([mpart_diff.line_of(ct, chunks, oob)])
    arb += [[l] for l in lib.load_fuzz_lines(("mpart ",))]     # distilled coverage corpus (offline search), deterministic
    cs, cs_meta = conn_scripts(ctx)
    corpus = lib.load_corpus("C14")
    allsc = corpus + wf + arb + cs
    lib.UNSUPPORTED_SEEN[0] = 0
    if model_ok:
        nlines, disagreements, c_outs, san = lib.corr_scripts(ctx, allsc, "mpart", batch=40000)
    else:
        nlines, disagreements, c_outs, san = cl.run_scripts(ctx, allsc, "mpart", False)
    by_id = {id(sc): outs for sc, outs in c_outs}
    found = {}
    distinct = set()
    flag_bits, types = {}, {}
    nfiles = 0

    def note(sig, item):
        found.setdefault(sig, []).append(item)

    for sc, m in zip(wf, wf_meta):
        outs = by_id.get(id(sc))
        if outs is None:
            continue
        ress = [parse_result(o) for o in outs]
        distinct.add(outs[0])
        if ress[0]:
            for b in range(24):
                if ress[0]["flags"] >> b & 1:
                    flag_bits[b] = flag_bits.get(b, 0) + 1
            for p in ress[0]["parts"]:
                types[p["type"]] = types.get(p["type"], 0) + 1
                nfiles += p["type"] == 2
        p0 = projection(ress[0])
        for line, o, rs in zip(sc, outs, ress):
            for sig, desc in truth_check(rs, m["truth"]):
                note("truth:" + sig, {"script": [line], "what": desc, "impl": o[:600]})
                break
            else:
                if projection(rs) != p0:
                    note("chunking", {"script": [sc[0], line], "what": "result depends on the chunking", "whole": outs[0][:600], "chunked": o[:600]})
                    break
                continue
            break
    for sc, m in zip(cs, cs_meta):
        outs = by_id.get(id(sc))
        if outs is None:
            continue
        for sig, desc in conn_oracle(sc, outs, m["truth"]):
            note("conn:" + sig, {"script": sc, "what": desc})
    for sig, items in found.items():
        base = sig.split(":", 1)[-1]
        if sig in known or base in known:
            k = known.get(sig) or known.get(base)
            ctx.known_hits.append("%s (%s) x%d" % (k["signature"], k["what_fails"][:160], len(items)))
        else:
            ctx.violation("oracle-" + sig, dict(items[0], count=len(items)), found_input=True, sig=sig)
    unknown = [s for s in found if s not in known and s.split(":", 1)[-1] not in known]
    for d in disagreements:
        if d.get("crash"):
            ctx.violation("crash", d, found_input=bool(d.get("script")))
        elif not unknown:
            ctx.violation("correspondence", dict(d, note="model and implementation disagree on this input; the property oracles accept "
                                                         "the implementation's behaviour on the inputs they cover"), found_input=False)
    for kind, fn in set(san):
        if kind.startswith("ubsan:applying zero offset to null pointer"):
            continue
        ctx.violation("sanitizer", {"report": kind, "file": fn}, found_input=False, sig="%s@%s" % (kind, fn))
    ctx.cov.update({"evaluations": nlines, "distinct_nontrivial": len(distinct), "programs": len(allsc),
                    "rule": "well-formed bodies from the ground-truth encoder (boundaries incl. dashes, 0..4 parts, names/file names with "
                            "escaped quotes and high bytes, binary data with near-boundary strings, CRLF or LF, preamble/epilogue), each whole, "
                            "with every single cut (small bodies) or sampled cuts, as 1/2/3-byte chunks and random multi-cuts, exact-size "
                            "heap buffers or a sentinel byte behind each chunk; arbitrary and malformed bodies/content types (correspondence "
                            "only); POST requests through the connection parser with the multipart handler (CL and chunked framing, "
                            "segmented). distinct = distinct whole-body result lines",
                    "wellformed_bodies": len(wf), "arbitrary_cases": len(arb), "conn_scripts": len(cs),
                    "disagreements_checked": len(disagreements), "flag_bits_seen": {hex(1 << b): n for b, n in sorted(flag_bits.items())},
                    "part_types_seen": types, "file_parts": nfiles, "model_unsupported_scripts": lib.UNSUPPORTED_SEEN[0],
                    "samples": [wf[0][:2], arb[len(arb) // 2], cs[0][:3]], "exhaustive": False})


def replay(ctx, path):
    ctx.build = lib.build_repo("san")
    p = json.load(open(path))
    sc = p.get("script") or []
    if not sc:
        print("replay file names no script:", json.dumps(p)[:600])
        print("VIOLATION property=C14 replay=%s no-failing-input-found" % path)
        return 1
    co, ce, rc = lib.run_c(ctx.build["corr"], sc)
    lo = lib.run_lean(sc)
    for l, c, m in zip(sc, co, lo):
        print(l[:300]); print("  impl :", c[:600]); print("  model:", m[:600])
    print("recorded:", p.get("what"))
    ress = [projection(parse_result(c)) for c in co if c.startswith("boundary=")]
    if co != lo or rc != 0 or len(set(map(repr, ress))) > 1 or p.get("what"):
        print("VIOLATION property=C14 replay=%s" % path)
        return 1
    return 0
