"""C15 — urlencoded parameters equal the reference split/decoding for any chunking.

Correspondence: `urlenc <cfg> <chunks>` harness vs Lean model.
Oracle on the implementation: (i) every chunking of one string gives the same result line as the
unsplit string; (ii) the reference rule (split on '&', first '=', drop only a final empty piece, decode)
re-stated in Python for the default configuration.
"""
import itertools
import lib

PROPS_MODULE = "C15"
TRUSTED = ["Python re-statement of the reference split rule in checks/c15.py (search only)"]
ASSUMPTIONS = ["allocation succeeds", "argument separator '&' and decoding enabled (parser defaults; no public setter changes them)"]

ALPHA = bytes([0x61, 0x3d, 0x26, 0x25, 0x2b, 0x31, 0x00])
CFGS = ["-", "ctx=1,plus=0", "ctx=1,inv=1", "ctx=1,inv=2", "ctx=1,udec=1,inv=2", "ctx=1,nrt=1,net=1"]


def hx(b):
    return bytes(b).hex() if len(b) else "-"


def ref_decode_default(b):
    """percent/plus decoding under the default URLENCODED configuration: invalid escapes preserved"""
    out = bytearray()
    i = 0
    hexd = b"0123456789abcdefABCDEF"
    while i < len(b):
        c = b[i]
        if c == 0x25:
            if i + 2 < len(b) and b[i + 1] in hexd and b[i + 2] in hexd:
                out.append(int(b[i + 1:i + 3], 16)); i += 3
            else:
                out.append(c); i += 1
        elif c == 0x2b:
            out.append(0x20); i += 1
        else:
            out.append(c); i += 1
    return bytes(out)


def ref_pairs(s):
    pieces = s.split(b"&")
    if pieces and pieces[-1] == b"":
        pieces = pieces[:-1]
    out = []
    for p in pieces:
        if b"=" in p:
            n, v = p.split(b"=", 1)
        else:
            n, v = p, b""
        out.append((n, v))
    return out


def fmt_pairs(ps):
    return "n=%d [%s]" % (len(ps), ",".join("%s=%s" % (hx(n), hx(v)) for n, v in ps))


def chunkings(s, rng, extra_random=0):
    n = len(s)
    yield [s] if n else ["!"]
    if n == 0:
        yield [b""]
        return
    for i in range(1, n):
        yield [s[:i], s[i:]]
    if n > 1:
        yield [s[i:i + 1] for i in range(n)]
    yield [b"", s, b""]
    for _ in range(extra_random):
        cuts = sorted(set(rng.randint(0, n) for _ in range(rng.randint(1, 4))))
        parts, prev = [], 0
        for c in cuts + [n]:
            parts.append(s[prev:c]); prev = c
        yield parts


def chunk_str(parts):
    if parts == ["!"]:
        return "!"
    return "|".join(hx(p) for p in parts)


def run(ctx, model_ok=True, proofs_broken=False):
    rng = ctx.rng
    quick = ctx.tier == "quick"
    L = 5 if quick else 6
    scripts = []   # one script per (cfg, string): line 0 = unsplit, then the chunkings
    meta = []
    for k in range(0, L + 1):
        for t in itertools.product(ALPHA, repeat=k):
            s = bytes(t)
            cfgs = CFGS if k <= (4 if quick else 5) else CFGS[:1]
            for c in cfgs:
                sc = ["urlenc %s %s" % (c, chunk_str(p)) for p in chunkings(s, rng)]
                scripts.append(sc); meta.append((c, s))
    for _ in range(3000 if quick else 40000):
        n = rng.randint(0, 40)
        s = bytes(rng.choice((rng.randrange(256), rng.choice(ALPHA), rng.choice(b"=&%+u0aF"))) for _ in range(n))
        c = rng.choice(CFGS)
        sc = ["urlenc %s %s" % (c, chunk_str(p)) for p in chunkings(s, rng, extra_random=4)]
        scripts.append(sc); meta.append((c, s))
    # escape grammar: names and values built from raw bytes and %XX / %uXXXX escapes of every code point the decoder singles out, in both
    # hex cases, plus malformed escapes (the byte alphabet above only has the hex digit 1 and the letter a)
    import c12
    toks = c12.escape_tokens()
    for _ in range(2500 if quick else 30000):
        def field():
            return b"".join(rng.choice(toks) if rng.random() < 0.7 else rng.choice((b"a", b"b1", b"+", b"")) for _ in range(rng.randint(0, 3)))
        s = b"&".join((field() + (b"=" + field() if rng.random() < 0.8 else b"")) for _ in range(rng.randint(1, 4))) + rng.choice((b"", b"&", b"=", b"&&"))
        c = rng.choice(CFGS) if rng.random() < 0.5 else "-"
        sc = ["urlenc %s %s" % (c, chunk_str(p)) for p in chunkings(s, rng, extra_random=3)]
        scripts.append(sc); meta.append((c, s))
    # distilled coverage corpus: each found (configuration, chunking) is replayed together with the unsplit string and the standard chunkings
    for l in lib.load_fuzz_lines(("urlenc ",)):
        t = l.split(" ")
        if len(t) != 3 or t[2] == "!":
            continue
        try:
            parts = [bytes.fromhex(x) if x != "-" else b"" for x in t[2].split("|")]
        except ValueError:
            continue
        s = b"".join(parts)
        if len(s) > 60:
            continue
        sc = ["urlenc %s %s" % (t[1], chunk_str(p)) for p in chunkings(s, rng)] + [l]
        scripts.append(sc); meta.append((t[1], s))
    # invalid escapes that are decoded all the same (HTP_URL_DECODE_PROCESS_INVALID): "%XY" with X, Y not both hex digits is x2c's
    # arithmetic digit(X) * 16 + digit(Y) mod 256 on arbitrary bytes - judged against that formula below (the model's x2c table is
    # regenerated from the source, so the correspondence alone cannot see a change to x2c; theorem C15_x2c_table pins the table)
    XY = b"0189aAfFgGzZ@[`{/:!~*-.\x7f\x80\xff\x01"
    for X in XY:
        for Y in XY + b"+%":
            if bytes([X]) in b"uU":
                continue
            sline = b"a=%" + bytes([X, Y])
            sc = ["urlenc ctx=1,inv=2 %s" % hx(sline)]
            scripts.append(sc); meta.append(("ctx=1,inv=2/x2c", sline))
    corpus = lib.load_corpus("C15")
    if model_ok:
        nlines, disagreements, c_outs, san = lib.corr_scripts(ctx, corpus + scripts, "urlenc", batch=60000)
    else:
        allsc = corpus + scripts
        co, ce, rc = lib.run_c(ctx.corr, [l for sc in allsc for l in sc])
        c_outs, pos = [], 0
        for sc in allsc:
            c_outs.append((sc, co[pos:pos + len(sc)])); pos += len(sc)
        nlines, disagreements, san = len(co), [], lib.san_reports(ce)
    found = {}
    distinct = set()
    by_script = {id(sc): outs for sc, outs in c_outs}
    nontriv = 0
    for sc, (c, s) in zip(scripts, meta):
        outs = by_script.get(id(sc))
        if outs is None:
            continue
        distinct.add(outs[0])
        for line, got in zip(sc, outs):
            if got != outs[0]:
                found.setdefault("chunking", []).append({"script": [sc[0], line], "whole": outs[0], "chunked": got,
                                                         "what": "result depends on chunking"})
                break
        if c == "-":
            want = fmt_pairs([(ref_decode_default(n), ref_decode_default(v)) for n, v in ref_pairs(s)])
            if not outs[0].startswith(want + " flags="):
                found.setdefault("reference", []).append({"script": [sc[0]], "impl": outs[0], "reference": want,
                                                          "what": "differs from the reference split/decoding"})
        if c == "ctx=1,inv=2/x2c":
            def dig(b):
                return ((((b & 0xdf) - 0x41) + 10) if b >= 0x41 else (b - 0x30)) & 0xff
            X, Y = s[3], s[4]
            hexd = b"0123456789abcdefABCDEF"
            want_b = (dig(X) * 16 + dig(Y)) & 0xff
            if want_b != 0:                      # a decoded NUL is subject to the NUL options: not judged here
                want = fmt_pairs([(b"a", bytes([want_b]))])
                if not outs[0].startswith(want + " flags="):
                    found.setdefault("x2c-arithmetic", []).append({"script": [sc[0]], "impl": outs[0], "reference": want,
                                                                   "what": "%%%02x%02x under PROCESS_INVALID should decode to %02x (x2c arithmetic)" % (X, Y, want_b)})
        if b"&" in s and b"=" in s:
            nontriv += 1
    for sig, items in found.items():
        ctx.violation("oracle-" + sig, {"examples": items[:5], "count": len(items)}, found_input=True, sig=sig)
    for d in disagreements:
        if d.get("crash"):
            ctx.violation("crash", d, found_input=bool(d.get("script")))
        elif not found:
            ctx.violation("correspondence", dict(d, note="model and implementation disagree; chunking/reference oracles accept "
                                                          "the implementation"), found_input=False)
    for kind, fn in set(san):
        if "pointer" in kind:
            continue
        ctx.violation("sanitizer", {"report": kind, "file": fn}, found_input=False)
    ctx.cov.update({"evaluations": nlines, "distinct_nontrivial": len(distinct),
                    "rule": "every string over {a = & %% + 1 NUL} up to length %d x %d configurations, each unsplit, with every single "
                            "cut, all-singletons and empty-chunk padding; random longer strings over all bytes with random multi-cuts. "
                            "distinct = distinct unsplit result lines" % (L, len(CFGS)),
                    "programs": len(scripts), "disagreements_checked": len(disagreements),
                    "strings_with_both_delimiters": nontriv,
                    "samples": [scripts[777], scripts[len(scripts) // 2], scripts[-1]], "exhaustive": False})


def replay(ctx, path):
    import json
    ctx.build = lib.build_repo("san")
    p = json.load(open(path))
    bad = False
    for e in p.get("examples", [p]):
        sc = e.get("script", [])
        co, ce, rc = lib.run_c(ctx.build["corr"], sc)
        for l, c in zip(sc, co):
            print(l, "->", c)
        bad = bad or len(set(co)) > 1 or "reference" in e
    if bad:
        print("VIOLATION property=C15 replay=%s" % path)
        return 1
    return 0
