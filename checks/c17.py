"""C17 — containers and string/number primitives behave as their abstract types.

Correspondence: op-sequence differential (harness vs Lean model) over exhaustive small
sequences and random long ones. Oracle (search for a failing input): the abstract types
themselves, re-stated here in Python (deque, insertion-ordered multimap, textbook string
functions, exact integer parsing), evaluated on the implementation's outputs.
"""
import itertools
import lib

PROPS_MODULE = "C17"
TRUSTED = ["Python re-statement of the abstract types in checks/c17.py (used only to search for failing inputs)"]
ASSUMPTIONS = ["allocation succeeds (failure paths are C18)", "sizes < 2^31 (C int truncation of indices out of scope)",
               "libc ctype in the C locale, tabulated by the translator"]

INT64_MAX = 2 ** 63 - 1
INT32_MAX = 2 ** 31 - 1


def hx(b):
    return bytes(b).hex() if len(b) else "-"


# ------------------------------------------------------------------ reference (abstract types)

def c_tolower(c):
    return c + 32 if 65 <= c <= 90 else c


def c_isspace(c):
    return c in (9, 10, 11, 12, 13, 32)


def ref_cmp(a, b):
    return -1 if a < b else (1 if a > b else 0)


def ref_bstr(fn, args):
    if fn == "cmp":
        return str(ref_cmp(bytes(args[0]), bytes(args[1])))
    lo = lambda s: bytes(c_tolower(c) for c in s)
    if fn == "cmp_nocase":
        return str(ref_cmp(lo(args[0]), lo(args[1])))
    if fn == "cmp_nocasenorzero":
        return str(ref_cmp(lo(bytes(c for c in args[0] if c != 0)), lo(args[1])))
    if fn == "begins_with":
        return "1" if bytes(args[0]).startswith(bytes(args[1])) else "0"
    if fn == "begins_with_nocase":
        return "1" if lo(args[0]).startswith(lo(args[1])) else "0"
    if fn in ("index_of", "index_of_nocase"):
        h, n = (bytes(args[0]), bytes(args[1])) if fn == "index_of" else (lo(args[0]), lo(args[1]))
        # least i < |hay| at which the needle matches (so: empty haystack never matches)
        for i in range(len(h)):
            if h[i:i + len(n)] == n:
                return str(i)
        return "-1"
    if fn == "index_of_nocasenorzero":
        h, n = lo(args[0]), lo(args[1])
        for i in range(len(h)):
            if h[i] == 0:
                continue
            rest = bytes(c for c in h[i:] if c != 0)
            if rest[:len(n)] == n:
                return str(i)
        return "-1"
    if fn == "to_lowercase":
        return hx(lo(args[0]))
    if fn == "trim":
        s = list(args[0])
        while s and c_isspace(s[0]):
            s.pop(0)
        while s and c_isspace(s[-1]):
            s.pop()
        return hx(s)
    if fn == "chop":
        return hx(args[0][:-1])
    if fn == "add":
        return hx(list(args[0]) + list(args[1]))
    raise KeyError(fn)


def ref_wrapper(fn, targs):
    """the thin wrappers of bstr.c, stated independently: what each means for byte strings (a C-string argument = bytes up to the first NUL)"""
    dec = lambda x: list(bytes.fromhex(x)) if x != "-" else []
    cstr = lambda b: b[:b.index(0)] if 0 in b else b
    if fn == "dup_ex":
        a, o, l = dec(targs[0]), int(targs[1]), int(targs[2])
        return hx(a[o:o + l])
    a = dec(targs[0])
    if len(targs) == 1:
        if fn == "dup":
            return "%s %d %d" % (hx(a), len(a), len(a))
        if fn == "dup_c":
            return hx(cstr(a))
        if fn == "dup_lower":
            return hx([c_tolower(c) for c in a])
        if fn in ("memdup_to_c", "strdup_to_c"):
            return hx([y for c in a for y in ((0x5c, 0x30) if c == 0 else (c,))])
        if fn == "wrap_c":
            return "%s %d" % (hx(cstr(a)), len(cstr(a)))
        if fn == "wrap_mem":
            return "%s %d refused" % (hx(a), len(a))
        raise KeyError(fn)
    b = dec(targs[1])
    base = {"cmp": "cmp", "cmp_nocase": "cmp_nocase", "cmp_c": "cmp", "cmp_c_nocase": "cmp_nocase", "cmp_c_nocasenorzero": "cmp_nocasenorzero",
            "util_cmp_mem": "cmp", "util_cmp_mem_nocase": "cmp_nocase", "begins_with": "begins_with", "begins_with_nocase": "begins_with_nocase",
            "begins_with_c": "begins_with", "begins_with_c_nocase": "begins_with_nocase", "index_of": "index_of", "index_of_nocase": "index_of_nocase",
            "index_of_c": "index_of", "index_of_c_nocase": "index_of_nocase", "index_of_c_nocasenorzero": "index_of_nocasenorzero",
            "util_mem_index_of_c": "index_of", "util_mem_index_of_c_nocase": "index_of_nocase", "util_mem_index_of_mem": "index_of",
            "util_mem_index_of_mem_nocase": "index_of_nocase", "add": "add", "add_c": "add"}
    isc = fn.endswith("_c") or "_c_" in fn
    bb = cstr(b) if isc else b
    if fn in ("add_noex", "add_c_noex"):
        return hx(a + bb[:3])
    return ref_bstr(base[fn], [a, bb])


def digit_val(c):
    if 48 <= c <= 57:
        return c - 48
    if 97 <= c <= 122:
        return c - 87
    if 65 <= c <= 90:
        return c - 55
    return None


def ref_pint(data, base):
    """mathematical meaning of bstr_util_mem_to_pint: value of the longest valid-digit prefix,
    -1 if there is none, -2 if it does not fit in int64; (lastlen as documented by the code)"""
    i = 0
    val = None
    while i < len(data):
        d = digit_val(data[i])
        if d is None or d >= base:
            break
        val = d if val is None else val * base + d
        if val > INT64_MAX:
            return -2, i
        i += 1
    if i == len(data):
        return (0 if val is None else val), len(data) + 1
    return (-1 if val is None else val), i


def ref_ppiw(data, base):
    if len(data) == 0:
        return -1003
    i = 0
    while i < len(data) and data[i] in (32, 9):
        i += 1
    if i == len(data):
        return -1001
    r, last = ref_pint(data[i:], base)
    if r < 0:
        return r
    for c in data[i + last:]:
        if c not in (32, 9):
            return -1002
    return r


def ref_num(fn, args):
    if fn == "pint":
        r, l = ref_pint(args[1], args[0])
        return "%d %d" % (r, l)
    if fn == "ppiw":
        return str(ref_ppiw(args[1], args[0]))
    if fn == "cl":
        d = args[0]
        if len(d) == 0:
            return "-1003"
        i = 0
        while i < len(d) and not (48 <= d[i] <= 57):
            i += 1
        if i == len(d):
            return "-1001"
        return str(ref_pint(d[i:], 10)[0])
    if fn == "chunked":
        d = list(args[0])
        while d and d[0] in (13, 10, 32, 9, 11, 12):
            d.pop(0)
        if not d:
            return "-1004 0"
        i = 0
        while i < len(d) and (48 <= d[i] <= 57 or 97 <= d[i] <= 102 or 65 <= d[i] <= 70):
            i += 1
        ext = 1 if 59 in d[i:] else 0
        r = ref_ppiw(d[:i], 16)
        if r >= 0 and r > INT32_MAX:
            r = -1
        return "%d %d" % (r, ext)
    raise KeyError(fn)


class RefRing:
    def __init__(self):
        self.l = []

    def op(self, t):
        pv = lambda v: "null" if v in (None, 0) else str(v)
        if t[0] == "new":
            self.l = []
            return "ok"
        if t[0] == "push":
            self.l.append(int(t[1]))
            return "ok"
        if t[0] == "pop":
            return pv(self.l.pop() if self.l else None)
        if t[0] == "shift":
            return pv(self.l.pop(0) if self.l else None)
        if t[0] == "get":
            i = int(t[1])
            return pv(self.l[i] if i < len(self.l) else None)
        if t[0] == "replace":
            i = int(t[1])
            if i < len(self.l):
                self.l[i] = int(t[2])
                return "ok"
            return "declined"
        if t[0] == "clear":
            self.l = []
            return "ok"
        if t[0] == "size":
            return str(len(self.l))
        if t[0] == "dump":
            return "size=%d [%s]" % (len(self.l), " ".join(pv(v) for v in self.l))
        raise KeyError(t)


class RefTable:
    def __init__(self):
        self.l = []
        self.mode = None

    def op(self, t):
        pv = lambda v: "null" if v in (None, 0) else str(v)
        lo = lambda s: bytes(c_tolower(c) for c in s)
        if t[0] == "new":
            self.l, self.mode = [], None
            return "ok"
        if t[0] in ("add", "addn", "addk"):
            if self.mode is None:
                self.mode = t[0]
            if self.mode != t[0]:
                return "error"
            self.l.append((bytes.fromhex(t[1]) if t[1] != "-" else b"", int(t[2])))
            return "ok"
        if t[0] in ("get", "getmem"):
            k = bytes.fromhex(t[1]) if t[1] != "-" else b""
            for kk, v in self.l:
                if lo(kk) == lo(k):
                    return pv(v)
            return "null"
        if t[0] == "getc":
            k = bytes.fromhex(t[1]) if t[1] != "-" else b""
            for kk, v in self.l:
                if lo(bytes(c for c in kk if c)) == lo(k):
                    return pv(v)
            return "null"
        if t[0] == "getindex":
            i = int(t[1])
            if i < len(self.l):
                return "%s %s" % (hx(self.l[i][0]), pv(self.l[i][1]))
            return "~ null"
        if t[0] == "size":
            return str(len(self.l))
        if t[0] == "clear":
            self.l = []
            return "ok"
        if t[0] == "dump":
            return "size=%d [%s]" % (len(self.l), " ".join("%s=%s" % (hx(k), pv(v)) for k, v in self.l))
        raise KeyError(t)


def ref_line(state, line):
    t = line.split(" ")
    if t[0] == "ring":
        return state["ring"].op(t[1:])
    if t[0] == "table":
        return state["table"].op(t[1:])
    dec = lambda s: list(bytes.fromhex(s)) if s != "-" else []
    if t[0] == "bstr":
        fn = t[1]
        if fn == "w":
            return ref_wrapper(t[2], t[3:])
        if fn == "bb":
            # the abstract type of the string builder: the list of pieces appended since the last clear
            op = t[2]
            if op == "new":
                state["bb"] = []
                return "ok"
            bb = state["bb"]
            if op in ("append", "appendn", "append_c"):
                d = dec(t[3])
                if op == "append_c" and 0 in d:
                    d = d[:d.index(0)]
                bb.append(d)
                return "1 %d" % len(bb)
            if op == "size":
                return str(len(bb))
            if op == "clear":
                del bb[:]
                return "0"
            if op == "tostr":
                r = [c for p in bb for c in p]
                return "%s %d" % (hx(r), len(r))
            raise KeyError(op)
        if fn == "add_noex":
            cap, a, b = int(t[2]), dec(t[3]), dec(t[4])
            return hx(a + b[:max(cap - len(a), 0)])
        if fn in ("char_at", "char_at_end", "chr", "rchr"):
            a, p = dec(t[2]), int(t[3])
            if fn == "char_at":
                return str(a[p]) if p < len(a) else "-1"
            if fn == "char_at_end":
                return str(a[len(a) - 1 - p]) if p < len(a) else "-1"
            if fn == "chr":
                return str(a.index(p)) if p in a else "-1"
            return str(len(a) - 1 - a[::-1].index(p)) if p in a else "-1"
        return ref_bstr(fn, [dec(x) for x in t[2:]])
    if t[0] == "num":
        if t[1] in ("pint", "ppiw"):
            return ref_num(t[1], [int(t[2]), dec(t[3])])
        if t[1] == "port":
            return None
        if t[1] == "status":
            # htp_parse_status: the decimal value (LWS around it allowed) when it lies in 100..999, else HTP_STATUS_INVALID (-1)
            r = ref_ppiw(dec(t[2]), 10)
            return str(r if 100 <= r <= 999 else -1)
        return ref_num(t[1], [dec(t[2])])
    if t[0] == "fn" and t[1] == "hostport":
        # htp_parse_port (static) through htp_parse_hostport on "h:<port text>": exact arithmetic, no wrap at any width.
        # "~" = only the end of the result line is judged (the port number and the invalid mark)
        src = bytes(dec(t[2]))
        if src.startswith(b"h:") and b":" not in src[2:]:
            pt = src[2:].strip(b" \t")
            v = int(pt) if (len(pt) > 0 and all(48 <= ch <= 57 for ch in pt)) else -1
            pn = v if 1 <= v <= 65535 else -1
            return "~pn=%d invalid=%d" % (pn, 1 if pn == -1 else 0)
        return None
    return None


# ------------------------------------------------------------------ generators

# indices at which size_t arithmetic wraps (finding S43: replace(SIZE_MAX) was accepted)
HUGE = (2 ** 64 - 1, 2 ** 64 - 2, 2 ** 63, 2 ** 63 - 1, 2 ** 32, 2 ** 32 - 1, 2 ** 31)


def ring_scripts(ctx):
    out = []
    depth = 6 if ctx.tier == "quick" else 7
    caps = (1, 2, 3)
    ops = ["push", "pop", "shift", "getlast", "replmid", "clear"]
    for cap in caps:
        for seq in itertools.product(ops, repeat=depth):
            sc = ["ring new %d" % cap]
            n = 0
            v = 0
            for o in seq:
                if o == "push":
                    v += 1
                    sc.append("ring push %d" % v)
                    n += 1
                elif o == "pop":
                    sc.append("ring pop")
                    n = max(n - 1, 0)
                elif o == "shift":
                    sc.append("ring shift")
                    n = max(n - 1, 0)
                elif o == "getlast":
                    sc.append("ring get %d" % max(n - 1, 0))
                elif o == "replmid":
                    v += 1
                    sc.append("ring replace %d %d" % (n // 2, v))
                else:
                    sc.append("ring clear")
                    n = 0
            sc.append("ring dump")
            out.append(sc)
    # random long sequences (growth from every `first`, wrap-around, stored NULLs)
    rng = ctx.rng
    nrand = 1500 if ctx.tier == "quick" else 12000
    for _ in range(nrand):
        cap = rng.choice((1, 1, 2, 3, 4, 5, 8))
        sc = ["ring new %d" % cap]
        n = 0
        for _ in range(rng.randint(10, 80)):
            r = rng.random()
            if r < 0.42:
                sc.append("ring push %d" % rng.choice((0, rng.randint(1, 999))))
                n += 1
            elif r < 0.55:
                sc.append("ring pop"); n = max(n - 1, 0)
            elif r < 0.72:
                sc.append("ring shift"); n = max(n - 1, 0)
            elif r < 0.82:
                sc.append("ring get %d" % (rng.choice(HUGE) if rng.random() < 0.06 else rng.randint(0, n + 1)))
            elif r < 0.92:
                sc.append("ring replace %d %d" % (rng.choice(HUGE) if rng.random() < 0.06 else rng.randint(0, n + 1), rng.randint(1, 999)))
            elif r < 0.95:
                sc.append("ring clear"); n = 0
            elif r < 0.97:
                sc.append("ring size")
            else:
                sc.append("ring dump")
        sc.append("ring dump")
        out.append(sc)
    return out


KEYS = [b"a", b"A", b"b", b"a\x00", b"\x00a", b"", b"ab", b"AB", b"aB\x00", b"Content-Length", b"content-length"]


def table_scripts(ctx):
    out = []
    rng = ctx.rng
    n = 2500 if ctx.tier == "quick" else 20000
    for _ in range(n):
        sc = ["table new %d" % rng.choice((1, 1, 2, 3))]
        mode = rng.choice(("add", "addn", "addk"))
        v = 0
        for _ in range(rng.randint(3, 24)):
            r = rng.random()
            if r < 0.4:
                v += 1
                m = mode if rng.random() < 0.93 else rng.choice(("add", "addn", "addk"))
                sc.append("table %s %s %d" % (m, hx(rng.choice(KEYS)), v))
            elif r < 0.55:
                sc.append("table get %s" % hx(rng.choice(KEYS)))
            elif r < 0.67:
                k = rng.choice([k for k in KEYS if 0 not in k])
                sc.append("table getc %s" % hx(k))
            elif r < 0.77:
                sc.append("table getmem %s" % hx(rng.choice(KEYS)))
            elif r < 0.87:
                sc.append("table getindex %d" % rng.randint(0, v + 1))
            elif r < 0.92:
                sc.append("table size")
            elif r < 0.95:
                sc.append("table clear")
            else:
                sc.append("table dump")
        sc.append("table dump")
        out.append(sc)
    return out


ALPHA = [0x61, 0x41, 0x62, 0x00, 0x20]
FN2 = ["cmp", "cmp_nocase", "cmp_nocasenorzero", "begins_with", "begins_with_nocase", "index_of", "index_of_nocase",
       "index_of_nocasenorzero"]
FN1 = ["to_lowercase", "trim", "chop"]


def strings_upto(alpha, n):
    out = [[]]
    for k in range(1, n + 1):
        out += [list(t) for t in itertools.product(alpha, repeat=k)]
    return out


def bstr_lines(ctx):
    L = 3 if ctx.tier == "quick" else 4
    ss = strings_upto(ALPHA, L)
    lines = []
    for a in ss:
        ha = hx(a)
        for f in FN1:
            lines.append("bstr %s %s" % (f, ha))
        for p in range(0, len(a) + 1):
            lines.append("bstr char_at %s %d" % (ha, p))
            lines.append("bstr char_at_end %s %d" % (ha, p))
        for c in (0x61, 0x00, 0x7a):
            lines.append("bstr chr %s %d" % (ha, c))
            lines.append("bstr rchr %s %d" % (ha, c))
    for a in ss:
        ha = hx(a)
        for b in ss:
            hb = hx(b)
            for f in FN2:
                lines.append("bstr %s %s %s" % (f, ha, hb))
    # the thin wrappers (bstr/bstr, bstr/C-string, bstr_util_*): exhaustive over shorter strings, then random
    W2 = ["cmp", "cmp_nocase", "cmp_c", "cmp_c_nocase", "cmp_c_nocasenorzero", "util_cmp_mem", "util_cmp_mem_nocase", "begins_with", "begins_with_nocase",
          "begins_with_c", "begins_with_c_nocase", "index_of", "index_of_nocase", "index_of_c", "index_of_c_nocase", "index_of_c_nocasenorzero",
          "util_mem_index_of_c", "util_mem_index_of_c_nocase", "util_mem_index_of_mem", "util_mem_index_of_mem_nocase", "add", "add_c", "add_noex", "add_c_noex"]
    W1 = ["dup", "dup_c", "dup_lower", "memdup_to_c", "strdup_to_c", "wrap_c", "wrap_mem"]
    ws = strings_upto(ALPHA, 2 if ctx.tier == "quick" else 3)
    for a in ws:
        for f in W1:
            lines.append("bstr w %s %s" % (f, hx(a)))
        for o in range(len(a) + 1):
            for l in range(len(a) - o + 1):
                lines.append("bstr w dup_ex %s %d %d" % (hx(a), o, l))
        for b in ws:
            for f in W2:
                lines.append("bstr w %s %s %s" % (f, hx(a), hx(b)))
    rng = ctx.rng
    # string builder: random operation blocks (more than 16 pieces so that the piece list grows)
    for _ in range(150 if ctx.tier == "quick" else 1500):
        lines.append("bstr bb new")
        for _ in range(rng.randint(0, 40)):
            r = rng.random()
            d = [rng.choice((rng.randrange(256), 0x61, 0x00)) for _ in range(rng.randint(0, 5))]
            if r < 0.6:
                lines.append("bstr bb %s %s" % (rng.choice(("append", "appendn", "append_c")), hx(d)))
            elif r < 0.75:
                lines.append("bstr bb size")
            elif r < 0.95:
                lines.append("bstr bb tostr")
            else:
                lines.append("bstr bb clear")
        lines.append("bstr bb tostr")
    for _ in range(6000 if ctx.tier == "quick" else 60000):
        a = [rng.choice((rng.randrange(256), rng.choice(b"aAzZ@[`{ \t\r\n\x00"))) for _ in range(rng.randint(0, 12))]
        if rng.random() < 0.6 and a:
            i = rng.randrange(len(a)); j = rng.randint(i, len(a))
            b = [c ^ (0x20 if rng.random() < 0.3 and (65 <= (c & ~0x20) <= 90) else 0) for c in a[i:j]]
        else:
            b = [rng.randrange(256) for _ in range(rng.randint(0, 4))]
        lines.append("bstr w %s %s %s" % (rng.choice(W2), hx(a), hx(b)))
        if rng.random() < 0.3:
            lines.append("bstr w %s %s" % (rng.choice(W1), hx(a)))
    nr = 20000 if ctx.tier == "quick" else 200000
    for _ in range(nr):
        a = [rng.choice((rng.randrange(256), rng.choice(b"aAzZ@[`{ \t\r\n\x00"))) for _ in range(rng.randint(0, 12))]
        if rng.random() < 0.5 and a:
            i = rng.randrange(len(a)); j = rng.randint(i, len(a))
            b = [c ^ (0x20 if rng.random() < 0.3 and (65 <= (c & ~0x20) <= 90) else 0) for c in a[i:j]]
        else:
            b = [rng.randrange(256) for _ in range(rng.randint(0, 4))]
        f = rng.choice(FN2 + ["add"])
        lines.append("bstr %s %s %s" % (f, hx(a), hx(b)))
        if rng.random() < 0.2:
            lines.append("bstr %s %s" % (rng.choice(FN1), hx(a)))
        if rng.random() < 0.2:
            lines.append("bstr add_noex %d %s %s" % (len(a) + rng.randint(0, 6), hx(a), hx(b)))
    return lines


def num_lines(ctx):
    lines = []
    rng = ctx.rng
    cands = set()
    for base_v in (2 ** 31, 2 ** 63, 2 ** 32, 2 ** 64, 65536, 1000, 0, 9, 10, 16, 255):
        for d in range(-3, 4):
            v = base_v + d
            if v < 0:
                continue
            for fmt in ("%d", "%x", "%X", "0%d", "000%x", "%d0", "%x0", "%df", "%xg"):
                cands.add(fmt % v)
    cands |= {"", " ", "\t", "12 ", " 12", " 12 x", "12;ext", "1a;x=1", "\r\n1a", "\x0b1f", "+1", "-1", "0x10", "1 2",
              "ffffffff", "7fffffff", "80000000", "7FFFFFFFFFFFFFFF", "8000000000000000", "zz", "9223372036854775807",
              "9223372036854775808", "92233720368547758070", "18446744073709551616", "00000000000000000000000001",
              "1\x00", "\x001", "a", "g", "1:2", ";", "1 ;", "65535", "65536", "65537", "0", "00", "1"}
    for s in sorted(cands):
        b = list(s.encode("latin1"))
        h = hx(b)
        for base in (10, 16):
            lines.append("num pint %d %s" % (base, h))
            lines.append("num ppiw %d %s" % (base, h))
        lines.append("num pint 36 %s" % h)
        lines.append("num pint 8 %s" % h)
        lines.append("num cl %s" % h)
        lines.append("num chunked %s" % h)
        lines.append("num port %s" % h)
        lines.append("num status %s" % h)
        if s and all(ch in "0123456789" for ch in s):
            lines.append("fn hostport " + hx(list(("h:" + s).encode("latin1"))))
            lines.append("fn hostport " + hx(list(("h: " + s + "\t").encode("latin1"))))
        for pre in (" ", "\t ", "x", "\r\n"):
            for suf in (" ", "x", ";a", " ;"):
                hb = hx(list((pre + s + suf).encode("latin1")))
                lines.append("num cl %s" % hb)
                lines.append("num chunked %s" % hb)
                lines.append("num ppiw 10 %s" % hb)
    for w in (8, 16, 31, 32, 33, 48, 62, 63, 64):
        for k in (1, 2, 3):
            for low in (0, 1, 80, 443, 8080, 65535, 65536):
                v = k * 2 ** w + low
                hs = hx(list(("%d" % v).encode("latin1")))
                lines.append("fn hostport " + hx(list(("h:%d" % v).encode("latin1"))))
                lines.append("num port %s" % hs)
                lines.append("num cl %s" % hs)
                lines.append("num ppiw 10 %s" % hs)
                lines.append("num chunked " + hx(list(("%x" % v).encode("latin1"))))
    for v in (0, 1, 99, 100, 101, 199, 200, 404, 599, 998, 999, 1000, 1001, 9999, 2 ** 31 + 200, 2 ** 32 + 200, 2 ** 63, 2 ** 64 + 200):
        for fmt in ("%d", " %d", "%d ", "0%d", "%d.", "%dx"):
            lines.append("num status " + hx(list((fmt % v).encode("latin1"))))
    nr = 20000 if ctx.tier == "quick" else 300000
    al = b"0123456789abcdefABCDEFgz \t;\r\n\x00xX-+"
    for _ in range(nr):
        b = [rng.choice(al) for _ in range(rng.randint(0, 22))]
        h = hx(b)
        f = rng.choice(("pint 10", "pint 16", "ppiw 10", "ppiw 16", "cl", "chunked", "port", "pint 2"))
        lines.append("num %s %s" % (f, h))
    return lines


def cfun_lines(ctx):
    """the translated C leaf functions (HtpModel/Gen/CFuns.lean) against the real ones: checks the translator and its semantics"""
    rng = ctx.rng
    lines = []
    for c in list(range(-2, 130)) + [255, 256, 1000]:
        for f in ("htp_is_lws", "htp_is_text", "htp_is_folding_char", "htp_is_space", "htp_is_separator", "htp_is_token"):
            lines.append("cfun %s %d" % (f, c))
    alpha = [0x61, 0x41, 0x20, 0x09, 0x0d, 0x0a, 0x00, 0x7a]
    n = 4 if ctx.tier == "quick" else 5
    for s1 in strings_upto(alpha, n):
        h = hx(list(s1))
        for f in ("htp_is_line_empty", "htp_is_line_whitespace", "htp_chomp"):
            lines.append("cfun %s %s" % (f, h))
    for s1 in strings_upto([0x48, 0x74, 0x54, 0x50, 0x70, 0x20, 0x00, 0x0a], n + 1):
        lines.append("cfun htp_treat_response_line_as_body %s" % hx(list(s1)))
    for s1 in strings_upto([0x2f, 0x2e, 0x61], 7 if ctx.tier == "quick" else 9):
        lines.append("cfun htp_normalize_uri_path_inplace %s" % hx(list(s1)))
    for s1 in strings_upto([0x61, 0x41, 0x62, 0x00, 0x5a], 4):
        h = hx(list(s1))
        lines.append("cfun bstr_chop %s" % h)
        lines.append("cfun bstr_to_lowercase %s" % h)
        lines.append("cfun htp_connp_is_line_folded %s" % hx([0x20] + list(s1)))
        lines.append("cfun htp_connp_is_line_folded %s" % h)
        for k in (0, 1, 2, 3, 4, 5, 97, 65, 255):
            for f in ("bstr_char_at", "bstr_char_at_end", "bstr_chr", "bstr_rchr"):
                lines.append("cfun %s %s %d" % (f, h, k))
        for s2 in strings_upto([0x61, 0x41, 0x62], 2):
            lines.append("cfun bstr_begins_with_mem %s %s" % (h, hx(list(s2))))
            lines.append("cfun bstr_begins_with_mem_nocase %s %s" % (h, hx(list(s2))))
    for st in range(0, 9):
        for b in range(256):
            lines.append("cfun htp_utf8_decode_allow_overlong %d %d %d" % (st, rng.choice((0, 1, 0x3f, 0x7ff, 0xffff, 0x10ffff, 0x3ffffff, 0xffffffff)), b))
    # the translated list functions driven through whole scripts (exhaustive short ones + long random ones)
    import itertools as _it
    for cap in (1, 2, 3):
        for k in range(1, 6 if ctx.tier == "quick" else 7):
            for ops in _it.product(("p7", "o", "s", "g0", "g1", "r1:9", "z"), repeat=k):
                lines.append("cfun list %d %s" % (cap, ",".join(ops)))
    for _ in range(1500 if ctx.tier == "quick" else 20000):
        ops = []
        for _j in range(rng.randint(5, 60)):
            o = rng.choice("ppppoosgrzc")
            ops.append({"p": "p%d" % rng.randint(1, 99), "g": "g%d" % rng.randint(0, 9), "r": "r%d:%d" % (rng.randint(0, 9), rng.randint(1, 99))}.get(o, o))
        lines.append("cfun list %d %s" % (rng.randint(1, 5), ",".join(ops)))
    al2 = [0x61, 0x41, 0x62, 0x00]
    for s1 in strings_upto(al2, 3):
        for s2 in strings_upto(al2, 3):
            for f in ("bstr_util_cmp_mem", "bstr_util_cmp_mem_nocase", "bstr_util_mem_index_of_mem", "bstr_util_cmp_mem_nocasenorzero",
                      "bstr_util_mem_index_of_mem_nocase", "bstr_util_mem_index_of_mem_nocasenorzero"):
                lines.append("cfun %s %s %s" % (f, hx(list(s1)), hx(list(s2))))
    for l in num_lines(ctx):
        t = l.split(" ")
        if t[1] == "pint":
            lines.append("cfun bstr_util_mem_to_pint %s %s" % (t[2], t[3]))
        elif t[1] == "ppiw":
            lines.append("cfun htp_parse_positive_integer_whitespace %s %s" % (t[2], t[3]))
        elif t[1] == "chunked":
            lines.append("cfun htp_parse_chunked_length %s" % t[2])
    for _ in range(4000 if ctx.tier == "quick" else 60000):
        a = [rng.choice(b"aAbB \t\r\n\x00z09") for _ in range(rng.randint(0, 12))]
        b = [rng.choice(b"aAbB \t\r\n\x00z09") for _ in range(rng.randint(0, 4))]
        f = rng.choice(("bstr_util_cmp_mem", "bstr_util_cmp_mem_nocase", "bstr_util_mem_index_of_mem", "bstr_util_cmp_mem_nocasenorzero",
                        "bstr_util_mem_index_of_mem_nocase", "bstr_util_mem_index_of_mem_nocasenorzero"))
        lines.append("cfun %s %s %s" % (f, hx(a), hx(b)))
        lines.append("cfun %s %s" % (rng.choice(("htp_is_line_empty", "htp_is_line_whitespace", "htp_chomp")), hx(a)))
    return lines


def _same(want, got):
    """a reference line starting with "~" judges the end of the result line only"""
    return got.endswith(want[1:]) if want.startswith("~") else want == got


def run(ctx, model_ok=True, proofs_broken=False):
    scripts = ring_scripts(ctx) + table_scripts(ctx)
    # stateless lines are grouped in scripts of one line (independent); pack 1 per script for shrinking purposes
    flat = bstr_lines(ctx) + num_lines(ctx) + cfun_lines(ctx)
    # builder operations are stateful: one script per block starting at "bstr bb new"
    blocks, cur = [], None
    rest = []
    for l in flat:
        if l == "bstr bb new":
            cur = [l]; blocks.append(cur)
        elif l.startswith("bstr bb "):
            cur.append(l)
        else:
            rest.append(l)
    scripts += blocks
    scripts += [[l] for l in rest]
    corpus = lib.load_corpus("C17")
    scripts = corpus + scripts
    nlines, disagreements, c_outs, san = lib.corr_scripts(ctx, scripts, "prims") if model_ok else (0, [], None, [])
    if not model_ok:
        # model unavailable: still run the implementation for the oracle
        lines = [l for sc in scripts for l in sc]
        co, ce, rc = lib.run_c(ctx.corr, lines)
        c_outs = []
        pos = 0
        for sc in scripts:
            c_outs.append((sc, co[pos:pos + len(sc)]))
            pos += len(sc)
        nlines = len(lines)
        san = lib.san_reports(ce)
    # oracle: abstract types vs implementation
    oracle_fail = []
    distinct = set()
    families = {}
    for sc, outs in c_outs:
        st = {"ring": RefRing(), "table": RefTable()}
        for line, got in zip(sc, outs):
            fam = " ".join(line.split(" ")[:2])
            families[fam] = families.get(fam, 0) + 1
            want = ref_line(st, line)
            distinct.add(got if len(sc) == 1 else (line.split(" ")[1], got))
            if want is not None and not _same(want, got):
                oracle_fail.append({"script": sc, "line": line, "impl": got, "abstract_type": want})
                break
        if len(oracle_fail) >= 3:
            break
    for f in oracle_fail:
        ctx.violation("oracle-abstract-type", f, found_input=True)
    for d in disagreements:
        if d.get("crash"):
            ctx.violation("crash", d, found_input=bool(d.get("script")))
            continue
        # a disagreement model/impl: is it a property failure? evaluate the oracle on the shrunk script
        st = {"ring": RefRing(), "table": RefTable()}
        bad = None
        for line, got in zip(d.get("script", []), d.get("impl", [])):
            want = ref_line(st, line)
            if want is not None and not _same(want, got):
                bad = {"line": line, "impl": got, "abstract_type": want}
                break
        if bad:
            d["oracle"] = bad
            ctx.violation("correspondence+oracle", d, found_input=True)
        elif not oracle_fail:
            ctx.violation("correspondence", dict(d, note="model and implementation disagree; the abstract-type oracle "
                                                          "accepts the implementation on this input"), found_input=False)
    for kind, fn in set(san):
        ctx.violation("sanitizer", {"report": kind, "file": fn}, found_input=False)
    ctx.cov.update({"evaluations": nlines, "distinct_nontrivial": len(distinct),
                    "rule": "exhaustive op sequences (6 ops, depth %d, capacities 1..3) + random long sequences for ring/table; "
                            "strings over {a,A,b,NUL,SP} up to length %d exhaustively for every two-argument function + random bytes; "
                            "digit strings around 2^31/2^32/2^63/2^64/65536 with junk; distinct = distinct result lines"
                            % (6 if ctx.tier == "quick" else 7, 3 if ctx.tier == "quick" else 4),
                    "programs": len(scripts), "disagreements_checked": len(disagreements),
                    "op_family_counts": families,
                    "samples": [scripts[len(corpus)], scripts[len(corpus) + 7000 % len(scripts)], scripts[-1]],
                    "exhaustive": False})


def replay(ctx, path):
    import json
    ctx.build = lib.build_repo("san")
    ctx.corr = ctx.build["corr"]
    p = json.load(open(path))
    sc = p.get("script") or [p.get("line")]
    co, ce, rc = lib.run_c(ctx.corr, sc)
    st = {"ring": RefRing(), "table": RefTable()}
    fail = False
    for line, got in zip(sc, co):
        want = ref_line(st, line)
        print("%s -> impl=%s abstract=%s" % (line, got, want))
        if want is not None and not _same(want, got):
            fail = True
    if fail:
        print("VIOLATION property=C17 replay=%s" % path)
        return 1
    return 0
