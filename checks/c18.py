"""C18 — allocation failure anywhere is survived without memory unsafety.

Two ties between the Lean side and the code:
  * ownership traces: `O <fn> <k>` runs one library function group (list create/push/destroy, table, bstr growth, connection
    create/open/destroy, string builder) with the k-th allocation failing under a tracing allocator and prints the canonical
    trace "A0 A1 X F1 F0" (ids number this call's allocations); the Lean ownership model (HtpModel.Own) prints the same trace
    for the same k. Correspondence = equality for every k up to past the last allocation. The theorems (Props/C18.lean) say that
    every such trace frees only what is live, frees nothing twice and leaves nothing live.
  * the sweep (search on the implementation, not a proof): for every scenario of a corpus that reaches every subsystem (the
    repository's own captures, multipart/urlencoded/cookie/auth/chunked/pipelined/CONNECT traffic, callbacks registering
    per-transaction hooks) fail the k-th allocation for every k up to the number the fault-free run performs, under
    ASan+UBSan+LSan: no sanitizer report, no leak after destroy, documented return codes, ERROR stays ERROR.
"""
import json
import os
import re
import subprocess
import sys

sys.path.insert(0, os.path.join(os.path.dirname(os.path.dirname(os.path.abspath(__file__))), "gen"))
import lib
import mpgen
import traffic

PROPS_MODULE = "C18"
TRUSTED = ["allocator shims in harness/af/afail.c (macro-renamed malloc/calloc/realloc/strdup/free of the library objects)",
           "ASan/UBSan/LSan verdicts for the sweep (search only)"]
ASSUMPTIONS = ["exactly one allocation fails per run (the property's quantifier)", "zlib's internal allocations are not failed "
               "(they go through zlib's own allocator, not libhtp's)"]

OWN_FNS = {"list": 4, "table": 10, "bstr": 3, "conn": 9, "builder": 8}


def run_afail(afail, lines, timeout=3600):
    env = dict(os.environ, ASAN_OPTIONS="detect_leaks=1:abort_on_error=0:exitcode=66", UBSAN_OPTIONS="print_stacktrace=1")
    r = subprocess.run([afail], input="\n".join(lines) + "\n", capture_output=True, text=True, env=env, timeout=timeout)
    return r.stdout.splitlines(), r.stderr, r.returncode


def scenarios(ctx):
    r = ctx.rng
    quick = ctx.tier == "quick"
    out = []
    files = traffic.t_files()
    if quick:
        # quick: a rotating handful of the captures, but EVERY k for each (a stride would skip exactly the allocation that matters)
        files = [f for i, f in enumerate(files) if i % 4 == r.randrange(4) or os.path.basename(f).startswith(("01", "15"))][:30]
    for f in files:
        items = traffic.play_items(traffic.parse_t_file(f))
        if not items or sum(len(x) for x in items) > 40000:
            continue
        cfg = r.choice(("urlenc=1,mpart=1,cookies=1,auth=1", "respdecomp=1,urlenc=1", "p=IDS,urlenc=1,mpart=1", "autodestroy=1,urlenc=1,cookies=1"))
        out.append((cfg, r.choice(("-", "reg")), items, os.path.basename(f)))
    # generated traffic: multipart upload, urlencoded body, cookies + auth, chunked both ways, pipelining, refused CONNECT
    ct, body, _ = mpgen.gen_wellformed(r, max_parts=3)
    mp = b"POST /up?x=1&y=2 HTTP/1.1\r\nHost: h\r\nContent-Type: " + ct + b"\r\nContent-Length: %d\r\n\r\n" % len(body) + body
    ok = b"HTTP/1.1 200 OK\r\nContent-Length: 2\r\nSet-Cookie: a=b\r\n\r\nhi"
    out.append(("urlenc=1,mpart=1", "reg", [">" + traffic.hx(mp), "<" + traffic.hx(ok)], "gen-multipart"))
    ue = b"POST /f HTTP/1.1\r\nHost: h\r\nCookie: a=1; b=2\r\nAuthorization: Basic dXNlcjpwYXNz\r\nContent-Type: application/x-www-form-urlencoded\r\n" \
         b"Transfer-Encoding: chunked\r\n\r\n5\r\na=1&b\r\n4\r\n=2&c\r\n0\r\n\r\n"
    chunked = b"HTTP/1.1 200 OK\r\nTransfer-Encoding: chunked\r\n\r\n3\r\nabc\r\n0\r\nX-T: 1\r\n\r\n"
    out.append(("urlenc=1,cookies=1,auth=1", "-", [">" + traffic.hx(ue[:60]), ">" + traffic.hx(ue[60:]), "<" + traffic.hx(chunked)], "gen-urlenc"))
    # empty values, empty names, name-only and repeated parameters, in the query string and in the body
    q = b"POST /e?k1=&=v&n&k1=2&last= HTTP/1.1\r\nHost: h\r\nContent-Type: application/x-www-form-urlencoded\r\nContent-Length: 17\r\n\r\nx=&=y&z&x=1&tail="
    out.append(("urlenc=1", "-", [">" + traffic.hx(q), "<" + traffic.hx(ok)], "gen-urlenc-empty"))
    pipe = b"".join(b"GET /%d HTTP/1.1\r\nHost: h\r\n\r\n" % i for i in range(3))
    out.append(("autodestroy=1", "-", [">" + traffic.hx(pipe)] + ["<" + traffic.hx(ok)] * 3, "gen-pipeline"))
    con = b"CONNECT h:443 HTTP/1.1\r\nHost: h:443\r\n\r\nGET /after HTTP/1.1\r\nHost: h\r\n\r\n"
    out.append(("-", "-", [">" + traffic.hx(con), "<" + traffic.hx(b"HTTP/1.1 403 No\r\nContent-Length: 0\r\n\r\n" + ok)], "gen-connect"))
    import zlib
    gz = zlib.compress(b"hello hello hello hello " * 20)
    gzr = b"HTTP/1.1 200 OK\r\nContent-Encoding: deflate\r\nContent-Length: %d\r\n\r\n" % len(gz) + gz
    out.append(("respdecomp=1", "-", [">" + traffic.hx(b"GET /z HTTP/1.1\r\nHost: h\r\n\r\n"), "<" + traffic.hx(gzr[:80]), "<" + traffic.hx(gzr[80:])], "gen-deflate"))
    # scenarios chosen offline (tools/c18_sites.py) from the distilled coverage corpus so that every allocation call chain the corpus
    # reaches is swept, in both tiers (every k each)
    sp = os.path.join(lib.CORPUS, "C18", "site_scenarios.json")
    if os.path.exists(sp):
        sel = json.load(open(sp))
        for cfg, pol, items, name in sel:
            out.append((cfg, pol, items.split(","), name))
    # a stream error followed by many more calls: every call after the error logs a message, so the connection's message list grows
    # (and reallocates) while last_error keeps being updated; the harness reads htp_connp_get_last_error() after every call
    bad = b"POST /e HTTP/1.1\r\nHost: h\r\nTransfer-Encoding: chunked\r\n\r\nzz\r\n"
    out.append(("-", "-", [">" + traffic.hx(bad)] + [">" + traffic.hx(b"x")] * 40 + ["<" + traffic.hx(b"HTTP/1.1 200 OK\r\n\r\n")], "gen-error-then-calls"))
    out.append(("-", "-", [">" + traffic.hx(b"GET / HTTP/1.1\r\nHost: h\r\n\r\n"), "<" + traffic.hx(b"HTTP/1.1 200 OK\r\nTransfer-Encoding: chunked\r\n\r\n-1\r\n")] +
                ["<" + traffic.hx(b"y")] * 40, "gen-res-error-then-calls"))
    folded = b"GET / HTTP/1.1\r\nHost: h\r\nX-A: a\r\n b\r\nX-A: c\r\n\r\n"
    out.append(("-", "reg", [">" + traffic.hx(folded[:20]), ">" + traffic.hx(folded[20:]), "<" + traffic.hx(b"HTTP/1.0 200 OK\r\n\r\nbody"), "c"], "gen-folded"))
    return out


def run(ctx, model_ok=True, proofs_broken=False):
    quick = ctx.tier == "quick"
    b = lib.build_af()
    afail = b["afail"]
    known = {f["signature"]: f for f in lib.known_findings()["findings"] if f["property"] == "C18"}
    # ---- 1. ownership traces: implementation vs Lean model, every k
    own_lines = []
    for fn, n in OWN_FNS.items():
        for k in range(0, n + 3):
            own_lines.append("O %s %d" % (fn, k))
    co, ce, rc = run_afail(afail, own_lines)
    lo = lib.run_lean(["own %s" % l[2:] for l in own_lines]) if model_ok else None
    ndis = 0
    if len(co) != len(own_lines):
        ctx.violation("crash", {"what": "ownership-trace run of the harness failed (rc=%s)" % rc, "stderr": ce[-1500:], "script": own_lines},
                      found_input=True, sig="own-crash")
    else:
        for l, c in zip(own_lines, co):
            m = re.search(r"live=(\d+) trace=(.*)$", c)
            if not m:
                ctx.violation("own-unparsed", {"line": l, "impl": c}, found_input=False)
                continue
            # the property itself, on the implementation's trace
            bad = trace_defect(m.group(2).split())
            if bad:
                sig = "own:%s" % l
                if sig in known:
                    ctx.known_hits.append("%s (%s)" % (sig, known[sig]["what_fails"][:160]))
                else:
                    ctx.violation("oracle-ownership", {"script": [l], "impl": c, "what": bad},
                                  found_input=True, sig=sig)
        if lo is not None:
            for l, c, m_ in zip(own_lines, co, lo):
                if c != m_:
                    ndis += 1
                    if ndis <= 3:
                        ctx.violation("correspondence", {"slice": "own", "script": [l], "impl": c, "model": m_,
                                                         "note": "the ownership model and the implementation produce different allocation traces"},
                                      found_input=False)
    # ---- 2. the sweep. A sanitizer abort ends the harness process; the sweep is resumed behind the failing (scenario, k) so that
    # one defect does not hide the scenarios after it.
    scs = scenarios(ctx)
    lim = (0, 0)
    total_runs = total_allocs = fired = leaks_observed = 0
    per = []
    crashes = {}
    lines = []

    def sweep_part(part):
        """one harness process over `part` (resumed behind every crash); returns counters and findings for the main thread"""
        r = {"allocs": 0, "runs": 0, "fired": 0, "leaks": 0, "per": [], "viol": [], "known": [], "crashes": [], "lines": []}
        pos, startk, guard = 0, 1, 0
        while pos < len(part) and guard < 200:
            guard += 1
            ls = ["E %d %d %d" % (lim[0], lim[1], startk)] + ["S %s %s %s" % (c_, p_, ",".join(i_)) for c_, p_, i_, n_ in part[pos:]]
            r["lines"] = ls
            so, se, src = run_afail(afail, ls, timeout=14400)
            done = max(len(so) - 1, 0)
            for (cfg, pol, items, name), o in zip(part[pos:pos + done], so[1:]):
                m = re.match(r"n=(\d+) runs=(\d+) fired=(\d+) bad=\[(.*)\]$", o)
                if not m:
                    r["viol"].append(("sweep-unparsed", {"scenario": name, "impl": o}, False, None))
                    continue
                r["allocs"] += int(m.group(1)); r["runs"] += int(m.group(2)); r["fired"] += int(m.group(3))
                r["per"].append((name, int(m.group(1)), int(m.group(2))))
                entries = m.group(4).split()
                # memory that is merely not released after a failed allocation is outside C18 as stated (no crash, no corruption,
                # no double free, no use after free): counted as an observation, not reported
                r["leaks"] += sum(1 for e_ in entries if e_.endswith(":leak"))
                entries = [e_ for e_ in entries if not e_.endswith(":leak")]
                if entries:
                    sig = "sweep:%s:%s" % (name, entries[0].split(":")[1])
                    item = {"what": "scenario %s: %s" % (name, " ".join(entries)[:300]),
                            "script": ["E 0 0", "S %s %s %s" % (cfg, pol, ",".join(items))]}
                    if sig in known:
                        r["known"].append("%s (%s)" % (sig, known[sig]["what_fails"][:160]))
                    else:
                        r["viol"].append(("sweep", item, True, sig))
            if len(so) == len(ls):
                break
            # died inside scenario pos+done at the k of the last RUN marker
            runs = re.findall(r"^RUN (\d+) (\d+)$", se, re.M)
            k = int(runs[-1][1]) if runs else 0
            sc = part[pos + done]
            sig = "sweep-crash:" + crash_signature(se)
            r["runs"] += k
            r["crashes"].append((sig, {"what": "sanitizer abort / crash with allocation #%d failed in scenario %s" % (k, sc[3]), "k": k,
                                       "script": ["E 0 0 %d" % k, "S %s %s %s" % (sc[0], sc[1], ",".join(sc[2]))], "stderr": asan_excerpt(se)}))
            pos, startk = pos + done, k + 1
        return r

    # the scenarios are independent: spread them over the cores (longest first, round-robin)
    import concurrent.futures
    nw = max(1, min(lib.NCPU if hasattr(lib, "NCPU") else (os.cpu_count() or 4), len(scs)))
    order = sorted(range(len(scs)), key=lambda i: -sum(len(x) for x in scs[i][2]))
    parts = [[scs[i] for i in order[w::nw]] for w in range(nw)]
    with concurrent.futures.ThreadPoolExecutor(max_workers=nw) as ex:
        results = list(ex.map(sweep_part, [p_ for p_ in parts if p_]))
    for r in results:
        total_allocs += r["allocs"]; total_runs += r["runs"]; fired += r["fired"]; leaks_observed += r["leaks"]
        per += r["per"]
        ctx.known_hits += r["known"]
        for kind, item, fi, sig in r["viol"]:
            if sig is None:
                ctx.violation(kind, item, found_input=fi)
            else:
                ctx.violation(kind, item, found_input=fi, sig=sig)
        for sig, item in r["crashes"]:
            crashes.setdefault(sig, []).append(item)
        lines = r["lines"] or lines
    for sig, items in crashes.items():
        if sig in known:
            ctx.known_hits.append("%s (%s) x%d" % (sig, known[sig]["what_fails"][:160], len(items)))
        else:
            ctx.violation("sweep-crash", dict(items[0], count=len(items)), found_input=True, sig=sig)
    ctx.cov.update({"evaluations": total_runs + len(own_lines), "distinct_nontrivial": len(set(co)), "programs": len(scs),
                    "rule": "ownership traces: 5 function groups x every k from 0 to past the last allocation, implementation vs Lean model; "
                            "sweep: every scenario x every k up to the allocation count of its fault-free run (quick: fewer scenarios, still every k), "
                            "ASan+UBSan+LSan, leak check after every run",
                    "ownership_lines": len(own_lines), "ownership_disagreements": ndis, "sweep_scenarios": len(scs),
                    "sweep_runs": total_runs, "allocations_in_fault_free_runs": total_allocs, "faults_fired": fired, "leaks_after_failed_allocation_observed": leaks_observed,
                    "per_scenario": per[:40], "sweep_crash_signatures": {k_: len(v_) for k_, v_ in crashes.items()}, "disagreements_checked": ndis,
                    "samples": [own_lines[:3], lines[1][:200], lines[-1][:200]], "exhaustive": not quick})


def asan_excerpt(se):
    cands = [m.start() for m in re.finditer(r"ERROR: AddressSanitizer(?!: \d+ byte)", se)] + \
            [m.start() for m in re.finditer(r"runtime error: (?!applying zero offset)", se)]
    i = min(cands) if cands else max(len(se) - 2500, 0)
    return se[i:i + 3500]


GENERIC_FRAMES = {"free", "verif_free", "bstr_free", "__interceptor_free", "htp_table_clear", "htp_table_destroy", "htp_list_array_destroy"}


def crash_signature(se):
    """kind of the fatal report @ the library function that made the bad access <- the one that released the block earlier: specific
    enough that a different defect gets a different signature"""
    ex = asan_excerpt(se)
    m = re.search(r"ERROR: AddressSanitizer: ([a-zA-Z-]+(?: [a-zA-Z-]+)?)", ex) or re.search(r"runtime error: ([^\n]{0,60})", ex)
    kind = (m.group(1).strip() if m else "abort").replace(" ", "-")
    parts = re.split(r"\n(?=freed by thread|previously allocated by thread)", ex)

    def who(block):
        for fn in re.findall(r"#\d+ \S+ in (\w+) ", block):
            if fn not in GENERIC_FRAMES:
                return fn
        return "?"
    a = who(parts[0])
    b = who(parts[1]) if len(parts) > 1 and parts[1].startswith("freed by") else None
    return "%s@%s%s" % (kind, a, "<-" + b if b else "")


def trace_defect(tr):
    """None if the trace frees only live ids, nothing twice; else a description"""
    live = set()
    for e in tr:
        if e == "X" or e == "":
            continue
        if e[0] == "A":
            live.add(int(e[1:]))
        elif e[0] == "R":
            old, new = e[1:].split(">")
            if int(old) >= 0:
                if int(old) not in live:
                    return "realloc of a block that is not live: " + e
                live.discard(int(old))
            live.add(int(new))
        elif e[0] == "F":
            if e[1:] == "?":
                continue
            if int(e[1:]) not in live:
                return "free of a block that is not live (double free): " + e
            live.discard(int(e[1:]))
    return None


def replay(ctx, path):
    b = lib.build_af()
    p = json.load(open(path))
    sc = p.get("script") or []
    if not sc:
        print("replay file names no script:", json.dumps(p)[:600])
        print("VIOLATION property=C18 replay=%s no-failing-input-found" % path)
        return 1
    so, se, rc = run_afail(b["afail"], sc)
    for l, o in zip(sc, so):
        print(l[:200], "->", o[:400])
    print(se[-3000:])
    bad = rc != 0 or any("bad=[" in o and not o.endswith("bad=[]") for o in so) or \
        any(trace_defect(o.split("trace=")[1].split()) for o in so if "trace=" in o)
    if bad:
        print("VIOLATION property=C18 replay=%s" % path)
        return 1
    return 0
