"""C19 — parsers sharing one configuration are independent (call-level interleaving; write footprint)."""
import base64
import json
import os
import re
import subprocess

import conncheck
import connlib as cl
import connprops as P
import lib

PROPS_MODULE = "C19"
TRUSTED = ["nm-based writable-symbol list and regex-based cfg-store list (extract/extract.py)", "solo-vs-interleaved comparison (search only)",
           "ThreadSanitizer build of the library + harness/thr/thr.c: real threads on one shared configuration (search only)"]
ASSUMPTIONS = ["real thread schedules and the hardware memory model are not exhibited by the model (partial): the threaded runs under the "
               "race detector sample schedules, they do not enumerate them", "allocation succeeds"]

THR_CFGS = ("p=IDS,respdecomp=0,urlenc=1", "p=IIS_6_0,respdecomp=0,urlenc=1,mpart=1", "p=APACHE_2,respdecomp=1,cookies=1", "respdecomp=1,reqdecomp=1,urlenc=1",
            "p=IIS_5_1,respdecomp=0,urlenc=1,u8best=1", "respdecomp=1,lzmalayers=0")


def thr_groups(ctx):
    """groups of 2..8 streams for the threaded search: credentials (base64), wide / %u path bytes (best-fit map, UTF-8 decoder), cookies,
    urlencoded and multipart bodies, compressed responses, plus generated and mutated exchanges"""
    import gzip
    import c12
    import traffic
    rng = ctx.rng
    toks = c12.escape_tokens()
    wide = [t for t in toks if len(t) >= 2 and t[0] >= 0xc2] + [b"%u4e2d", b"%u0100", b"%uff21", b"\xe4\xb8\xad", b"\xd1\x81", b"\xc4\x80"]
    groups = []
    for gi in range(6 if ctx.tier == "quick" else 48):
        K = rng.randint(2, 8)
        cfg = THR_CFGS[gi % len(THR_CFGS)]
        if "lzmalayers=0" in cfg:
            K = max(K, 3)
        streams = []
        for k in range(K):
            kind = rng.random()
            if "lzmalayers=0" in cfg and k < 3:
                kind = 0.0          # at least three parsers of that group meet the switched-off coding
            if kind < 0.6:
                path = b"/" + b"".join(rng.choice(wide) * rng.randint(1, 2) if rng.random() < 0.6 else rng.choice(toks) for _ in range(rng.randint(1, 5)))
                path = path.replace(b" ", b"%20").replace(b"\r", b"%0d").replace(b"\n", b"%0a").replace(b"\x00", b"%00").replace(b"\t", b"%09")
                cred = base64.b64encode(bytes(rng.choice(b"abcXYZ:019") for _ in range(rng.randint(3, 40))))
                auth = (b"Authorization: Basic " + cred) if rng.random() < 0.7 else (b'Authorization: Digest username="u%d", realm="r"' % k)
                body = b"x=%%u0041&y%d=%%4%d&z=" % (k, k % 10) + rng.choice(toks).replace(b" ", b"+").replace(b"\r", b"").replace(b"\n", b"")
                R = (b"POST " + path + b"?q=" + rng.choice(toks).replace(b" ", b"+").replace(b"\r", b"").replace(b"\n", b"") +
                     b" HTTP/1.1\r\nHost: h%d.example:80%d\r\n" % (k, k) + auth + b"\r\nCookie: a=%d; b=c\r\nContent-Type: application/x-www-form-urlencoded\r\n"
                     b"Content-Length: %d\r\n\r\n" % (k, len(body)) + body)
                pl = b"payload %d " % k * rng.randint(1, 60)
                if "lzmalayers=0" in cfg and (k < 3 or rng.random() < 0.7):
                    # a coding the configuration has switched off: every parser reports that (a log message) on its own
                    S = b"HTTP/1.1 200 OK\r\nContent-Encoding: lzma\r\nContent-Length: %d\r\n\r\n" % len(pl) + pl
                elif rng.random() < 0.5:
                    z = gzip.compress(pl)
                    S = b"HTTP/1.1 200 OK\r\nContent-Encoding: gzip\r\nContent-Length: %d\r\n\r\n" % len(z) + z
                else:
                    S = b"HTTP/1.1 200 OK\r\nTransfer-Encoding: chunked\r\n\r\n%x\r\n" % len(pl) + pl + b"\r\n0\r\n\r\n"
            else:
                reqs, ress, rq, rs = traffic.gen_exchange(rng, opts=P.OPTS)
                R, S = b"".join(rq), b"".join(rs)
                if rng.random() < 0.4:
                    R = traffic.mutate(R, rng)
                if rng.random() < 0.4:
                    S = traffic.mutate(S, rng)
            streams.append((R, S))
        groups.append((cfg, streams))
    return groups


def run_thr(thr, cfg, streams, iters, seed, workdir):
    f = os.path.join(workdir, "thr_streams_%d.txt" % os.getpid())
    with open(f, "w") as fh:
        fh.write("".join("%s %s\n" % (r.hex() or "-", s.hex() or "-") for r, s in streams))
    try:
        p = subprocess.run([thr, cfg, f, str(iters), str(seed)], capture_output=True, text=True, timeout=600,
                           env=dict(os.environ, TSAN_OPTIONS="halt_on_error=0 exitcode=66 report_signal_unsafe=0"))
    finally:
        os.unlink(f)
    return p


def thr_verdict(p):
    """(kind, detail) or None. A parse that differs from the solo parse of the same stream, or a data race reported by the sanitizer."""
    if "FATAL: ThreadSanitizer" in p.stderr:
        return ("tsan-unavailable", p.stderr[:400])
    lines = p.stdout.splitlines()
    if not lines or lines[-1] != "done":
        return ("thread-harness-failed", "rc=%d stdout tail %r stderr tail %r" % (p.returncode, p.stdout[-300:], p.stderr[-1200:]))
    diffs = [l for l in lines if l.startswith("stream ") and " differ 0" not in l]
    races = p.stderr.count("WARNING: ThreadSanitizer: data race")
    if diffs or races:
        first = re.findall(r"(?:#\d+ \S+ (/repo/\S+))", p.stderr)
        return ("thread-interference", "%d stream(s) parsed differently than alone; %d data race report(s)%s; %s" % (
            len(diffs), races, (" (first frames in the library: " + ", ".join(first[:4]) + ")") if first else "", (diffs[0][:600] if diffs else "")))
    return None


def thread_search(ctx):
    thr = lib.build_thr()["thr"]
    iters = 120 if ctx.tier == "quick" else 400
    groups = thr_groups(ctx)
    parses, unavailable = 0, None
    for gi, (cfg, streams) in enumerate(groups):
        p = run_thr(thr, cfg, streams, iters, ctx.seed * 1000 + gi, lib.BUILD)
        v = thr_verdict(p)
        if v and v[0] == "tsan-unavailable":
            unavailable = v[1]
            break
        if v:
            ctx.violation("oracle-" + v[0], {"what": v[1], "thr": {"cfg": cfg, "iterations": iters, "seed": ctx.seed * 1000 + gi,
                                                                     "streams": [[r.hex(), s.hex()] for r, s in streams]},
                                             "sanitizer_report": p.stderr[:6000]}, found_input=(v[0] == "thread-interference"), sig=v[0])
            break
        parses += iters * len(streams)
    ctx.cov["threaded"] = {"groups": len(groups), "streams_per_group": [len(s) for _, s in groups], "iterations_per_stream": iters,
                           "threaded_parses": parses, "configurations": sorted({c for c, _ in groups}),
                           "detector": "clang -fsanitize=thread; every threaded parse compared with the solo parse of the same stream",
                           "unavailable": unavailable}
    return parses


def run(ctx, model_ok=True, proofs_broken=False):
    scripts, meta = P.c19_scripts(ctx)
    by_id = {id(sc): m for sc, m in zip(scripts, meta)}
    solo = {}

    def oracle(sc, outs):
        m = by_id.get(id(sc))
        if not m:
            return []
        if m["role"] == "solo":
            solo[(m["gid"], m["k"])] = [o for l, o in zip(sc, outs)]
            return []
        # interleaved: regroup outputs per connection and compare with the solo run
        per = {}
        for l, o in zip(sc, outs):
            mm = re.match(r"conn@(\d+) ", l)
            per.setdefault(int(mm.group(1)) - 1, []).append(o)
        found = []
        for k, got in per.items():
            want = solo.get((m["gid"], k))
            if want is not None and got != want:
                j = next((i for i in range(min(len(got), len(want))) if got[i] != want[i]), -1)
                found.append(("interference", "connection %d of %d behaves differently when interleaved (first difference at its op %d)" % (k, m["K"], j)))
        return found

    conncheck.run_conn_prop(ctx, "C19", scripts, oracle, "conn/interleave", P.RULES["C19"], model_ok)
    n = thread_search(ctx)
    ctx.cov["evaluations"] = ctx.cov.get("evaluations", 0) + n


def replay(ctx, path):
    p = json.load(open(path))
    if "thr" in p:
        t = p["thr"]
        thr = lib.build_thr()["thr"]
        r = run_thr(thr, t["cfg"], [(bytes.fromhex(a), bytes.fromhex(b)) for a, b in t["streams"]], t["iterations"], t["seed"], lib.BUILD)
        v = thr_verdict(r)
        print(r.stdout[-1500:])
        print(r.stderr[:3000])
        if v:
            print("%s: %s" % v)
            print("VIOLATION property=C19 replay=%s" % path)
            return 1
        print("no difference and no race in this run (schedules are sampled: a clean replay does not show the race is gone)")
        return 0
    return conncheck.generic_replay(ctx, path, lambda sc, outs: [], None, "C19")
