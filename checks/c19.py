"""C19 — parsers sharing one configuration are independent (call-level interleaving; write footprint)."""
import re

import conncheck
import connlib as cl
import connprops as P
import lib

PROPS_MODULE = "C19"
TRUSTED = ["nm-based writable-symbol list and regex-based cfg-store list (extract/extract.py)", "solo-vs-interleaved comparison (search only)"]
ASSUMPTIONS = ["real thread schedules and the hardware memory model are not exhibited by the model (partial)", "allocation succeeds"]


def run(ctx, model_ok=True, proofs_broken=False):
    scripts, meta = P.c19_scripts(ctx)
    by_id = {id(sc): m for sc, m in zip(scripts, meta)}
    solo = {}

    def oracle(sc, outs):
        m = by_id.get(id(sc))
        if not m:
            return []
        if m["role"] == "solo":
            solo[(m["gid"], m["k"])] = [o for l, o in zip(sc, outs)]
            return []
        # interleaved: regroup outputs per connection and compare with the solo run
        per = {}
        for l, o in zip(sc, outs):
            mm = re.match(r"conn@(\d+) ", l)
            per.setdefault(int(mm.group(1)) - 1, []).append(o)
        found = []
        for k, got in per.items():
            want = solo.get((m["gid"], k))
            if want is not None and got != want:
                j = next((i for i in range(min(len(got), len(want))) if got[i] != want[i]), -1)
                found.append(("interference", "connection %d of %d behaves differently when interleaved (first difference at its op %d)" % (k, m["K"], j)))
        return found

    conncheck.run_conn_prop(ctx, "C19", scripts, oracle, "conn/interleave", P.RULES["C19"], model_ok)


def replay(ctx, path):
    return conncheck.generic_replay(ctx, path, lambda sc, outs: [], None, "C19")
