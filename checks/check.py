#!/usr/bin/env python3
"""check.py Cnn [--tier quick|thorough] [--replay path] | --setup

Pipeline (DESIGN.md §2.4): build /repo's working tree -> translator -> lake build (proofs
re-checked against regenerated tables) -> axiom audit -> correspondence (corpus first) ->
property oracle on the implementation -> decide -> evidence.
"""
import argparse
import importlib
import json
import os
import sys
import time
import traceback

sys.path.insert(0, os.path.dirname(os.path.abspath(__file__)))
import lib  # noqa: E402


def setup():
    t0 = time.time()
    lib.run_translator()
    # every property module (and with them every lemma file) is built here, in parallel, so that a check only re-checks what changed
    ok, out = lib.lake_build(tuple("HtpModel.Props.C%02d" % i for i in range(1, 20)) + ("HtpModel", "htpdrv"))
    if not ok:
        print(out[-6000:])
        return 1
    for kind in ("san",):
        lib.build_repo(kind)
    print("setup ok in %.1fs" % (time.time() - t0))
    return 0


class Ctx:
    def __init__(self, prop, tier, seed):
        self.prop = prop
        self.tier = tier
        self.seed = seed
        self.rng = lib.Rng(seed * 1000003 + sum(map(ord, prop)))
        self.t0 = time.time()
        self.violations = []  # dicts: kind, detail, replay (path), found_input (bool)
        self.known_hits = []
        self.notes = []
        self.cov = {}
        self.corr = None
        self.build = None

    def violation(self, kind, payload, found_input=True, sig=None):
        payload = dict(payload)
        payload["property"] = self.prop
        payload["kind"] = kind
        if sig:
            payload["signature"] = sig
        path = lib.write_replay(self.prop, kind, payload)
        self.violations.append({"kind": kind, "replay": path, "found_input": found_input, "sig": sig})
        return path


def main():
    ap = argparse.ArgumentParser()
    ap.add_argument("prop", nargs="?")
    ap.add_argument("--tier", default=os.environ.get("VERIF_TIER", "quick"))
    ap.add_argument("--replay")
    ap.add_argument("--setup", action="store_true")
    a = ap.parse_args()
    if a.setup:
        return setup()
    prop = a.prop.upper()
    tier = a.tier if a.tier in ("quick", "thorough") else "quick"
    try:
        seed = int(os.environ.get("VERIF_SEED", "1"))
    except ValueError:
        seed = 1
    mod = importlib.import_module(prop.lower())
    ctx = Ctx(prop, tier, seed)
    if a.replay:
        return mod.replay(ctx, a.replay)

    proof = {"obligations": 0, "discharged": 0, "theorems": [], "axioms": {}, "build_ok": False, "forbidden": []}
    broken = []  # names of proof obligations / machinery that no longer check
    try:
        # 1. build the implementation from the working tree
        try:
            ctx.build = lib.build_repo("san")
            ctx.corr = ctx.build["corr"]
        except lib.BuildError as e:
            print("BUILD-ERROR: /repo working tree or harness does not compile:\n%s" % e)
            path = ctx.violation("build", {"error": str(e)[-2000:]}, found_input=False)
            print("VIOLATION property=%s replay=%s no-failing-input-found" % (prop, path))
            return 1
        # 2. translator
        try:
            tr = lib.run_translator()
        except lib.BuildError as e:
            broken.append("translator: " + str(e)[-1500:])
            tr = {}
        # 3. lake build of this property's theorems + driver
        ok, out = lib.lake_build(("HtpModel.Props.%s" % mod.PROPS_MODULE, "htpdrv"))
        proof["build_ok"] = ok
        thms, examples = lib.theorems_in(os.path.join(lib.LEAN, "HtpModel", "Props", mod.PROPS_MODULE + ".lean"))
        proof["theorems"] = thms
        proof["obligations"] = len(thms) + examples
        if not ok:
            errs = [l for l in out.splitlines() if "error" in l][:12]
            broken.append("lake build HtpModel.Props.%s failed: %s" % (mod.PROPS_MODULE, " | ".join(errs)))
            drv_ok, _ = lib.lake_build(("htpdrv",))
        else:
            drv_ok = True
            # 4. audit
            forb = lib.grep_forbidden()
            proof["forbidden"] = forb
            if forb:
                broken.append("forbidden constructs in Lean sources: " + ", ".join(forb[:8]))
            ax = lib.audit_axioms(mod.PROPS_MODULE, thms)
            proof["axioms"] = {k: v for k, v in ax.items()}
            bad = {k: v for k, v in ax.items() if not set(v) <= lib.ALLOWED_AXIOMS}
            if bad:
                broken.append("axiom audit: " + json.dumps(bad)[:600])
            if not forb and not bad:
                proof["discharged"] = proof["obligations"]
            if tier == "thorough":
                okc, outc = lib.leanchecker("HtpModel.Props.%s" % mod.PROPS_MODULE)
                proof["leanchecker"] = okc
                if not okc:
                    broken.append("leanchecker: " + outc[-400:])
        if not drv_ok:
            broken.append("Lean driver does not build")
        # 5/6. correspondence + oracles (module specific); records violations in ctx
        mod.run(ctx, model_ok=drv_ok, proofs_broken=bool(broken))
    except Exception:
        tb = traceback.format_exc()
        print(tb)
        path = ctx.violation("machinery-exception", {"traceback": tb[-3000:]}, found_input=False)
        print("VIOLATION property=%s replay=%s no-failing-input-found" % (prop, path))
        return 1

    # 7. decide
    rc = 0
    kf = lib.known_findings()
    for h in ctx.known_hits:
        print("KNOWN-FINDING: property=%s %s" % (prop, h))
    concrete = [v for v in ctx.violations if v["found_input"]]
    abstract = [v for v in ctx.violations if not v["found_input"]]
    for v in concrete:
        print("VIOLATION property=%s replay=%s" % (prop, v["replay"]))
        rc = 1
    if broken or abstract:
        if not concrete:
            for v in abstract:
                print("VIOLATION property=%s replay=%s no-failing-input-found" % (prop, v["replay"]))
            if broken:
                path = ctx.violation("proof-or-correspondence-broken", {"broken": broken}, found_input=False)
                print("VIOLATION property=%s replay=%s no-failing-input-found" % (prop, path))
        else:
            for b in broken:
                print("NOTE: also broken: " + b[:300])
        rc = 1
    # 8. evidence
    cov = {"obligations": proof["obligations"], "discharged": proof["discharged"],
           "checker_cmd": "cd lean && lake build HtpModel.Props.%s && lake env lean <#print axioms audit>%s" % (
               mod.PROPS_MODULE, " && lake env leanchecker HtpModel.Props." + mod.PROPS_MODULE if tier == "thorough" else ""),
           "trusted_base": ["Lean 4.33 kernel", "axioms: " + ", ".join(sorted(lib.ALLOWED_AXIOMS)),
                            "translator extract/tabulate.c + extract.py (tables, constants, footprint)",
                            "correspondence harness harness/*.c + checks/*.py (differential, not proof)"] + getattr(mod, "TRUSTED", []),
           "theorems": proof["theorems"], "axioms_seen": proof["axioms"], "lake_build_ok": proof["build_ok"],
           "broken": broken, "known_findings_reproduced": ctx.known_hits, "notes": ctx.notes}
    cov.update(ctx.cov)
    lib.write_evidence(prop, tier, seed, cov, getattr(mod, "ASSUMPTIONS", []), time.time() - ctx.t0,
                       len(ctx.violations) + (1 if broken and not ctx.violations else 0), level="proof")
    if rc == 0:
        print("OK property=%s tier=%s seed=%d theorems=%d evaluations=%s wall=%.1fs" % (
            prop, tier, seed, len(proof["theorems"]), ctx.cov.get("evaluations"), time.time() - ctx.t0))
    return rc


if __name__ == "__main__":
    sys.exit(main())
