"""Generic runner for the conn-family property checks."""
import json

import connlib as cl
import lib


def run_conn_prop(ctx, prop, scripts, oracle, slice_name, rule, model_ok, attribute=None, project=None,
                  oracle_is_spec=False, extra_cov=None, nontrivial=None, san_prop=False):
    """scripts: list of scripts; oracle(sc, outs) -> [(sig, desc)]; attribute(sig, sc, outs) -> sig used for known findings"""
    corpus = lib.load_corpus(prop)
    allsc = corpus + scripts
    lib.UNSUPPORTED_SEEN[0] = 0
    nlines, disagreements, c_outs, san = cl.run_scripts(ctx, allsc, slice_name, model_ok, project=project)
    known = {f["signature"]: f for f in lib.known_findings()["findings"] if f["property"] == prop}
    found = {}
    distinct = set()
    rc_dist = {}
    ev_dist = {}
    state_dist = {}
    ncalls = 0
    nontriv = 0
    for sc, outs in c_outs:
        try:
            res = oracle(sc, outs)
        except Exception as ex:  # an oracle crash is a machinery defect: report, do not hide
            res = [("oracle-exception", repr(ex))]
        for sig, desc in res:
            s2 = attribute(sig, sc, outs) if attribute else sig
            found.setdefault(s2, []).append({"script": sc, "what": desc})
        for _, c in cl.calls_of_script(sc, outs):
            ncalls += 1
            rc_dist[c.rc] = rc_dist.get(c.rc, 0) + 1
            for e in c.events:
                ev_dist[e.name] = ev_dist.get(e.name, 0) + 1
        g, slots = cl.final_dump(sc, outs)
        if g:
            k = (g.get("in_state"), g.get("out_state"))
            state_dist[k[0]] = state_dist.get(k[0], 0) + 1
            state_dist[k[1]] = state_dist.get(k[1], 0) + 1
            if nontrivial is None:
                if any(s for s in slots):
                    nontriv += 1
            distinct.add(outs[-2] if len(outs) >= 2 else "")
        if nontrivial is not None and nontrivial(sc, outs):
            nontriv += 1
    for sig, items in found.items():
        if sig in known:
            ctx.known_hits.append("%s (%s) x%d" % (sig, known[sig]["what_fails"][:160], len(items)))
        else:
            ex = items[0]
            small = shrink_for_oracle(ctx, ex["script"], oracle, attribute, sig)
            ctx.violation("oracle-" + sig, {"script": small, "what": ex["what"], "count": len(items)}, found_input=True, sig=sig)
    unknown = [s for s in found if s not in known]
    for d in disagreements:
        if d.get("crash"):
            sigs = d.get("sanitizer") or []
            s = "crash:" + (sigs[0][0] if sigs else "rc%s" % d.get("harness_rc"))
            if s in known:
                ctx.known_hits.append("%s (%s)" % (s, known[s]["what_fails"][:160]))
            else:
                ctx.violation("crash", d, found_input=bool(d.get("script")), sig=s)
            continue
        sc = d.get("script", [])
        impl = d.get("impl", [])
        try:
            res = [(attribute(sig, sc, impl) if attribute else sig, desc) for sig, desc in oracle(sc, impl)]
        except Exception as ex:
            res = []
        res = [r for r in res if r[0] not in known]
        if res:
            ctx.violation("correspondence+oracle", dict(d, oracle=res[:3]), found_input=True)
        elif oracle_is_spec:
            ctx.violation("correspondence-spec", dict(d, note="implementation differs from the executable Lean model on this script"),
                          found_input=True)
        elif not unknown:
            ctx.violation("correspondence", dict(d, note="model and implementation disagree on this script; the property oracle "
                                                         "accepts the implementation's behaviour on it"), found_input=False)
    for sig, kind, fn in cl.san_violations(san, known):
        if sig in known or sig == "S13":
            if sig == "S13" and san_prop:
                ctx.known_hits.append("S13 (NULL+0 pointer arithmetic on close/gap) in %s" % fn)
            continue
        if san_prop:
            sc = find_san_script(ctx, allsc, kind, fn)
            ctx.violation("sanitizer", {"report": kind, "file": fn, "script": sc or []}, found_input=bool(sc), sig=sig)
    cov = {"evaluations": nlines, "distinct_nontrivial": len(distinct), "rule": rule, "programs": len(allsc),
           "disagreements_checked": len(disagreements), "calls": ncalls, "rc_distribution": {str(k): v for k, v in sorted(rc_dist.items())},
           "callback_distribution": ev_dist, "final_state_distribution": state_dist, "scripts_nontrivial": nontriv,
           "model_unsupported_scripts": lib.UNSUPPORTED_SEEN[0],
           "samples": [allsc[len(corpus)][:4], allsc[len(allsc) // 2][:4], allsc[-1][:4]], "exhaustive": False}
    if extra_cov:
        cov.update(extra_cov)
    ctx.cov.update(cov)


def find_san_script(ctx, scripts, kind, fn, budget=40):
    """bisect to one script whose run makes the sanitizer print this report"""
    import re as _re

    def shows(sub):
        co, ce, rc = lib.run_c(ctx.corr, [l for sc in sub for l in sc])
        return any(k == kind and f == fn for k, f in lib.san_reports(ce)) or (rc != 0 and kind.startswith("asan"))

    cur = scripts
    n = 0
    while len(cur) > 1 and n < budget:
        n += 1
        mid = len(cur) // 2
        if shows(cur[:mid]):
            cur = cur[:mid]
        elif shows(cur[mid:]):
            cur = cur[mid:]
        else:
            return None
    return cur[0] if cur and shows(cur) else None


def shrink_for_oracle(ctx, sc, oracle, attribute, sig, budget=60):
    """shrink a script while the implementation still shows the same oracle signature"""
    def fails(cand):
        co, ce, rc = lib.run_c(ctx.corr, cand)
        try:
            sigs = [(attribute(s, cand, co) if attribute else s) for s, _ in oracle(cand, co)]
        except Exception:
            return False
        return sig in sigs

    cur = list(sc)
    # shrink play items first
    for k, l in enumerate(cur):
        if l.startswith("conn play ") or l.startswith("conn pump "):
            opname = l[:10]
            items = l[10:].split(",")
            n = max(len(items) // 2, 1)
            tries = 0
            while n >= 1 and tries < budget:
                i = 0
                while i < len(items) and len(items) > 1 and tries < budget:
                    cand_items = items[:i] + items[i + n:]
                    cand = cur[:k] + [opname + ",".join(cand_items)] + cur[k + 1:]
                    tries += 1
                    if cand_items and fails(cand):
                        items = cand_items
                        cur = cand
                    else:
                        i += n
                n //= 2
    return cur


def generic_replay(ctx, path, oracle, attribute, prop):
    ctx.build = lib.build_repo("san")
    p = json.load(open(path))
    sc = p.get("script") or []
    if not sc:
        print("replay file names no script:", json.dumps(p)[:600])
        print("VIOLATION property=%s replay=%s no-failing-input-found" % (prop, path))
        return 1
    co, ce, rc = lib.run_c(ctx.build["corr"], sc)
    lo = lib.run_lean(sc)
    for l, c, m in zip(sc, co, lo):
        print(l[:200]); print("  impl :", c[:400]); print("  model:", m[:400])
    res = oracle(sc, co)
    print("oracle:", res)
    if res or co != lo or rc != 0:
        print("VIOLATION property=%s replay=%s" % (prop, path))
        return 1
    return 0
