"""Shared machinery for the `conn`-family properties: output parsers, projections, property oracles
(re-statements of the properties over the implementation's observable behaviour) and the run loop."""
import os
import re
import sys

sys.path.insert(0, os.path.join(os.path.dirname(os.path.dirname(os.path.abspath(__file__))), "gen"))
import lib
import traffic

DATA, DATA_OTHER, ERROR, STOP, CLOSED, TUNNEL = 9, 5, 3, 6, 2, 4
DOCUMENTED = {DATA, DATA_OTHER, ERROR, STOP, CLOSED, TUNNEL}


def unhx(s):
    """hex field of a dump: '-' = empty, '~' = NULL (returned as None)"""
    if s == "~":
        return None
    return b"" if s == "-" else bytes.fromhex(s)


class Ev:
    __slots__ = ("name", "tx", "rp", "sp", "data", "kind", "last")

    def __repr__(self):
        return "%s/%s/%s/%s/%s" % (self.name, self.tx, self.rp, self.sp, self.data)


def parse_events(s):
    out = []
    if not s:
        return out
    for item in s.split(" "):
        p = item.split("/")
        if len(p) != 6:
            continue
        e = Ev()
        e.name, e.tx, e.rp, e.sp = p[0], int(p[1]), int(p[2]), int(p[3])
        d = p[4]
        if d == ".":
            e.kind, e.data = "tx", None
        elif d.startswith("~"):
            e.kind, e.data = ("null" if d == "~" else "gap"), (0 if d == "~" else int(d[1:]))
        elif d.startswith("!"):
            e.kind, e.data = "stale", int(d[1:])
        else:
            e.kind, e.data = "bytes", unhx(d)
        e.last = p[5] == "1"
        out.append(e)
    return out


CALL_RE = re.compile(r"^(req|res|reqgap|resgap):rc=(-?\d+):consumed=(\d+):len=(\d+):ev=\[(.*)\]$")


class Call:
    __slots__ = ("dir", "rc", "consumed", "events", "length", "raw", "rc2")


def parse_play(out_line, items=None):
    """the result of a `conn play` line -> list of Call"""
    calls = []
    line = out_line.replace(" UNSUPPORTED", "")
    if not line:
        return calls
    for part in line.split(" ;; "):
        m = CALL_RE.match(part)
        if not m:
            continue
        c = Call()
        c.dir, c.rc, c.consumed = m.group(1), int(m.group(2)), int(m.group(3))
        c.length = int(m.group(4))
        c.events = parse_events(m.group(5))
        c.raw = part
        calls.append(c)
    return calls


SINGLE_RE = re.compile(r"^rc=(-?\d+)(?:,(-?\d+))? (?:consumed=(\d+) )?(?:len=(\d+) )?ev=\[(.*)\]")


def parse_single(out_line):
    m = SINGLE_RE.match(out_line)
    if not m:
        return None
    c = Call()
    c.dir = "single"
    c.rc = int(m.group(1))
    c.consumed = int(m.group(3)) if m.group(3) else 0
    c.length = int(m.group(4)) if m.group(4) else 0
    c.events = parse_events(m.group(5))
    c.rc2 = int(m.group(2)) if m.group(2) else None
    c.raw = out_line
    return c


TX_RE = re.compile(r"tx\{([^}]*)\}")


def parse_kv_blob(blob):
    """'a=1 b=[x y] c=..' -> dict (values kept as text; bracketed values may contain spaces)"""
    d = {}
    i = 0
    n = len(blob)
    while i < n:
        while i < n and blob[i] in " |":
            i += 1
        j = blob.find("=", i)
        if j < 0:
            break
        k = blob[i:j]
        i = j + 1
        if i < n and blob[i] == "[":
            e = blob.find("]", i)
            d[k] = blob[i + 1:e]
            i = e + 1
        else:
            e = blob.find(" ", i)
            if e < 0:
                e = n
            d[k] = blob[i:e]
            i = e
    return d


def parse_dump(line):
    line = line.replace(" UNSUPPORTED", "")
    head, _, txs = line.partition(" :: ")
    g = parse_kv_blob(head)
    out = []
    for part in txs.split(" | tx{") if txs else []:
        pass
    # slots are separated by " | " but tx blobs contain " | " too (request | response halves): split on '} | ' boundaries
    slots = []
    depth = 0
    cur = ""
    i = 0
    t = txs
    while i < len(t):
        if t.startswith("tx{", i):
            e = t.find("}", i)
            slots.append(parse_kv_blob(t[i + 3:e]))
            i = e + 1
        elif t[i] == "~":
            slots.append(None)
            i += 1
        else:
            i += 1
    return g, slots


def headers_of(txd, key):
    out = []
    v = txd.get(key, "")
    if not v:
        return out
    for item in v.split(","):
        n, val, fl = item.split(":")
        out.append((unhx(n), unhx(val), int(fl)))
    return out


# ------------------------------------------------------------------------------------------------
# C05 monitor: per-transaction lifecycle automaton over the callback log

REQ_ORDER = ["request_start", "request_uri_normalize", "request_line", "request_headers", "request_body", "request_trailer", "request_complete"]
# the phases the property names: start, line, headers, body data, trailer, complete. The raw *_header_data / *_trailer_data
# receivers are not in that list and take no part in the order check (they do in "nothing after transaction_complete").
REQ_RANK = {"request_start": 0, "request_uri_normalize": 1, "request_line": 2, "request_headers": 4,
            "request_body_data": 5, "tx_request_body_data": 5, "request_file_data": 5, "request_trailer": 7,
            "request_complete": 8}
RES_RANK = {"response_start": 0, "response_line": 1, "response_headers": 3, "response_body_data": 4,
            "tx_response_body_data": 4, "response_trailer": 6, "response_complete": 7}
ONCE = {"request_start", "request_line", "request_uri_normalize", "request_headers", "request_trailer", "request_complete",
        "response_start", "response_complete", "transaction_complete"}


class Monitor:
    """accepts a callback trace iff it satisfies C05; reports (signature, description) of the first violation"""

    def __init__(self):
        self.tx = {}

    def feed(self, e):
        if e.tx < 0:
            return None
        st = self.tx.setdefault(e.tx, {"req": -1, "res": -1, "seen": {}, "done": False, "rp": 0, "sp": 0, "interim": 0})
        if st["done"]:
            return ("after-complete:" + e.name, "callback %s for tx %d after its transaction_complete" % (e.name, e.tx))
        n = e.name
        st["seen"][n] = st["seen"].get(n, 0) + 1
        if n in ("request_complete", "response_complete", "transaction_complete") and st["seen"][n] > 1:
            return ("complete-twice:" + n, "%s delivered %d times for tx %d" % (n, st["seen"][n], e.tx))
        # progress never moves backwards except the documented restart after an interim 100 response: response progress from HEADERS
        # back to LINE (first seen at whichever callback comes next). Checked before the callback order so that a known ordering finding at the same
        # callback cannot hide it.
        if e.rp < st["rp"]:
            return ("req-progress-back", "request progress went from %d to %d for tx %d" % (st["rp"], e.rp, e.tx))
        if e.sp < st["sp"] and not (e.sp == 1 and st["sp"] == 2):
            return ("res-progress-back", "response progress went from %d to %d for tx %d (at %s)" % (st["sp"], e.sp, e.tx, n))
        if n in REQ_RANK:
            r = REQ_RANK[n]
            # header data of the trailer block shares the request_header_data name only through trailer_data: ranks are monotone
            if r < st["req"]:
                return ("req-order:%s@%d" % (n, st["req"]), "%s after a later request-side callback (rank %d) for tx %d" % (n, st["req"], e.tx))
            st["req"] = max(st["req"], r)
        if n in RES_RANK:
            r = RES_RANK[n]
            if n == "response_line" and st["res"] in (2, 3) and e.sp == 1:
                # documented restart after an interim 100 response
                st["res"] = 1
                st["interim"] += 1
            elif r < st["res"]:
                return ("res-order:%s@%d" % (n, st["res"]), "%s after a later response-side callback (rank %d) for tx %d" % (n, st["res"], e.tx))
            else:
                st["res"] = max(st["res"], r)
        st["rp"], st["sp"] = e.rp, e.sp
        if n == "transaction_complete":
            if not (e.rp == 5 and e.sp == 5):
                return ("early-txcomplete", "transaction_complete with progress %d/%d for tx %d" % (e.rp, e.sp, e.tx))
            st["done"] = True
        return None


# ------------------------------------------------------------------------------------------------
# running scripts


def run_scripts(ctx, scripts, slice_name, model_ok, project=None, batch=30000):
    """returns (nlines, disagreements, [(script, impl outputs)], san)"""
    if model_ok:
        return lib.corr_scripts(ctx, scripts, slice_name, project=project, batch=batch)
    outs = []
    san = []
    n = 0
    i = 0
    while i < len(scripts):
        chunk = scripts[i:i + 400]
        i += 400
        lines = [l for sc in chunk for l in sc]
        co, ce, rc = lib.run_c(ctx.corr, lines)
        pos = 0
        for sc in chunk:
            outs.append((sc, co[pos:pos + len(sc)]))
            pos += len(sc)
        n += len(lines)
        san += lib.san_reports(ce)
    return n, [], outs, san


def strip_unsupported(scripts_outs, lean_outs=None):
    return scripts_outs


def unsupported_filter(line):
    """projection helper: the model marks behaviour it does not cover; such lines compare equal to anything"""
    return line


PUMP_END_RE = re.compile(r"end:in=(-?\d+):out=(-?\d+):stall=(\d)")


def pump_ends(sc, outs):
    """(held request bytes or -1, held response bytes or -1, stalled) for every `pump` line of a script"""
    for line, out in zip(sc, outs):
        if line.startswith("conn") and line.split(" ")[1:2] == ["pump"]:
            m = PUMP_END_RE.search(out)
            if m:
                yield int(m.group(1)), int(m.group(2)), m.group(3) == "1"


def calls_of_script(sc, outs):
    """yield (op line, Call) for every data call of a script, in order"""
    for line, out in zip(sc, outs):
        t = line.split(" ")
        if len(t) < 2:
            continue
        op = t[1]
        if op in ("play", "pump"):
            items = t[2].split(",")
            for c in parse_play(out, items):
                yield line, c
        elif op in ("req", "res", "reqgap", "resgap", "close", "reqclose"):
            c = parse_single(out)
            if c:
                c.dir = op
                yield line, c


def all_events(sc, outs):
    for _, c in calls_of_script(sc, outs):
        for e in c.events:
            yield e


def final_dump(sc, outs):
    for line, out in reversed(list(zip(sc, outs))):
        if line.endswith(" dump") or " dump" in line.split(" ")[1:2]:
            return parse_dump(out)
    return None, []


def first_dump(sc, outs):
    for line, out in zip(sc, outs):
        if line.split(" ")[1:2] == ["dump"]:
            return parse_dump(out)
    return None, []


SAN_IGNORE_KINDS = ("ubsan:applying zero offset to null pointer",)


def san_violations(san, known_sigs):
    out = []
    for kind, fn in set(san):
        sig = "%s@%s" % (kind, fn)
        if any(kind.startswith(k) for k in SAN_IGNORE_KINDS):
            sig = "S13"
        out.append((sig, kind, fn))
    return out


def play_requests_first(sc):
    """True when the play/pump line of the script offers every request item before the first response item"""
    for l in sc:
        t = l.split(" ")
        if len(t) >= 3 and t[1] in ("play", "pump"):
            seen_res = False
            for it in t[2].split(","):
                if it.startswith("<") or it.startswith("g<"):
                    seen_res = True
                elif seen_res and (it.startswith(">") or it.startswith("g>")):
                    return False
            return True
    return False
