"""Per-property generators and oracles of the `conn` family (C01 C02 C03 C04 C05 C06 C09 C10 C11 C16 C19)."""
import random

import connlib as cl
import lib
import traffic
from connlib import DATA, DATA_OTHER, ERROR, STOP, CLOSED, TUNNEL, DOCUMENTED

OPTS = {"folding": True, "repeat": True, "urlenc_bodies": True, "unknown_methods": True}


def mixed_scripts(ctx, n, mutate_p=0.6, policy_p=0.5, tail=True, cfg_fn=None):
    """structured exchanges, optionally mutated, random chunkings / interleavings / callback policies"""
    rng = ctx.rng
    out = []
    for _ in range(n):
        reqs, ress, rq, rs = traffic.gen_exchange(rng, opts=OPTS)
        R = b"".join(rq)
        S = b"".join(rs)
        if rng.random() < mutate_p:
            R = traffic.mutate(R, rng)
        if rng.random() < mutate_p:
            S = traffic.mutate(S, rng)
        rp = traffic.chunkings(R, rng, rng.choice(("bytes", "rand", "rand", "whole")))
        sp = traffic.chunkings(S, rng, rng.choice(("bytes", "rand", "rand", "whole")))
        if rng.random() < 0.5:
            items = traffic.interleave(rp, sp, rng)
        else:
            items = [">" + traffic.hx(p) for p in rp] + ["<" + traffic.hx(p) for p in sp]
        if rng.random() < 0.1 and items:
            items.insert(rng.randint(0, len(items)), rng.choice(("g>", "g<")) + str(rng.randint(1, 9)))
        cfg = cfg_fn(rng) if cfg_fn else traffic.rand_cfg(rng)
        pol = traffic.rand_policy(rng) if rng.random() < policy_p else "-"
        extra = []
        if tail:
            # calls after the play: this is where stickiness shows
            for _ in range(rng.randint(0, 3)):
                extra.append(rng.choice(("conn req ", "conn res ")) + traffic.hx(rng.choice(
                    (b"GET /t HTTP/1.1\r\nHost: t\r\n\r\n", b"HTTP/1.1 200 OK\r\nContent-Length: 0\r\n\r\n", b"x", b"\r\n"))))
            if rng.random() < 0.2:
                extra.append("conn reqclose")
            if rng.random() < 0.2:
                extra.append("conn txfreed")
        out.append(traffic.script(cfg, pol, items, extra_after=extra))
    return out


def tfile_scripts(ctx, modes=("whole", "bytes", "rand")):
    rng = ctx.rng
    out = []
    for f in traffic.t_files():
        ch = traffic.parse_t_file(f)
        for mode in modes:
            items = []
            for d, data, ln in ch:
                if data is None:
                    items.append(("g>" if d == 1 else "g<") + str(ln))
                    continue
                for p in traffic.chunkings(data, rng, mode):
                    items.append((">" if d == 1 else "<") + traffic.hx(p))
            out.append(traffic.script("respdecomp=0", "-", items))
    return out


# ================================================================================================ C09

def c09_scripts(ctx):
    n = 700 if ctx.tier == "quick" else 6000
    sc = mixed_scripts(ctx, n, policy_p=0.7)
    sc += tfile_scripts(ctx, modes=("whole", "rand"))
    return sc


def c09_oracle(sc, outs):
    """ApiSpec acceptor over the implementation's call log. Returns list of (signature, description)."""
    found = []
    sticky = {"req": None, "res": None}     # direction -> sticky state reached
    counted = {"req": 0, "res": 0}
    slack = {"req": 0, "res": 0}
    for line, c in cl.calls_of_script(sc, outs):
        op = c.dir
        if op in ("req", "reqgap", "res", "resgap"):
            d = "req" if op.startswith("req") else "res"
            if c.rc not in DOCUMENTED:
                found.append(("undocumented-rc", "%s returned %d" % (op, c.rc)))
            if c.rc == DATA and c.consumed != c.length:
                found.append(("data-not-all-consumed", "%s returned DATA with consumed=%d of %d" % (op, c.consumed, c.length)))
            if c.rc == DATA_OTHER and not c.consumed < c.length:
                found.append(("data-other-consumed-all", "%s returned DATA_OTHER with consumed=%d of %d" % (op, c.consumed, c.length)))
            if c.rc in (DATA, DATA_OTHER) and c.consumed > c.length:
                found.append(("consumed-gt-len", "%s consumed=%d of %d" % (op, c.consumed, c.length)))
            if sticky[d] is not None:
                if c.rc != sticky[d]:
                    found.append(("S8" if sticky[d] == STOP and sticky.get(d + "_closed") else "not-sticky",
                                  "%s returned %d after %d" % (op, c.rc, sticky[d])))
                elif c.events:
                    found.append(("callbacks-after-sticky", "%s ran %d callbacks after %d" % (op, len(c.events), sticky[d])))
            else:
                if c.rc in (ERROR, STOP):
                    sticky[d] = c.rc
                    slack[d] = c.length
                else:
                    if c.length > 0 or c.rc != CLOSED:
                        counted[d] += c.length
        elif op in ("close", "reqclose"):
            # htp_connp_close / req_close re-enter the parser: a direction in STOP must stay in STOP and run no callbacks
            ins, outs_ = c.rc, c.rc2
            if sticky["req"] == STOP and (ins != STOP or any(e.name.startswith("request_") for e in c.events)):
                found.append(("S8", "close after STOP: in_status=%s, %d callbacks" % (ins, len(c.events))))
                sticky["req_closed"] = True
                sticky["req"] = None if ins != STOP else STOP
            if op == "close" and sticky["res"] == STOP and (outs_ != STOP or any(e.name.startswith("response_") for e in c.events)):
                found.append(("S8", "close after STOP: out_status=%s, %d callbacks" % (outs_, len(c.events))))
                sticky["res_closed"] = True
                sticky["res"] = None if outs_ != STOP else STOP
            if sticky["req"] == ERROR and ins != ERROR:
                found.append(("error-not-sticky", "close changed in_status from ERROR to %s" % ins))
            if op == "close" and sticky["res"] == ERROR and outs_ != ERROR:
                found.append(("error-not-sticky", "close changed out_status from ERROR to %s" % outs_))
    g, _ = cl.final_dump(sc, outs)
    if g:
        for d, key in (("req", "in_ctr"), ("res", "out_ctr")):
            got = int(g.get(key, 0))
            if not (counted[d] <= got <= counted[d] + slack[d]):
                found.append(("counter", "%s=%d but %d..%d bytes were offered to calls that passed the entry guards" % (
                    key, got, counted[d], counted[d] + slack[d])))
    return found


# ================================================================================================ C05

def c05_scripts(ctx):
    rng = ctx.rng
    n = 600 if ctx.tier == "quick" else 5000
    sc = mixed_scripts(ctx, n, policy_p=0.4)
    sc += tfile_scripts(ctx, modes=("whole", "bytes", "rand"))
    sc += handover_scripts(ctx, 250 if ctx.tier == "quick" else 2500)
    return sc


CONNECT_REQ = b"CONNECT host.example:443 HTTP/1.1\r\nHost: host.example:443\r\n\r\n"


def handover_scripts(ctx, n):
    """CONNECT 2xx/407/4xx, 101, 100-continue with and without C-L, early responses, responses without requests, HTTP/0.9"""
    rng = ctx.rng
    out = []
    statuses = [(200, b"OK"), (204, b"No Content"), (101, b"Switching"), (407, b"Proxy Auth"), (403, b"Forbidden"), (500, b"Err"), (100, b"Continue")]
    payloads = [b"GET /after HTTP/1.1\r\nHost: a\r\n\r\n", b"\x16\x03\x01\x02\x00\x01\x00\x01\xfc\x03\x03binary\r\nmore", b"POST /p HTTP/1.1\r\nContent-Length: 3\r\n\r\nabc",
                b"", b"\r\nGET / HTTP/1.0\r\n\r\n", b"FOO bar\r\n"]
    for _ in range(n):
        kind = rng.random()
        st, reason = rng.choice(statuses)
        hdrs = b""
        if rng.random() < 0.4:
            hdrs += b"Content-Length: %d\r\n" % rng.choice((0, 0, 3))
        if rng.random() < 0.1:
            hdrs += b"Transfer-Encoding: chunked\r\n"
        body = b"abc" if b"Length: 3" in hdrs else (b"3\r\nabc\r\n0\r\n\r\n" if b"chunked" in hdrs else b"")
        resp = b"HTTP/1.1 %d " % st + reason + b"\r\n" + hdrs + b"\r\n" + body
        if kind < 0.5:
            req = CONNECT_REQ + rng.choice(payloads)
            resp2 = resp + rng.choice((b"", b"HTTP/1.1 200 OK\r\nContent-Length: 2\r\n\r\nhi", b"\x17\x03binary"))
        elif kind < 0.7:
            req = b"POST /u HTTP/1.1\r\nHost: h\r\nExpect: 100-continue\r\nContent-Length: 5\r\n\r\n" + rng.choice((b"hello", b"", b"he"))
            resp2 = rng.choice((b"HTTP/1.1 100 Continue\r\n\r\n", b"HTTP/1.1 100 Continue\r\nContent-Length: 0\r\n\r\n", b"HTTP/1.1 417 Nope\r\nContent-Length: 0\r\n\r\n",
                                b"")) + rng.choice((b"HTTP/1.1 200 OK\r\nContent-Length: 0\r\n\r\n", b"HTTP/1.1 404 NF\r\nContent-Length: 1\r\n\r\nx"))
        elif kind < 0.8:
            req = rng.choice((b"GET /\r\n", b"GET / \r\n\r\n", b"GET\r\n", b"GET / HTTP/0.9\r\n\r\n")) + rng.choice((b"", b"junk junk junk junk junk junk", b"  "))
            resp2 = rng.choice((b"<html>hello</html>", b"HTTP/1.0 200 OK\r\n\r\nbody"))
        elif kind < 0.9:
            req = b"GET /upg HTTP/1.1\r\nHost: h\r\nUpgrade: websocket\r\nConnection: Upgrade\r\n\r\n" + rng.choice((b"", b"\x81\x05hello"))
            resp2 = resp + rng.choice((b"", b"\x81\x02hi"))
        else:
            req = rng.choice((b"", b"GET /only HTTP/1.1\r\nHost: h\r\n\r\n"))
            resp2 = b"HTTP/1.1 200 OK\r\nContent-Length: 1\r\n\r\nA" * rng.randint(1, 3)
        rp = traffic.chunkings(req, rng, rng.choice(("whole", "rand", "bytes", "whole")))
        sp = traffic.chunkings(resp2, rng, rng.choice(("whole", "rand", "bytes", "whole")))
        order = rng.random()
        if order < 0.4:
            items = [">" + traffic.hx(p) for p in rp] + ["<" + traffic.hx(p) for p in sp]
        elif order < 0.6:
            items = ["<" + traffic.hx(p) for p in sp] + [">" + traffic.hx(p) for p in rp]
        else:
            items = traffic.interleave(rp, sp, rng)
        cfg = rng.choice(("respdecomp=0", "respdecomp=0,autodestroy=1", "p=IDS,respdecomp=0", "respdecomp=0,maxtx=2"))
        pol = traffic.rand_policy(rng) if rng.random() < 0.25 else "-"
        out.append(traffic.script(cfg, pol, items))
    return out


def c05_oracle(sc, outs):
    found = []
    mon = cl.Monitor()
    for e in cl.all_events(sc, outs):
        r = mon.feed(e)
        if r:
            found.append(r)
            break
    return found


def streams_of(sc):
    """(request bytes, response bytes) offered by a script, concatenated"""
    rq, rs = b"", b""
    for l in sc:
        t = l.split(" ")
        if len(t) >= 3 and t[1] == "play":
            for it in t[2].split(","):
                if it[0] == ">":
                    rq += cl.unhx(it[1:])
                elif it[0] == "<":
                    rs += cl.unhx(it[1:])
        elif len(t) >= 3 and t[1] == "req":
            rq += cl.unhx(t[2])
        elif len(t) >= 3 and t[1] == "res":
            rs += cl.unhx(t[2])
    return rq, rs


def c05_attribute(sig, sc, outs):
    """map a Monitor rejection to the known finding whose call site produces exactly this pattern (else keep the raw signature)"""
    rq, rs = streams_of(sc)
    if sig in ("complete-twice", "after-complete"):
        if b"CONNECT" in rq:
            return "S2"
        # S24: a direction ended in ERROR/STOP through a callback and an unmatched response made RES_IDLE finalise the tx again
        if any(c.rc in (ERROR, STOP) for _, c in cl.calls_of_script(sc, outs)):
            return "S24"
        return sig
    if sig.startswith("res-order:") or sig.startswith("req-order:"):
        kind, rest = sig.split(":", 1)
        name, prev = rest.split("@")
        prev = int(prev)
        if kind == "res-order":
            if name in ("response_line", "response_headers") and prev == 4:
                return "S25"       # junk before the status line was delivered as body data (response line treated as body)
            if name in ("response_body_data", "tx_response_body_data") and prev >= 5:
                return "S26"       # unexpected body after the end of the message (RES_FINALIZE)
        else:
            if name in ("request_body_data", "tx_request_body_data", "request_file_data") and prev >= 6:
                return "S26"       # unexpected body after the end of the message (REQ_FINALIZE)
    return sig
