"""Per-property generators and oracles of the `conn` family (C01 C02 C03 C04 C05 C06 C09 C10 C11 C16 C19)."""
import random
import re

import connlib as cl
import lib
import traffic
from connlib import DATA, DATA_OTHER, ERROR, STOP, CLOSED, TUNNEL, DOCUMENTED

OPTS = {"folding": True, "repeat": True, "urlenc_bodies": True, "unknown_methods": True}


def mixed_scripts(ctx, n, mutate_p=0.6, policy_p=0.5, tail=True, cfg_fn=None):
    """structured exchanges, optionally mutated, random chunkings / interleavings / callback policies"""
    rng = ctx.rng
    out = []
    for _ in range(n):
        reqs, ress, rq, rs = traffic.gen_exchange(rng, opts=OPTS)
        R = b"".join(rq)
        S = b"".join(rs)
        if rng.random() < mutate_p:
            R = traffic.mutate(R, rng)
        if rng.random() < mutate_p:
            S = traffic.mutate(S, rng)
        rp = traffic.chunkings(R, rng, rng.choice(("bytes", "rand", "rand", "whole")))
        sp = traffic.chunkings(S, rng, rng.choice(("bytes", "rand", "rand", "whole")))
        if rng.random() < 0.5:
            items = traffic.interleave(rp, sp, rng)
        else:
            items = [">" + traffic.hx(p) for p in rp] + ["<" + traffic.hx(p) for p in sp]
        if rng.random() < 0.1 and items:
            items.insert(rng.randint(0, len(items)), rng.choice(("g>", "g<")) + str(rng.randint(1, 9)))
        cfg = cfg_fn(rng) if cfg_fn else traffic.rand_cfg(rng)
        pol = traffic.rand_policy(rng) if rng.random() < policy_p else "-"
        extra = []
        if tail:
            # calls after the play: this is where stickiness shows
            for _ in range(rng.randint(0, 3)):
                extra.append(rng.choice(("conn req ", "conn res ")) + traffic.hx(rng.choice(
                    (b"GET /t HTTP/1.1\r\nHost: t\r\n\r\n", b"HTTP/1.1 200 OK\r\nContent-Length: 0\r\n\r\n", b"x", b"\r\n"))))
            if rng.random() < 0.2:
                extra.append("conn reqclose")
            if rng.random() < 0.2:
                extra.append("conn txfreed")
        out.append(traffic.script(cfg, pol, items, extra_after=extra))
    return out


def tfile_scripts(ctx, modes=("whole", "bytes", "rand")):
    rng = ctx.rng
    out = []
    for f in traffic.t_files():
        ch = traffic.parse_t_file(f)
        for mode in modes:
            items = []
            for d, data, ln in ch:
                if data is None:
                    items.append(("g>" if d == 1 else "g<") + str(ln))
                    continue
                for p in traffic.chunkings(data, rng, mode):
                    items.append((">" if d == 1 else "<") + traffic.hx(p))
            out.append(traffic.script("respdecomp=0", "-", items))
    return out


def reqline_scripts(ctx, n):
    """request lines with unusual delimiters, with and without htp_config_set_allow_space_uri (the two line-splitting paths of
    htp_parse_request_line_generic_ex), NUL-terminating personalities included"""
    rng = ctx.rng
    sc = []
    for _ in range(n):
        line = rng.choice((b"GET /a b c HTTP/1.1", b"GET\t/x\tHTTP/1.1", b"GET  /two  HTTP/1.0", b"GET /a\tb HTTP/1.1", b"GET /trail HTTP/1.1 \t", b" \tGET /lead HTTP/1.1",
                           b"GET /nul\x00rest HTTP/1.1", b"GET /only", b"GET", b"GET ", b"GET /x y", b"GET /x y ", b"POST /a b\tc d HTTP/1.1", b"GET /a\x0bb HTTP/1.1",
                           b"GET /a\x0cb\x0bc HTTP/1.1", b"M-SEARCH * HTTP/1.1", b"GET http://h/a b HTTP/1.1", b"GET /%20 %20 HTTP/0.9",
                           b"GET /index.html", b"GET\t/index.html\tHTTP/1.0", b"GET\t/index.html", b"GET /", b"GET  ", b"GET \t", b"G /", b"GET /a\t", b"GET\t\t/a"))
        R = line + rng.choice((b"\r\n", b"\n")) + b"Host: h\r\n\r\n"
        cfg = rng.choice(("respdecomp=0,spaceuri=1", "respdecomp=0", "p=IIS_6_0,respdecomp=0,spaceuri=1", "p=APACHE_2,respdecomp=0,spaceuri=1", "p=IIS_6_0,respdecomp=0"))
        items = [">" + traffic.hx(p) for p in traffic.chunkings(R, rng, rng.choice(("whole", "rand", "bytes")))] + \
                ["<" + traffic.hx(b"HTTP/1.1 200 OK\r\nContent-Length: 0\r\n\r\n")]
        sc.append(traffic.script(cfg, "-", items))
    # an HTTP/0.9 request line followed by junk around the length the parser tolerates (16 bytes of white space after the line still
    # make it 0.9; more, or anything but white space, makes it a request with headers)
    for k in range(13, 21):
        for tail in (b"", b"X", b"\r\n"):
            R = b"GET /zero9\r\n" + b" " * k + tail
            sc.append(traffic.script("respdecomp=0", "-", [">" + traffic.hx(R)]))
    return sc


# ================================================================================================ C09

def c09_scripts(ctx):
    n = 700 if ctx.tier == "quick" else 30000
    sc = mixed_scripts(ctx, n, policy_p=0.7)
    sc += tfile_scripts(ctx, modes=("whole", "rand"))
    sc += handover_scripts(ctx, 300 if ctx.tier == "quick" else 12000)
    sc += lib.load_fuzz_corpus(ctx, 1500, "C09")
    sc += reqline_scripts(ctx, 150 if ctx.tier == "quick" else 3000)
    sc += refusing_scripts(ctx, 40 if ctx.tier == "quick" else 800)
    return sc


def refusing_scripts(ctx, n):
    """callbacks that refuse several times IN A ROW (S45: REQ_IDLE ignored a refusing REQUEST_START callback and span, one new transaction per
    refusal on the same byte): runs of STOP / ERROR answers starting at a random callback index, requests delivered in small pieces"""
    rng = ctx.rng
    out = []
    for _ in range(n):
        k0 = rng.choice((0, 0, 0, rng.randint(0, 12)))
        m = rng.randint(2, 40)
        act = rng.choice(("stop", "error"))
        pol = ",".join("%d:%s" % (k0 + i, act) for i in range(m))
        R = rng.choice((b"GET / HTTP/1.1\r\nHost: h\r\n\r\n", b"POST /p HTTP/1.1\r\nHost: h\r\nContent-Length: 3\r\n\r\nabcGET /2 HTTP/1.0\r\n\r\n"))
        S = b"HTTP/1.1 200 OK\r\nContent-Length: 2\r\n\r\nok"
        items = [">" + traffic.hx(p) for p in traffic.chunkings(R, rng, rng.choice(("bytes", "rand", "whole")))] + \
                ["<" + traffic.hx(p) for p in traffic.chunkings(S, rng, rng.choice(("rand", "whole")))]
        out.append(traffic.script("respdecomp=0", pol, items))
    return out


def c09_oracle(sc, outs):
    """ApiSpec acceptor over the implementation's call log. Returns list of (signature, description)."""
    found = []
    sticky = {"req": None, "res": None}     # direction -> sticky state reached
    counted = {"req": 0, "res": 0}
    slack = {"req": 0, "res": 0}
    for line, c in cl.calls_of_script(sc, outs):
        op = c.dir
        if op in ("req", "reqgap", "res", "resgap"):
            d = "req" if op.startswith("req") else "res"
            if c.rc not in DOCUMENTED:
                found.append(("undocumented-rc", "%s returned %d" % (op, c.rc)))
            if c.rc == DATA and c.consumed != c.length:
                found.append(("data-not-all-consumed", "%s returned DATA with consumed=%d of %d" % (op, c.consumed, c.length)))
            if c.rc == DATA_OTHER and not c.consumed < c.length:
                found.append(("data-other-consumed-all", "%s returned DATA_OTHER with consumed=%d of %d" % (op, c.consumed, c.length)))
            if c.rc in (DATA, DATA_OTHER) and c.consumed > c.length:
                found.append(("consumed-gt-len", "%s consumed=%d of %d" % (op, c.consumed, c.length)))
            # progress: a transaction is started by at least one byte of its own, so one call cannot start more transactions than it was
            # offered bytes (S45: a refusing REQUEST_START callback made the loop start one transaction per pass on the same byte)
            starts = sum(1 for e in c.events if e.name == ("request_start" if d == "req" else "response_start"))
            if starts > max(c.length, 1):
                found.append(("spin", "%s of %d byte(s) started %d transactions" % (op, c.length, starts)))
            if sticky[d] is not None:
                if c.rc != sticky[d]:
                    found.append(("S8" if sticky[d] == STOP and sticky.get(d + "_closed") else "not-sticky",
                                  "%s returned %d after %d" % (op, c.rc, sticky[d])))
                elif c.events:
                    found.append(("callbacks-after-sticky", "%s ran %d callbacks after %d" % (op, len(c.events), sticky[d])))
            else:
                if c.rc in (ERROR, STOP):
                    sticky[d] = c.rc
                    slack[d] = c.length
                else:
                    if c.length > 0 or c.rc != CLOSED:
                        counted[d] += c.length
        elif op in ("close", "reqclose"):
            # htp_connp_close / req_close re-enter the parser: a direction in STOP must stay in STOP and run no callbacks
            ins, outs_ = c.rc, c.rc2
            if sticky["req"] == STOP and (ins != STOP or any(e.name.startswith("request_") for e in c.events)):
                found.append(("S8", "close after STOP: in_status=%s, %d callbacks" % (ins, len(c.events))))
                sticky["req_closed"] = True
                sticky["req"] = None if ins != STOP else STOP
            if op == "close" and sticky["res"] == STOP and (outs_ != STOP or any(e.name.startswith("response_") for e in c.events)):
                found.append(("S8", "close after STOP: out_status=%s, %d callbacks" % (outs_, len(c.events))))
                sticky["res_closed"] = True
                sticky["res"] = None if outs_ != STOP else STOP
            if sticky["req"] == ERROR and ins != ERROR:
                found.append(("error-not-sticky", "close changed in_status from ERROR to %s" % ins))
            if op == "close" and sticky["res"] == ERROR and outs_ != ERROR:
                found.append(("error-not-sticky", "close changed out_status from ERROR to %s" % outs_))
    # progress: a caller following the documented hand-over protocol never ends in a round that consumes nothing while
    # unconsumed data remains on both sides
    for held_in, held_out, stalled in cl.pump_ends(sc, outs):
        if stalled and held_in > 0 and held_out > 0 and sticky["req"] is None and sticky["res"] is None:
            found.append(("no-progress", "hand-over protocol stalled: DATA_OTHER on both sides with %d request and %d response bytes "
                                         "unconsumed" % (held_in, held_out)))
    g, _ = cl.final_dump(sc, outs)
    if g:
        for d, key in (("req", "in_ctr"), ("res", "out_ctr")):
            got = int(g.get(key, 0))
            if not (counted[d] <= got <= counted[d] + slack[d]):
                found.append(("counter", "%s=%d but %d..%d bytes were offered to calls that passed the entry guards" % (
                    key, got, counted[d], counted[d] + slack[d])))
    return found


# ================================================================================================ C05

def c05_scripts(ctx):
    rng = ctx.rng
    n = 600 if ctx.tier == "quick" else 25000
    sc = mixed_scripts(ctx, n, policy_p=0.4)
    sc += tfile_scripts(ctx, modes=("whole", "bytes", "rand"))
    sc += handover_scripts(ctx, 250 if ctx.tier == "quick" else 10000)
    sc += lib.load_fuzz_corpus(ctx, 1500, "C05")
    # stray lines around status lines and request lines: a first response line that is not a status line is treated as body, and what
    # follows it in the same chunk decides whether the parser stays in the line state
    for _ in range(150 if ctx.tier == "quick" else 3000):
        stray = rng.choice((b"junk\r\n", b"xyz abc def\r\n", b"\r\n", b"HTTP\r\n", b"http/1.1\r\n", b"200 OK\r\n", b"x\n", b"\x00\x01\r\n"))
        real = rng.choice((b"HTTP/1.1 204 No Content\r\n\r\n", b"HTTP/1.1 200 OK\r\nContent-Length: 2\r\n\r\nok", b"http/1.1 204 No Content\r\nX: y\r\n\r\n",
                           b"HTTP/1.1 200 OK\r\nTransfer-Encoding: chunked\r\n\r\n1\r\na\r\n0\r\n\r\n", b"HTTP/1.0 200 OK\r\n\r\nbody", b"HTTP/1.1 100 Continue\r\n\r\nHTTP/1.1 200 OK\r\nContent-Length: 0\r\n\r\n",
                           b"HTTP/1.1 206 Partial Content\r\nContent-Type: multipart/byteranges; boundary=x\r\n\r\n--x\r\n\r\nab\r\n--x--\r\n",
                           b"HTTP/1.1 206 Partial Content\r\nContent-Type: Multipart/ByteRanges\r\nContent-Length: 2\r\n\r\nab"))
        S = rng.choice((stray + real, real + stray, stray + stray + real, real[:rng.randint(1, len(real))] + stray + real))
        R = rng.choice((b"GET /s HTTP/1.1\r\nHost: h\r\n\r\n", b"\r\nGET /s HTTP/1.1\r\nHost: h\r\n\r\n", b"junk\r\nGET /s HTTP/1.1\r\nHost: h\r\n\r\n", b"GET /s HTTP/1.1\r\nHost: h\r\n\r\nGET /t HTTP/1.1\r\nHost: h\r\n\r\n"))
        items = [">" + traffic.hx(p) for p in traffic.chunkings(R, rng, rng.choice(("whole", "rand")))] + \
                ["<" + traffic.hx(p) for p in traffic.chunkings(S, rng, rng.choice(("whole", "whole", "rand", "bytes", ("cut", rng.randint(1, len(S) - 1)))))]
        sc.append(traffic.script(rng.choice(("respdecomp=0", "p=IDS,respdecomp=0", "respdecomp=0,autodestroy=1")), traffic.rand_policy(rng) if rng.random() < 0.2 else "-", items))
    return sc


CONNECT_REQ = b"CONNECT host.example:443 HTTP/1.1\r\nHost: host.example:443\r\n\r\n"


def handover_scripts(ctx, n):
    """CONNECT 2xx/407/4xx, 101, 100-continue with and without C-L, early responses, responses without requests, HTTP/0.9"""
    rng = ctx.rng
    out = []
    statuses = [(200, b"OK"), (204, b"No Content"), (101, b"Switching"), (407, b"Proxy Auth"), (403, b"Forbidden"), (500, b"Err"), (100, b"Continue")]
    payloads = [b"GET /after HTTP/1.1\r\nHost: a\r\n\r\n", b"\x16\x03\x01\x02\x00\x01\x00\x01\xfc\x03\x03binary\r\nmore", b"POST /p HTTP/1.1\r\nContent-Length: 3\r\n\r\nabc",
                b"", b"\r\nGET / HTTP/1.0\r\n\r\n", b"FOO bar\r\n"]
    for _ in range(n):
        kind = rng.random()
        st, reason = rng.choice(statuses)
        hdrs = b""
        if rng.random() < 0.4:
            hdrs += b"Content-Length: %d\r\n" % rng.choice((0, 0, 3))
        if rng.random() < 0.1:
            hdrs += b"Transfer-Encoding: chunked\r\n"
        body = b"abc" if b"Length: 3" in hdrs else (b"3\r\nabc\r\n0\r\n\r\n" if b"chunked" in hdrs else b"")
        resp = b"HTTP/1.1 %d " % st + reason + b"\r\n" + hdrs + b"\r\n" + body
        if kind < 0.5:
            req = CONNECT_REQ + rng.choice(payloads)
            resp2 = resp + rng.choice((b"", b"HTTP/1.1 200 OK\r\nContent-Length: 2\r\n\r\nhi", b"\x17\x03binary"))
        elif kind < 0.7:
            req = b"POST /u HTTP/1.1\r\nHost: h\r\nExpect: 100-continue\r\nContent-Length: 5\r\n\r\n" + rng.choice((b"hello", b"", b"he"))
            resp2 = rng.choice((b"HTTP/1.1 100 Continue\r\n\r\n", b"HTTP/1.1 100 Continue\r\nContent-Length: 0\r\n\r\n", b"HTTP/1.1 417 Nope\r\nContent-Length: 0\r\n\r\n",
                                b"")) + rng.choice((b"HTTP/1.1 200 OK\r\nContent-Length: 0\r\n\r\n", b"HTTP/1.1 404 NF\r\nContent-Length: 1\r\n\r\nx"))
        elif kind < 0.8:
            req = rng.choice((b"GET /\r\n", b"GET / \r\n\r\n", b"GET\r\n", b"GET / HTTP/0.9\r\n\r\n")) + rng.choice((b"", b"junk junk junk junk junk junk", b"  "))
            resp2 = rng.choice((b"<html>hello</html>", b"HTTP/1.0 200 OK\r\n\r\nbody"))
        elif kind < 0.9:
            req = b"GET /upg HTTP/1.1\r\nHost: h\r\nUpgrade: websocket\r\nConnection: Upgrade\r\n\r\n" + rng.choice((b"", b"\x81\x05hello"))
            resp2 = resp + rng.choice((b"", b"\x81\x02hi"))
        else:
            req = rng.choice((b"", b"GET /only HTTP/1.1\r\nHost: h\r\n\r\n"))
            resp2 = b"HTTP/1.1 200 OK\r\nContent-Length: 1\r\n\r\nA" * rng.randint(1, 3)
        # the exchange may sit behind earlier, still unanswered requests on the same connection (pipelining) and be followed by one
        if rng.random() < 0.3:
            k = rng.randint(1, 2)
            req = b"".join(b"GET /pre%d HTTP/1.1\r\nHost: h\r\n\r\n" % i for i in range(k)) + req
            resp2 = b"".join(b"HTTP/1.1 200 OK\r\nContent-Length: %d\r\n\r\n" % i + b"x" * i for i in range(k)) + resp2
            if rng.random() < 0.5:
                req += b"GET /post HTTP/1.1\r\nHost: h\r\n\r\n"
                resp2 += b"HTTP/1.1 200 OK\r\nContent-Length: 0\r\n\r\n"
        rp = traffic.chunkings(req, rng, rng.choice(("whole", "rand", "bytes", "whole")))
        sp = traffic.chunkings(resp2, rng, rng.choice(("whole", "rand", "bytes", "whole")))
        order = rng.random()
        if order < 0.4:
            items = [">" + traffic.hx(p) for p in rp] + ["<" + traffic.hx(p) for p in sp]
        elif order < 0.6:
            items = ["<" + traffic.hx(p) for p in sp] + [">" + traffic.hx(p) for p in rp]
        else:
            items = traffic.interleave(rp, sp, rng)
        cfg = rng.choice(("respdecomp=0", "respdecomp=0,autodestroy=1", "p=IDS,respdecomp=0", "respdecomp=0,maxtx=2"))
        pol = traffic.rand_policy(rng) if rng.random() < 0.25 else "-"
        out.append(traffic.script(cfg, pol, items, op=rng.choice(("play", "pump"))))
    return out


def c05_oracle(sc, outs):
    found = []
    mon = cl.Monitor()
    # every violation of a different kind is reported (one of a known class must not hide another that follows it in the same script)
    kinds = set()
    for e in cl.all_events(sc, outs):
        r = mon.feed(e)
        if r:
            k = r[0] if r[0].startswith(("complete-twice:", "after-complete:")) else r[0].split(":")[0]
            if k not in kinds:
                kinds.add(k)
                found.append(r)
            if len(found) >= 4:
                break
    return found


def streams_of(sc):
    """(request bytes, response bytes) offered by a script, concatenated"""
    rq, rs = b"", b""
    for l in sc:
        t = l.split(" ")
        if len(t) >= 3 and t[1] in ("play", "pump"):
            for it in t[2].split(","):
                if it[0] == ">":
                    rq += cl.unhx(it[1:])
                elif it[0] == "<":
                    rs += cl.unhx(it[1:])
        elif len(t) >= 3 and t[1] == "req":
            rq += cl.unhx(t[2])
        elif len(t) >= 3 and t[1] == "res":
            rs += cl.unhx(t[2])
    return rq, rs


def c05_attribute(sig, sc, outs):
    """map a Monitor rejection to the known finding whose call site produces exactly this pattern (else keep the raw signature)"""
    rq, rs = streams_of(sc)
    if sig.startswith(("complete-twice:", "after-complete:")):
        # the two recorded call sites finalise a transaction a second time: what arrives late is transaction_complete (and, on the CONNECT
        # path, the end-of-body marker of the response). Any other callback delivered twice or late is not one of them.
        if sig not in ("after-complete:transaction_complete", "complete-twice:transaction_complete", "after-complete:response_body_data"):
            return sig
        if b"CONNECT" in rq:
            return "S2"
        # S24: a direction ended in ERROR/STOP through a callback and an unmatched response made RES_IDLE finalise the tx again
        if any(c.rc in (ERROR, STOP) for _, c in cl.calls_of_script(sc, outs)):
            return "S24"
        return sig
    if sig.startswith("res-order:") or sig.startswith("req-order:"):
        kind, rest = sig.split(":", 1)
        name, prev = rest.split("@")
        prev = int(prev)
        if kind == "res-order":
            if name in ("response_line", "response_headers") and prev == 4:
                return "S25"       # junk before the status line was delivered as body data (response line treated as body)
            if name in ("response_body_data", "tx_response_body_data") and prev >= 5:
                return "S26"       # unexpected body after the end of the message (RES_FINALIZE)
        else:
            if name in ("request_body_data", "tx_request_body_data", "request_file_data") and prev >= 6:
                return "S26"       # unexpected body after the end of the message (REQ_FINALIZE)
    return sig


# ================================================================================================ C06

def wellformed_case(rng, opts=None, n=None):
    """one well-formed exchange with ground truth: returns dict(reqs, ress, R, S)"""
    reqs, ress, rq, rs = traffic.gen_exchange(rng, n=n, opts=opts or {"folding": False, "repeat": False, "close_delimited": True})
    return {"reqs": reqs, "ress": ress, "rq": rq, "rs": rs, "R": b"".join(rq), "S": b"".join(rs)}


def wire_body_len(m):
    """number of body bytes on the wire: identity = |body|; chunked = chunk-size lines, data, CRLFs and the last-chunk line"""
    if m.body_kind in ("cl", "close"):
        return len(m.body)
    if m.body_kind == "chunked":
        return m.wire_len
    return 0


def c06_scripts(ctx):
    rng = ctx.rng
    n = 500 if ctx.tier == "quick" else 16000
    out, meta = [], []
    for _ in range(n):
        w = wellformed_case(rng)
        # remember wire length of chunked bodies: re-render deterministically is not possible (random case of hex), so measure
        for m, raw in list(zip(w["reqs"], w["rq"])) + list(zip(w["ress"], w["rs"])):
            if m.body_kind == "chunked":
                head_end = raw.index(b"\r\n\r\n") + 4
                tail = raw[head_end:]
                # up to and including the last-chunk line "0\r\n"
                k = tail.rindex(b"\r\n0\r\n") + 5 if b"\r\n0\r\n" in tail else (3 if tail.startswith(b"0\r\n") else 0)
                m.wire_len = k
        mode_r = rng.choice(("whole", "bytes", "rand", ("cut", rng.randint(1, max(1, len(w["R"]) - 1)))))
        mode_s = rng.choice(("whole", "bytes", "rand", ("cut", rng.randint(1, max(1, len(w["S"]) - 1)))))
        items = [">" + traffic.hx(p) for p in traffic.chunkings(w["R"], rng, mode_r)] + \
                ["<" + traffic.hx(p) for p in traffic.chunkings(w["S"], rng, mode_s)]
        out.append(traffic.script(rng.choice(("respdecomp=0", "p=IDS,respdecomp=0", "p=APACHE_2,respdecomp=0")), "-", items))
        meta.append(w)
    # early responses: an Expect: 100-continue request whose body is sent in fragments while the (interim and/or final) response
    # arrives between them, followed by a pipelined request: the body must still be delivered exactly and the next message must
    # start right behind it. (A 4xx before the FIRST body byte is the documented shortcut - the client is then expected not to send
    # the body - and is not generated.)
    for _ in range(120 if ctx.tier == "quick" else 5000):
        body = bytes(rng.choice(b"abcXYZ\r\n0123 GET/HTTP:") for _ in range(rng.randint(2, 40)))
        k = rng.randint(1, len(body) - 1)
        post = traffic.Msg(); post.method = b"POST"; post.target = b"/early"; post.version = b"HTTP/1.1"; post.body = body; post.body_kind = "cl"
        get = traffic.Msg(); get.method = b"GET"; get.target = b"/next"; get.version = b"HTTP/1.1"; get.body = b""; get.body_kind = "none"
        head = b"POST /early HTTP/1.1\r\nHost: h\r\nExpect: 100-continue\r\nContent-Length: %d\r\n\r\n" % len(body)
        nxt = b"GET /next HTTP/1.1\r\nHost: h\r\n\r\n"
        st = rng.choice((b"200 OK", b"400 Bad", b"417 Expectation Failed", b"404 NF", b"201 Created"))
        rbody = rng.choice((b"", b"no"))
        r1 = traffic.Msg(); r1.body = rbody; r1.body_kind = "cl"
        r2 = traffic.Msg(); r2.body = b"k"; r2.body_kind = "cl"
        final = b"HTTP/1.1 " + st + b"\r\nContent-Length: %d\r\n\r\n" % len(rbody) + rbody
        interim = b"HTTP/1.1 100 Continue\r\n\r\n" if rng.random() < 0.5 else b""
        resp2 = b"HTTP/1.1 200 OK\r\nContent-Length: 1\r\n\r\nk"
        where = rng.choice(("mid", "mid", "after"))
        if where == "mid":
            items = [">" + traffic.hx(head)] + (["<" + traffic.hx(interim)] if interim else []) + [">" + traffic.hx(body[:k]), "<" + traffic.hx(final),
                     ">" + traffic.hx(body[k:] + nxt), "<" + traffic.hx(resp2)]
        else:
            items = [">" + traffic.hx(head)] + (["<" + traffic.hx(interim)] if interim else []) + [">" + traffic.hx(body[:k]), ">" + traffic.hx(body[k:] + nxt),
                     "<" + traffic.hx(final + resp2)]
        out.append(traffic.script(rng.choice(("respdecomp=0", "p=IDS,respdecomp=0")), "-", items, op="pump"))
        meta.append({"reqs": [post, get], "ress": [r1, r2], "rq": [head + body, nxt], "rs": [final, resp2], "R": head + body + nxt, "S": interim + final + resp2})
    # accounting part: all inputs
    acc = mixed_scripts(ctx, 300 if ctx.tier == "quick" else 12000, policy_p=0.0, tail=False,
                        cfg_fn=lambda r: r.choice(("respdecomp=0", "p=IDS,respdecomp=0")))
    # gaps inside bodies (both directions), with and without the library's own body parsers, followed by more body data
    for _ in range(100 if ctx.tier == "quick" else 4000):
        ct = rng.choice((b"application/x-www-form-urlencoded", b"multipart/form-data; boundary=B", b"text/plain"))
        body = rng.choice((b"a=1&bb=2&c=%41+d&e", b"--B\r\nContent-Disposition: form-data; name=\"f\"\r\n\r\nvalue\r\n--B--\r\n",
                           bytes(rng.choice(b"ab=&\r\n-B") for _ in range(rng.randint(6, 40)))))
        k = rng.randint(1, len(body) - 3)
        gl = rng.randint(1, min(3, len(body) - k - 1))
        head = b"POST /g HTTP/1.1\r\nHost: h\r\nContent-Type: " + ct + b"\r\nContent-Length: %d\r\n\r\n" % len(body)
        rbody = bytes(rng.choice(b"xyz\r\n") for _ in range(rng.randint(4, 20)))
        rk = rng.randint(1, len(rbody) - 2)
        items = [">" + traffic.hx(head + body[:k]), "g>%d" % gl] + [">" + traffic.hx(x) for x in traffic.chunkings(body[k + gl:], rng, rng.choice(("whole", "rand")))]
        items += ["<" + traffic.hx(b"HTTP/1.1 200 OK\r\nContent-Length: %d\r\n\r\n" % len(rbody) + rbody[:rk]), "g<1", "<" + traffic.hx(rbody[rk + 1:])]
        acc.append(traffic.script(rng.choice(("respdecomp=0,urlenc=1,mpart=1", "respdecomp=0", "p=IDS,respdecomp=0,urlenc=1", "respdecomp=0,mpart=1")), "-", items))
    acc += [s for s in lib.load_fuzz_corpus(ctx, 1500, "C06") if s[0].endswith(" -")]     # accounting: without callback policies
    return out, meta, acc


def body_events_by_tx(sc, outs):
    req, res = {}, {}
    for e in cl.all_events(sc, outs):
        if e.name == "request_body_data":
            req.setdefault(e.tx, []).append(e)
        elif e.name == "response_body_data":
            res.setdefault(e.tx, []).append(e)
    return req, res


def c06_accounting(sc, outs):
    """for every input: entity_len = bytes delivered; message_len >= entity_len when nothing is decompressed"""
    found = []
    req, res = body_events_by_tx(sc, outs)
    g, slots = cl.final_dump(sc, outs)
    for t in slots or []:
        if not t:
            continue
        uid = int(t["uid"])
        for side, evs, el, ml in (("request", req.get(uid, []), "el", "ml"), ("response", res.get(uid, []), "sel", "sml")):
            delivered = sum((len(e.data) if e.kind == "bytes" else (e.data if e.kind == "gap" else 0)) for e in evs)
            if int(t[el]) != delivered:
                sig = "entity-len"
                # S35: a gap inside a request body that the library's own urlencoded / multipart callback parses is taken for the
                # end of the body (NULL data); the callback then refuses the next piece with HTP_ERROR *after* entity_len was
                # advanced and *before* the user callbacks run. Attributed only to exactly that history: own body parser enabled,
                # a gap delivered in this body, the inbound stream in error, and more counted than delivered.
                if (side == "request" and re.search(r"\b(urlenc|mpart)=1\b", sc[0]) and any(e.kind == "gap" for e in evs)
                        and g and g.get("in_status") == "3" and int(t[el]) > delivered and int(t.get("rp", "0")) == 3):
                    sig = "S35"
                found.append((sig, "%s entity_len=%s but %d bytes were delivered to body callbacks (tx %d)" % (side, t[el], delivered, uid)))
            if int(t[ml]) < int(t[el]):
                found.append(("S9" if side == "request" else "message-len",
                              "%s message_len=%s < entity_len=%s (tx %d)" % (side, t[ml], t[el], uid)))
    return found


def make_c06_oracle(meta_by_id):
    def oracle(sc, outs):
        found = c06_accounting(sc, outs)
        w = meta_by_id.get(id(sc))
        if w is None:
            return found
        req, res = body_events_by_tx(sc, outs)
        g, slots = cl.final_dump(sc, outs)
        n = len(w["reqs"])
        if not slots or len(slots) != n:
            found.append(("tx-count", "%d transactions reported for %d exchanges" % (len(slots or []), n)))
            return found
        evs = list(cl.all_events(sc, outs))
        for i, (rq, rs, t) in enumerate(zip(w["reqs"], w["ress"], slots)):
            for side, m, be, el, ml, comp in (("request", rq, req.get(i, []), "el", "ml", "request_complete"),
                                              ("response", rs, res.get(i, []), "sel", "sml", "response_complete")):
                got = b"".join(e.data for e in be if e.kind == "bytes")
                if got != m.body:
                    found.append(("body-bytes", "%s body of tx %d: delivered %r..., sent %r..." % (side, i, got[:30], m.body[:30])))
                if m.body_kind != "none":
                    # end-of-body marker before the completion callback
                    idx_c = next((k for k, e in enumerate(evs) if e.name == comp and e.tx == i), None)
                    marker = any(e.tx == i and e.name == side + "_body_data" and e.kind == "null" for e in evs[:idx_c] if idx_c is not None)
                    if idx_c is None or not marker:
                        found.append(("no-end-marker", "%s of tx %d has a body but no end-of-body marker before %s" % (side, i, comp)))
                if int(t[el]) != len(m.body):
                    found.append(("entity-len", "%s entity_len=%s, body is %d bytes (tx %d)" % (side, t[el], len(m.body), i)))
                if int(t[ml]) != wire_body_len(m):
                    found.append(("message-len", "%s message_len=%s, %d body bytes on the wire (tx %d)" % (side, t[ml], wire_body_len(m), i)))
        return found
    return oracle


# ================================================================================================ C11

F_SMUGGLING, F_INVALID_TE, F_HOST_MISSING, F_HOST_AMBIGUOUS = 0x100, 0x400, 0x1000, 0x2000
F_HOSTU_INVALID, F_HOSTH_INVALID, F_REQUEST_INVALID, F_INVALID_CL = 0x2000000, 0x4000000, 0x100000000, 0x200000000
CODING = {"NO_BODY": 1, "IDENTITY": 2, "CHUNKED": 3, "INVALID": 4}


def spell(rng, name):
    r = rng.random()
    if r < 0.3:
        return name
    if r < 0.5:
        return name.lower()
    if r < 0.7:
        return name.upper()
    return bytes(c ^ 0x20 if (65 <= (c & ~0x20) <= 90 and rng.random() < 0.5) else c for c in name)


def ows(rng):
    return rng.choice((b" ", b"", b"  ", b"\t", b" \t "))


def hline(rng, name, value):
    return spell(rng, name) + b":" + ows(rng) + value + rng.choice((b"", b" ", b"\t")) + b"\r\n"


def c11_case(rng):
    """returns (request bytes, expectation dict, trigger name)"""
    trig = rng.choice(("te+cl", "cl-twice", "cl-folded", "chunked-1.0", "cl-unparseable", "te-unsupported", "host-differs",
                       "host-missing", "hostu-invalid", "hosth-invalid", "none", "res-te+cl", "res-cl-twice",
                       "host-port-differs", "host-header-nohost", "connect-host-differs"))
    if trig.startswith("res-"):
        return c11_response_case(rng, trig)
    version = b"HTTP/1.1"
    method = rng.choice((b"POST", b"PUT", b"GET"))
    target = b"/p?x=1"
    headers = []
    host = b"www.example.com"
    host_hdr = host
    body = b""
    exp = {"set": 0, "coding": None}
    chunked_body = b"3\r\nabc\r\n0\r\n\r\n"
    if trig == "te+cl":
        headers += [(b"Transfer-Encoding", rng.choice((b"chunked", b"Chunked", b"gzip, chunked", b"chunked ", b"  chunked,foo"))),
                    (b"Content-Length", rng.choice((b"3", b"0", b"100", b"abc")))]
        body = chunked_body
        exp = {"set": F_SMUGGLING, "coding": CODING["CHUNKED"]}
    elif trig == "cl-twice":
        a = rng.choice((b"3", b"5"))
        b_ = rng.choice((a, b"7", a + b" "))
        headers += [(b"Content-Length", a), (b"Content-Length", b_)]
        body = b"abcdefgh"[:int(a)]
        exp = {"set": F_SMUGGLING, "coding": None}
    elif trig == "cl-folded":
        headers += [(b"Content-Length", b"\r\n 3")]   # value on a continuation line
        body = b"abc"
        exp = {"set": F_SMUGGLING, "coding": None, "sig": "S4"}
    elif trig == "chunked-1.0":
        version = rng.choice((b"HTTP/1.0", b"HTTP/0.8", b"HTTP/x.y"))
        headers += [(b"Transfer-Encoding", b"chunked")]
        body = chunked_body
        exp = {"set": F_SMUGGLING | F_INVALID_TE, "coding": CODING["CHUNKED"]}
    elif trig == "cl-unparseable":
        headers += [(b"Content-Length", rng.choice((b"abc", b"x", b";", b"- -")))]
        exp = {"set": F_INVALID_CL | F_REQUEST_INVALID, "coding": CODING["INVALID"]}
    elif trig == "te-unsupported":
        headers += [(b"Transfer-Encoding", rng.choice((b"gzip", b"identity", b"chunkedx", b"xchunked", b"chun ked")))]
        exp = {"set": F_INVALID_TE | F_REQUEST_INVALID, "coding": CODING["INVALID"]}
    elif trig == "host-differs":
        target = b"http://" + host + rng.choice((b"", b":80")) + b"/p"
        host_hdr = rng.choice((b"other.example.com", b"www.example.org", host + b"x"))
        exp = {"set": F_HOST_AMBIGUOUS, "coding": None}
    elif trig == "host-port-differs":
        target = b"http://" + host + rng.choice((b":80", b":8080", b":1")) + b"/p"
        host_hdr = host + rng.choice((b":81", b":443", b":65535"))
        exp = {"set": F_HOST_AMBIGUOUS, "coding": None}
    elif trig == "host-header-nohost":
        # the Host field names no host at all (empty, blank, only a port, an unterminated IPv6 literal) while the target names one
        target = b"http://" + host + rng.choice((b"", b":80")) + b"/p"
        host_hdr = rng.choice((b"", b" ", b"\t", b"[::1", b"[", b"[1:2"))
        exp = {"set": F_HOST_AMBIGUOUS, "coding": None}
    elif trig == "connect-host-differs":
        method = b"CONNECT"
        target = host + b":443"
        host_hdr = rng.choice((b"other.example.com:443", b"www.example.org", host + b":444", b""))
        exp = {"set": F_HOST_AMBIGUOUS, "coding": None}
    elif trig == "host-missing":
        host_hdr = None
        exp = {"set": F_HOST_MISSING, "coding": None}
    elif trig == "hostu-invalid":
        bad = rng.choice((b"exa mple.com", b"a..b", b"-x_y!.com", b"host:99999", b"host:0", b"[::1", b"[gg::1]", b"a" * 64 + b".com"))
        target = b"http://" + bad + b"/p"
        host_hdr = None if rng.random() < 0.5 else b"h"
        exp = {"set": F_HOSTU_INVALID, "coding": None}
        if b" " in bad:
            # a space ends the request target: the URI host is then "exa" (valid); no indicator is due
            exp = {"set": 0, "coding": None}
    elif trig == "hosth-invalid":
        host_hdr = rng.choice((b"a..b", b"ho$t", b"host:99999", b"host:abc", b"[::1", b"[::1]x", b".", b"a" * 64))
        exp = {"set": F_HOSTH_INVALID, "coding": None}
    if host_hdr is not None:
        headers.append((b"Host", host_hdr))
    for _ in range(rng.randint(0, 3)):
        headers.append((b"X-" + traffic.rand_token(rng, 1, 5), traffic.rand_value(rng)))
    rng.shuffle(headers)
    if rng.random() < 0.15:
        # more repeated lines than the per-message repetition budget (64) in front of the trigger: the indicator is due all the same
        headers = [(b"X-Pad", b"a")] * rng.randint(65, 70) + headers
    req = method + b" " + target + b" " + version + b"\r\n"
    for n, v in headers:
        if v.startswith(b"\r\n"):
            req += spell(rng, n) + b":" + v + b"\r\n"
        else:
            req += hline(rng, n, v)
    req += b"\r\n" + body
    return req, exp, trig


def c11_response_case(rng, trig):
    """the same ambiguities on the response side (htp_connp_RES_BODY_DETERMINE)"""
    req = b"GET /r HTTP/1.1\r\nHost: www.example.com\r\n\r\n"
    headers = []
    if trig == "res-te+cl":
        headers += [(b"Transfer-Encoding", rng.choice((b"chunked", b"Chunked", b"gzip, chunked", b"chunked ", b"  chunked,foo", b"identity,chunked",
                                                       b"x chunked", b"CHUNKED"))),
                    (b"Content-Length", rng.choice((b"3", b"0", b"100", b"14")))]
        body = b"3\r\nabc\r\n0\r\n\r\n"
        exp = {"set": F_SMUGGLING, "coding": None, "res_coding": CODING["CHUNKED"], "res_entity": 3}
    else:
        a = rng.choice((b"3", b"5"))
        headers += [(b"Content-Length", a), (b"Content-Length", rng.choice((a, b"7", a + b" ")))]
        body = b"abcdefgh"[:int(a)]
        exp = {"set": F_SMUGGLING, "coding": None, "res_coding": CODING["IDENTITY"], "res_entity": None}
    for _ in range(rng.randint(0, 3)):
        headers.append((b"X-" + traffic.rand_token(rng, 1, 5), traffic.rand_value(rng)))
    rng.shuffle(headers)
    if rng.random() < 0.15:
        headers = [(b"X-Pad", b"a")] * rng.randint(65, 70) + headers
    resp = rng.choice((b"HTTP/1.1", b"HTTP/1.1", b"HTTP/1.0")) + b" 200 OK\r\n" + b"".join(hline(rng, n, v) for n, v in headers) + b"\r\n" + body
    exp["resp"] = resp
    return req, exp, trig


def c11_scripts(ctx):
    rng = ctx.rng
    n = 900 if ctx.tier == "quick" else 40000
    out, meta = [], []
    for _ in range(n):
        req, exp, trig = c11_case(rng)
        mode = rng.choice(("whole", "whole", "bytes", "rand", ("cut", rng.randint(1, len(req) - 1))))
        items = [">" + traffic.hx(p) for p in traffic.chunkings(req, rng, mode)]
        if exp.get("resp"):
            rmode = rng.choice(("whole", "whole", "bytes", "rand", ("cut", rng.randint(1, len(exp["resp"]) - 1))))
            items += ["<" + traffic.hx(p) for p in traffic.chunkings(exp["resp"], rng, rmode)]
        cfg = rng.choice(("respdecomp=0", "p=IDS,respdecomp=0", "p=APACHE_2,respdecomp=0", "p=IIS_7_5,respdecomp=0", "p=GENERIC,respdecomp=0"))
        out.append(traffic.script(cfg, "-", items))
        meta.append((exp, trig, req))
    return out, meta


def make_c11_oracle(by_id):
    def oracle(sc, outs):
        m = by_id.get(id(sc))
        if not m:
            return []
        exp, trig, req = m
        g, slots = cl.final_dump(sc, outs)
        if not slots or not slots[0]:
            return [("no-tx", "no transaction reported for trigger %s" % trig)]
        t = slots[0]
        flags = int(t["flags"])
        found = []
        if (flags & exp["set"]) != exp["set"]:
            found.append((exp.get("sig", "flag-missing:" + trig),
                          "trigger %s: flags=%#x lack %#x; request %r" % (trig, flags, exp["set"] & ~flags, req[:120])))
        if exp["coding"] is not None and int(t["tc"]) != exp["coding"]:
            found.append(("coding:" + trig, "trigger %s: transfer coding %s, expected %d" % (trig, t["tc"], exp["coding"])))
        if exp.get("res_coding") is not None and int(t["stc"]) != exp["res_coding"]:
            found.append(("coding:" + trig, "trigger %s: response transfer coding %s, expected %d; response %r" % (
                trig, t["stc"], exp["res_coding"], exp["resp"][:120])))
        if exp.get("res_entity") is not None and int(t["sel"]) != exp["res_entity"]:
            found.append(("framing:" + trig, "trigger %s: %s response body bytes delivered, the chunked coding carries %d" % (
                trig, t["sel"], exp["res_entity"])))
        return found
    return oracle


# ================================================================================================ C16

HTTP_PAYLOADS = [b"GET /after1 HTTP/1.1\r\nHost: a\r\n\r\n", b"POST /after2 HTTP/1.1\r\nHost: a\r\nContent-Length: 3\r\n\r\nabc",
                 b"GET /a1 HTTP/1.1\r\nHost: a\r\n\r\nGET /a2 HTTP/1.0\r\n\r\n"]
BIN_PAYLOADS = [b"\x16\x03\x01\x02\x00\x01\x00\x01\xfc\x03\x03" + bytes(range(40, 90)), b"\x00\x01\x02binary\r\n\r\nmore\r\n", b"SSH-2.0-x\r\nfoo",
                b"\xff" * 12 + b"\x00" + b"\xff" * 17]   # the probe decides at the first LF or NUL (a payload with neither is buffered)


def c16_case(rng):
    st = rng.choice((200, 200, 204, 101, 407, 403, 500, 302))
    kind = rng.choice(("http", "bin")) if st != 101 else rng.choice(("bin", "http"))
    upgrade = (st == 101)
    if upgrade:
        head = b"GET /chat HTTP/1.1\r\nHost: s\r\nUpgrade: websocket\r\nConnection: Upgrade\r\n\r\n"
    else:
        head = b"CONNECT " + rng.choice((b"host.example:443", b"10.0.0.1:8080", b"[::1]:443")) + b" HTTP/1.1\r\n" + \
               rng.choice((b"", b"Host: host.example:443\r\n", b"Proxy-Authorization: Basic dTpw\r\n")) + b"\r\n"
    payload = rng.choice(HTTP_PAYLOADS if kind == "http" else BIN_PAYLOADS)
    reason = {200: b"Connection established", 204: b"No Content", 101: b"Switching Protocols", 407: b"Proxy Authentication Required",
              403: b"Forbidden", 500: b"Server Error", 302: b"Found"}[st]
    resp = b"HTTP/1.1 %d " % st + reason + b"\r\n"
    rbody = b""
    if st in (407, 403, 500, 302):
        rbody = rng.choice((b"", b"denied"))
        resp += b"Content-Length: %d\r\n" % len(rbody)
    if upgrade:
        resp += b"Upgrade: websocket\r\nConnection: Upgrade\r\n"
    resp += b"\r\n" + rbody
    # what the server sends next
    if st // 100 == 2 or upgrade:
        after = rng.choice((b"", b"\x17\x03\x03serverbinary", b"\x81\x02hi")) if kind == "bin" else \
            b"".join(b"HTTP/1.1 200 OK\r\nContent-Length: 2\r\n\r\nok" for _ in range(payload.count(b"HTTP/1.")))
    else:
        after = b"".join(b"HTTP/1.1 200 OK\r\nContent-Length: 2\r\n\r\nok" for _ in range(payload.count(b"HTTP/1."))) if kind == "http" else b""
    return {"status": st, "kind": kind, "head": head, "payload": payload, "resp": resp, "after": after, "upgrade": upgrade}


def c16_scripts(ctx):
    rng = ctx.rng
    n = 700 if ctx.tier == "quick" else 30000
    out, meta = [], []
    for _ in range(n):
        w = c16_case(rng)
        R = w["head"] + w["payload"]
        S = w["resp"] + w["after"]
        cutmode = rng.random()
        if cutmode < 0.4:
            # cut positions around the end of the CONNECT head
            k = len(w["head"]) + rng.randint(-3, 3)
            k = min(max(k, 1), len(R) - 1) if len(R) > 1 else 1
            rp = [p for p in (R[:k], R[k:]) if p]
        else:
            rp = traffic.chunkings(R, rng, rng.choice(("whole", "rand", "bytes")))
        sp = traffic.chunkings(S, rng, rng.choice(("whole", "rand", "bytes", "whole")))
        order = rng.random()
        if w["upgrade"]:
            order = 0.5     # a client sends frames of the new protocol only after it has seen the 101
        if order < 0.45:
            items = [">" + traffic.hx(p) for p in rp] + ["<" + traffic.hx(p) for p in sp]
        elif order < 0.6:
            # head first, then the response, then the payload
            hp = [p for p in (w["head"],) if p]
            items = [">" + traffic.hx(w["head"])] + ["<" + traffic.hx(p) for p in sp] + [">" + traffic.hx(p) for p in traffic.chunkings(w["payload"], rng, "rand")]
        else:
            # legal interleaving: the CONNECT head is offered before any response byte
            first = [">" + traffic.hx(rp[0])] if rp else []
            rest = traffic.interleave(rp[1:], sp, rng)
            items = first + rest
            if len(rp[0]) < len(w["head"]):
                items = [">" + traffic.hx(p) for p in rp] + ["<" + traffic.hx(p) for p in sp]
        if w["upgrade"] and rng.random() < 0.12:
            # S44: an HTTP/0.9 request line pipelined behind the upgrade request leaves the request side without a transaction
            # (REQ_IGNORE_DATA_AFTER_HTTP_0_9); the 101 then puts both directions in tunnel mode
            w = dict(w, zero9=True)
            items = [">" + traffic.hx(w["head"] + b"GET /\n")] + ["<" + traffic.hx(p) for p in sp] + \
                    [">" + traffic.hx(p) for p in traffic.chunkings(w["payload"] or b"\x81\x02hi", rng, "rand")]
        extra = ["conn dump"]
        if rng.random() < 0.3:
            # the client half-closes (htp_connp_req_close touches the request direction only), the server goes on sending: a response
            # direction that was in tunnel mode stays there - silent, TUNNEL - whatever the bytes look like
            extra += ["conn reqclose"] + ["conn res " + traffic.hx(x) for x in rng.sample(
                (b"\x00\x01server bytes\r\n", b"HTTP/1.1 200 OK\r\nContent-Length: 0\r\n\r\n", b"\r\n", b"more"), rng.randint(1, 3))]
        out.append(traffic.script(rng.choice(("respdecomp=0", "p=IDS,respdecomp=0", "respdecomp=0,autodestroy=0")), "-", items,
                                  extra_after=extra))
        meta.append(w)
    return out, meta


def make_c16_oracle(by_id):
    def oracle(sc, outs):
        w = by_id.get(id(sc))
        if not w:
            return []
        found = []
        calls = [c for _, c in cl.calls_of_script(sc, outs)]
        g, slots = cl.first_dump(sc, outs)      # state after all data, before close
        # (a) nothing beyond the CONNECT request is consumed before its response line was seen
        seen_resp_line = False
        consumed_req = 0
        if not w["upgrade"]:
            for c in calls:
                if c.dir == "req":
                    if not seen_resp_line:
                        for e in c.events:
                            if e.name == "request_start" and e.tx >= 1:
                                found.append(("not-suspended", "request %d started before the response to CONNECT was seen" % e.tx))
                            if e.name == "request_body_data" and e.kind == "bytes" and len(e.data):
                                found.append(("not-suspended", "body data delivered on the request side before the response to CONNECT"))
                        consumed_req += c.consumed if c.rc in (DATA, DATA_OTHER) else 0
                        if consumed_req > len(w["head"]) and not seen_resp_line:
                            found.append(("consumed-beyond-connect", "request side consumed %d bytes, CONNECT head is %d" % (consumed_req, len(w["head"]))))
                for e in c.events:
                    if e.name == "response_line" and e.tx == 0:
                        seen_resp_line = True
        # (b) tunnel mode is absorbing and silent
        tun = False
        ntx_events = 0
        for c in calls:
            if tun and c.dir == "close" and (c.events or c.rc != TUNNEL or c.rc2 != TUNNEL):
                found.append(("S8-tunnel", "close after tunnel mode: statuses %s,%s, %d callbacks" % (c.rc, c.rc2, len(c.events))))
            if tun and c.dir in ("req", "res"):
                if c.rc != TUNNEL:
                    s44 = w.get("zero9") and c.dir == "req" and c.rc == 3
                    found.append(("S44" if s44 else "tunnel-left", "%s returned %d after tunnel mode was entered" % (c.dir, c.rc)))
                if c.events:
                    found.append(("tunnel-callbacks", "%d callbacks after tunnel mode was entered" % len(c.events)))
            if c.rc == TUNNEL:
                tun = True
        want_tunnel = (w["status"] // 100 == 2 and not w["upgrade"] and w["kind"] == "bin") or (w["upgrade"])
        if g and want_tunnel:
            if not (g.get("in_status") == "4" and g.get("out_status") == "4"):
                # S32: the server spoke first inside the tunnel: its bytes were taken for a response without request, which
                # re-targets the waiting request direction (REQ_FINALIZE on a new transaction) so that the probe never runs
                server_first = len(w["after"]) > 0 and not w["upgrade"] and any(
                    e.name == "response_start" and e.tx >= 1 for c in calls for e in c.events)
                found.append(("S44" if (w.get("zero9") and g.get("in_status") == "3" and g.get("out_status") == "4") else
                              "S32" if server_first else "no-tunnel", "status %d + %s payload: final statuses in=%s out=%s, tunnel expected" % (
                    w["status"], w["kind"], g.get("in_status"), g.get("out_status"))))
        # (c) refused CONNECT / 2xx with HTTP payload: the payload requests are parsed exactly once, in order
        if g and not w["upgrade"] and w["kind"] == "http" and not want_tunnel:
            lines = [l for l in w["payload"].split(b"\r\n") if l.endswith(b"HTTP/1.1") or l.endswith(b"HTTP/1.0")]
            got = [cl.unhx(t["line"]) for t in slots if t and t.get("line") not in (None, "~")]
            want = [w["head"].split(b"\r\n")[0]] + lines
            if got != want:
                found.append(("resume", "request lines %r, expected %r" % (got, want)))
            elif cl.play_requests_first(sc):
                # (only when every request byte was offered before the first response byte: otherwise the server's answers can
                # legitimately arrive before the requests they answer)
                # no transaction beyond those requests (a response parsed "without request" would add one), and every inner request
                # got the response that was sent for it
                live = [t for t in slots if t]
                if len(live) != len(want):
                    found.append(("resume", "%d transactions for %d requests (a response was taken for one without request)" % (len(live), len(want))))
                elif w["after"]:
                    sns = [int(t.get("sn", -1)) for t in live[1:]]
                    if any(x != 200 for x in sns):
                        found.append(("resume", "responses of the requests after CONNECT: status numbers %r, 200 was sent for each" % sns))
        return found
    return oracle


# ================================================================================================ C04

def c04_scripts(ctx):
    rng = ctx.rng
    n = 600 if ctx.tier == "quick" else 25000
    out, meta = [], []
    for _ in range(n):
        N = rng.choice((1, 2, 2, 3, 3, 4, rng.randint(1, 8)))
        reqs, ress, rq, rs = traffic.gen_exchange(rng, n=N, opts={"folding": False, "repeat": False, "close_delimited": True})
        # some exchanges become refused CONNECTs (the connection stays HTTP): the request side suspends at each of them until
        # the response side has seen the status, so pairing under pipelining also depends on the hand-over between the directions
        has_connect = False
        if N >= 2 and rng.random() < 0.3:
            for i in range(N):
                if rng.random() < 0.5 and (i < N - 1 or ress[i].headers):
                    has_connect = True
                    reqs[i].method = b"CONNECT"
                    reqs[i].target = b"h%d.example:443" % i
                    rq[i] = b"CONNECT h%d.example:443 HTTP/1.1\r\nHost: h%d.example:443\r\n\r\n" % (i, i)
                    rs[i] = b"HTTP/1.1 %s\r\nX-Id: id%d\r\nContent-Length: 0\r\n\r\n" % (rng.choice((b"403 Forbidden", b"407 Auth", b"500 Err")), i)
        # interim 100 responses in front of some final responses (same chunk when the message is delivered whole): the transaction must
        # still get ITS final response, and the next one the next
        for i in range(N):
            if rng.random() < 0.25 and not (has_connect and reqs[i].method == b"CONNECT"):
                rs[i] = rng.choice((b"HTTP/1.1 100 Continue\r\n\r\n", b"HTTP/1.1 100 Continue\r\nX-I: 1\r\n\r\n")) * rng.choice((1, 1, 2)) + rs[i]
        # pieces per message, then a legal merge: response i only after the whole of request i
        rpieces = [traffic.chunkings(x, rng, rng.choice(("whole", "whole", "rand"))) for x in rq]
        spieces = [traffic.chunkings(x, rng, rng.choice(("whole", "whole", "rand"))) for x in rs]
        seq = []            # (dir, msg index, piece)
        ri = [0, 0]         # next request message / piece
        si = [0, 0]
        req_done = 0
        while ri[0] < N or si[0] < N:
            can_res = si[0] < N and (si[0] < req_done)
            can_req = ri[0] < N
            if can_req and (not can_res or rng.random() < 0.5):
                p = rpieces[ri[0]][ri[1]]
                seq.append((">", ri[0], ri[1] == 0, p))
                ri[1] += 1
                if ri[1] == len(rpieces[ri[0]]):
                    ri = [ri[0] + 1, 0]
                    req_done = ri[0]
            elif can_res:
                p = spieces[si[0]][si[1]]
                seq.append(("<", si[0], si[1] == 0, p))
                si[1] += 1
                if si[1] == len(spieces[si[0]]):
                    si = [si[0] + 1, 0]
            else:
                break
        # ground truth for the pipelining indicator: a request starts while fewer responses than earlier requests have begun
        res_started = 0
        pipelined = False
        for d, i, first, p in seq:
            if d == "<" and first:
                res_started += 1
            if d == ">" and first and i > res_started:
                pipelined = True
        items = [d + traffic.hx(p) for d, i, first, p in seq]
        out.append(traffic.script(rng.choice(("respdecomp=0", "p=IDS,respdecomp=0")), "-", items, op="pump" if has_connect else "play"))
        # with a suspended CONNECT the library itself decides when the held-back request is started, so the wire schedule is no
        # ground truth for the pipelining indicator there (the indicator is still compared with the model by the correspondence)
        meta.append({"N": N, "pipelined": None if has_connect else pipelined, "reqs": reqs})
    # keep-alive connections on which the application destroys finished transactions and tells the parser so (htp_connp_tx_freed):
    # the transaction list shrinks, even to nothing, and later exchanges must still be paired - judged on the callback log, because
    # the transactions themselves are gone by the end
    for _ in range(60 if ctx.tier == "quick" else 2500):
        N = rng.randint(2, 9)
        sc = ["conn new respdecomp=0,autodestroy=1 -", "conn open"]
        i = 0
        while i < N:
            k = rng.choice((1, 1, 1, 2, 3))          # k requests, then their k responses, then (mostly) tx_freed
            k = min(k, N - i)
            for j in range(i, i + k):
                sc.append("conn req " + traffic.hx(b"GET /k?id%d HTTP/1.1\r\nHost: h\r\n\r\n" % j))
            for j in range(i, i + k):
                sc.append("conn res " + traffic.hx(b"HTTP/1.1 200 OK\r\nX-Id: id%d\r\nContent-Length: 1\r\n\r\nx" % j))
                if rng.random() < 0.8:
                    sc.append("conn txfreed")
            i += k
        sc += ["conn dump", "conn close", "conn destroy"]
        out.append(sc)
        meta.append({"N": N, "freed": True})
    return out, meta


def make_c04_oracle(by_id):
    def oracle(sc, outs):
        w = by_id.get(id(sc))
        if not w:
            return []
        if w.get("freed"):
            # i-th response_line must be delivered for the transaction that delivered the i-th request_line; N transactions in all
            rq_u = [e.tx for e in cl.all_events(sc, outs) if e.name == "request_line"]
            rs_u = [e.tx for e in cl.all_events(sc, outs) if e.name == "response_line"]
            found = []
            if len(rq_u) != w["N"] or len(set(rq_u)) != w["N"]:
                found.append(("tx-count", "%d request lines on %d transactions for %d requests" % (len(rq_u), len(set(rq_u)), w["N"])))
            if rs_u != rq_u[:len(rs_u)] or len(rs_u) != w["N"]:
                found.append(("pairing", "responses were delivered for transactions %s, the requests were %s" % (rs_u, rq_u)))
            return found
        g, slots = cl.final_dump(sc, outs)
        found = []
        if not g:
            return [("no-dump", "no dump")]
        if len(slots) != w["N"]:
            return [("tx-count", "%d transactions for %d exchanges" % (len(slots), w["N"]))]
        for i, t in enumerate(slots):
            if not t:
                found.append(("tx-missing", "slot %d empty" % i)); continue
            uri = cl.unhx(t["uri"]) if t["uri"] != "~" else b""
            want_id = b"id%d" % i
            # the request generator puts ?idN in the target unless it already had a query: fall back to order of request lines
            hdrs = dict((n.lower(), v) for n, v, f in cl.headers_of(t, "sh"))
            if hdrs.get(b"x-id") != want_id:
                found.append(("pairing", "transaction %d carries response %r" % (i, hdrs.get(b"x-id"))))
            if cl.unhx(t["m"]) != w["reqs"][i].method or uri != w["reqs"][i].target:
                found.append(("order", "transaction %d carries request %r %r, expected %r %r" % (i, cl.unhx(t["m"]), uri, w["reqs"][i].method, w["reqs"][i].target)))
        pip = (int(g.get("conn_flags", "0")) & 1) != 0
        if w["pipelined"] is not None and pip != w["pipelined"]:
            found.append(("pipelined-flag", "pipelining indicator %s, schedule says %s" % (pip, w["pipelined"])))
        return found
    return oracle


RULES = {
    "C16": "CONNECT / Upgrade exchanges x status {200,204,101,407,403,500,302} x payload {HTTP requests, binary} x feed order (request first, "
           "head-response-payload, legal interleavings) x cuts around the end of the CONNECT head, 1-byte, random; distinct = distinct final dumps",
    "C04": "N in 1..8 tagged well-formed exchanges (unique ids in URI and response header), message-wise legal interleavings (a response is "
           "offered only after the whole request it answers), random chunkings; distinct = distinct final dumps",
}


# ================================================================================================ C10

def c10_scripts(ctx):
    """every data call is followed by a dump so that what is retained BETWEEN calls can be examined"""
    rng = ctx.rng
    n = 260 if ctx.tier == "quick" else 2500
    out, meta = [], []
    for _ in range(n):
        hard = rng.choice((1, 2, 17, 100, 100, 18000))
        maxtx = rng.choice((0, 0, 1, 2, 5))
        kind = rng.choice(("longline", "folds", "repeats", "manytx", "mixed", "chunkline", "resline", "pipefreed"))
        if len(out) in (7, 19):
            kind = "bigfold"      # exactly two per run: they are expensive
        if kind == "pipefreed":
            # pipelined requests, responses one by one, htp_connp_tx_freed after each completion, dump after every step (model-corresponded)
            k = rng.randint(2, 4)
            cfgs = "respdecomp=0,autodestroy=1,log=0" + (",maxtx=%d" % maxtx if maxtx else "")
            rq = b"GET /pf HTTP/1.1\r\nHost: h\r\n\r\n"
            rs = b"HTTP/1.1 200 OK\r\nContent-Length: 1\r\n\r\nx"
            sc = ["conn new %s -" % cfgs, "conn open"]
            for _r in range(rng.randint(2, 5)):
                sc += ["conn req " + traffic.hx(rq * k), "conn dump"]
                for _j in range(k):
                    sc += ["conn res " + traffic.hx(rs), "conn txfreed", "conn dump"]
            sc += ["conn close", "conn dump", "conn destroy"]
            out.append(sc); meta.append({"hard": 18000, "maxtx": maxtx})
            continue
        R = b""
        S = b""
        if kind == "longline":
            R = b"GET /" + b"a" * rng.choice((hard - 8, hard, hard + 1, hard * 2 + 3, 50)) + b" HTTP/1.1\r\nHost: h\r\n\r\n"
            S = b"HTTP/1.1 200 " + b"r" * rng.choice((hard, hard + 5, 10)) + b"\r\nContent-Length: 0\r\n\r\n"
        elif kind == "folds":
            k = rng.choice((1, 3, 40, 300))
            R = b"GET / HTTP/1.1\r\nHost: h\r\nX-F: a" + b"".join(b"\r\n " + b"f" * rng.randint(1, 30) for _ in range(k)) + b"\r\n\r\n"
            S = b"HTTP/1.1 200 OK\r\nX-F: a" + b"".join(b"\r\n\t" + b"g" * rng.randint(1, 30) for _ in range(k)) + b"\r\nContent-Length: 0\r\n\r\n"
        elif kind == "bigfold":
            # a folded header that grows past the documented cap of 102400 bytes: it must stop growing (by at most the line that crosses it)
            hard = 1000000      # the hard limit counts the pending folded header too: it must not be what stops the growth here
            ll = rng.choice((6000, 9000))
            k = rng.choice((40, 50))
            side = "req" if len(out) == 7 else "res"
            R = b"GET / HTTP/1.1\r\nHost: h\r\nX-F: a" + (b"".join(b"\r\n " + b"f" * ll for _ in range(k)) if side != "res" else b"") + b"\r\n\r\n"
            S = b"HTTP/1.1 200 OK\r\nX-F: a" + (b"".join(b"\r\n\t" + b"g" * ll for _ in range(k)) if side != "req" else b"") + b"\r\nContent-Length: 0\r\n\r\n"
        elif kind == "repeats":
            k = rng.choice((2, 10, 70, 200))
            R = b"GET / HTTP/1.1\r\nHost: h\r\n" + b"".join(rng.choice((b"X-R", b"x-r", b"X-Q")) + b": v%d\r\n" % i for i in range(k)) + b"\r\n"
            S = b"HTTP/1.1 200 OK\r\n" + b"".join(b"Set-X: c%d\r\n" % i for i in range(k)) + b"Content-Length: 0\r\n\r\n"
        elif kind == "manytx":
            k = rng.randint(1, 12)
            R = b"".join(b"GET /%d HTTP/1.1\r\nHost: h\r\n\r\n" % i for i in range(k))
            S = b"".join(b"HTTP/1.1 200 OK\r\nContent-Length: 1\r\n\r\nx" for i in range(rng.randint(0, k)))
        elif kind == "chunkline":
            R = b"POST / HTTP/1.1\r\nHost: h\r\nTransfer-Encoding: chunked\r\n\r\n" + b"0" * rng.choice((1, hard, hard + 2)) + b"3;ext=" + \
                b"e" * rng.choice((1, hard + 1)) + b"\r\nabc\r\n0\r\n\r\n"
            S = b"HTTP/1.1 200 OK\r\nTransfer-Encoding: chunked\r\n\r\n" + b" " * rng.choice((0, hard + 3)) + b"3\r\nabc\r\n0\r\n\r\n"
        elif kind == "resline":
            R = b"GET / HTTP/1.1\r\nHost: h\r\n\r\n"
            S = b"HTTP/1.1 200 OK\r\nX-L: " + b"v" * rng.choice((hard - 6, hard + 1, 3 * hard)) + b"\r\nContent-Length: 0\r\n\r\n"
        else:
            reqs, ress, rq, rs = traffic.gen_exchange(rng, opts=OPTS)
            R, S = traffic.mutate(b"".join(rq), rng), traffic.mutate(b"".join(rs), rng)
        if kind == "bigfold":
            # a few large pieces (one call per line would be 40 calls; byte-wise delivery of 300 kB is pointless here)
            # (pieces of about 1 kB: the list-based model indexes into the chunk, large chunks make it quadratic)
            def few(data):
                out_, pos = [], 0
                while pos < len(data):
                    n_ = rng.randint(500, 1500)
                    out_.append(data[pos:pos + n_]); pos += n_
                return out_
            rp, sp = few(R), few(S)
        else:
            rp = traffic.chunkings(R, rng, rng.choice(("rand", "rand", "bytes", ("cut", rng.randint(1, max(1, len(R) - 1))))))
            sp = traffic.chunkings(S, rng, rng.choice(("rand", "rand", "bytes", "whole")))
        if len(rp) + len(sp) > 400 and kind != "bigfold":
            rp = traffic.chunkings(R, rng, "rand"); sp = traffic.chunkings(S, rng, "rand")
        cfg = "respdecomp=0,hard=%d,soft=%d" % (hard, max(hard // 2, 1)) + (",maxtx=%d" % maxtx if maxtx else "")
        sc = ["conn new %s -" % cfg, "conn open"]
        every = kind != "bigfold"      # the 100 kB headers make every dump expensive: one dump at the end for those
        for p in rp:
            sc += ["conn req " + traffic.hx(p)] + (["conn dump"] if every else [])
        for p in sp:
            sc += ["conn res " + traffic.hx(p)] + (["conn dump"] if every else [])
        sc += ["conn close", "conn dump", "conn destroy"]
        out.append(sc)
        meta.append({"hard": hard, "maxtx": maxtx, "kind": kind, "maxline": (ll + 4) if kind == "bigfold" else None})
    return out, meta


MAX_REPS = 64
MAX_FOLDED = 102400


def make_c10_oracle(by_id):
    def oracle(sc, outs):
        w = by_id.get(id(sc))
        if not w:
            return []
        found = []
        last_rc = {"req": None, "res": None}
        for line, out in zip(sc, outs):
            t = line.split(" ")
            if t[1] in ("req", "res"):
                c = cl.parse_single(out)
                last_rc[t[1]] = c.rc if c else None
            if t[1] != "dump":
                continue
            g, slots = cl.parse_dump(out)
            for side, key, hk in (("req", "in_buf", "in_hdr"), ("res", "out_buf", "out_hdr")):
                v = g.get(key)
                if v not in (None, "~") and int(v) > w["hard"]:
                    found.append(("retained-over-hard", "%s=%s bytes retained between calls with field_limit_hard=%d" % (key, v, w["hard"])))
                hv = g.get(hk)
                slack = w["maxline"] if w.get("maxline") else w["hard"] + 70000
                if hv not in (None, "~") and int(hv) > MAX_FOLDED + slack:
                    found.append(("folded-over-cap", "%s=%s bytes: the pending folded header exceeds the cap of %d by more than one line (%d)" % (hk, hv, MAX_FOLDED, slack)))
            if w["maxtx"] and int(g["ntx"]) > w["maxtx"] + 1:
                found.append(("over-max-tx", "%s transactions held with max_tx=%d" % (g["ntx"], w["maxtx"])))
            for t_ in slots:
                if t_ and (int(t_["rep"]) > MAX_REPS or int(t_["srep"]) > MAX_REPS):
                    found.append(("over-repetitions", "repetition counters %s/%s" % (t_["rep"], t_["srep"])))
                if t_ and w.get("maxline"):
                    for hk2 in ("rh", "sh"):
                        for n_, v_, f_ in cl.headers_of(t_, hk2):
                            if len(v_) > MAX_FOLDED + w["maxline"]:
                                found.append(("folded-over-cap", "a %s header assembled from folded lines holds %d bytes: cap %d + one line (%d)" % (
                                    "request" if hk2 == "rh" else "response", len(v_), MAX_FOLDED, w["maxline"])))
        return found
    return oracle


def c10_steady_state(ctx):
    """harness-only: live heap after every 100 transactions with auto-destroy, logging off and htp_connp_tx_freed()"""
    n = 1000 if ctx.tier == "quick" else 10000
    sc = ["conn new respdecomp=0,autodestroy=1,log=0 -", "conn open"]
    req = traffic.hx(b"GET /steady?a=1 HTTP/1.1\r\nHost: h\r\nX-A: b\r\nCookie: c=d\r\n\r\n")
    res = traffic.hx(b"HTTP/1.1 200 OK\r\nContent-Length: 5\r\nX-B: c\r\n\r\nhello")
    for i in range(n):
        sc += ["conn req " + req, "conn res " + res, "conn txfreed"]
        if i % 100 == 99:
            sc.append("conn mem")
    sc += ["conn close", "conn destroy"]
    co, ce, rc = lib.run_c(ctx.corr, sc)
    mems = [int(o[4:]) for l, o in zip(sc, co) if l == "conn mem" and o.startswith("mem=")]
    found = []
    if rc != 0 or len(mems) < 3:
        found.append(("steady-run-failed", "harness rc=%s, %d samples" % (rc, len(mems))))
    elif mems[-1] > mems[1]:
        found.append(("memory-grows", "live heap %d bytes after 200 transactions, %d after %d" % (mems[1], mems[-1], n)))
    # the same with pipelining: three requests outstanding, responses one by one, freed slots recycled after every completion
    sc2 = ["conn new respdecomp=0,autodestroy=1,log=0 -", "conn open"]
    rounds = n // 3
    for i in range(rounds):
        sc2 += ["conn req " + req * 3]
        for _ in range(3):
            sc2 += ["conn res " + res, "conn txfreed"]
        if i % 40 == 39:
            sc2 += ["conn mem", "conn dump"]
    sc2 += ["conn close", "conn destroy"]
    co2, ce2, rc2 = lib.run_c(ctx.corr, sc2)
    mems2 = [int(o[4:]) for l, o in zip(sc2, co2) if l == "conn mem" and o.startswith("mem=")]
    ntx = [int(cl.parse_dump(o)[0].get("ntx", -1)) for l, o in zip(sc2, co2) if l == "conn dump"]
    if rc2 != 0 or len(mems2) < 3:
        found.append(("steady-run-failed", "pipelined: harness rc=%s, %d samples" % (rc2, len(mems2))))
    else:
        if mems2[-1] > mems2[1]:
            found.append(("memory-grows", "pipelined: live heap %d bytes after 240 transactions, %d after %d" % (mems2[1], mems2[-1], rounds * 3)))
        if max(ntx) > 4:
            found.append(("slots-grow", "pipelined: the connection holds %d transaction slots after %d transactions with at most 3 outstanding" % (
                max(ntx), rounds * 3)))
    return found, {"steady_state_transactions": n, "steady_state_live_heap_samples": mems[:3] + mems[-2:],
                   "pipelined_steady_state_transactions": rounds * 3, "pipelined_live_heap_samples": mems2[:3] + mems2[-2:],
                   "pipelined_slots_held": ntx[:2] + ntx[-2:]}


RULES["C10"] = ("hard limit in {1,2,17,100,18000} x max_tx in {0,1,2,5} x families (long request/status/header lines around the limit, "
                "k folded lines, k repeated names, k pipelined transactions, long chunk-size lines, mutated exchanges) x chunkings, with a dump of "
                "the private sizes after EVERY call; plus a 1000/10000-transaction steady-state run measuring the live heap; distinct = distinct final dumps")


# ================================================================================================ C03

MULTI_PACKET_HEAD = 0x800


def canonical_run(sc, outs):
    """what C03 compares between two chunkings: the dump (multi-packet-head indicator masked) and the merged callback sequence"""
    g, slots = cl.final_dump(sc, outs)
    txs = []
    for t in slots or []:
        if t is None:
            txs.append(None)
            continue
        d = dict(t)
        d["flags"] = str(int(d["flags"]) & ~MULTI_PACKET_HEAD)
        txs.append(tuple(sorted(d.items())))
    evs = []
    rawdata = {}      # raw header/trailer data per (hook, tx): compared as byte streams, not as positions in the sequence
    open_idx = {}     # (hook, tx) -> index of the data event still open for merging (several data hooks may interleave)
    fevs = []
    for e in cl.all_events(sc, outs):
        raw = e.name.endswith("_header_data") or e.name.endswith("_trailer_data")
        if raw:
            if e.kind == "bytes":
                rawdata[(e.name, e.tx)] = rawdata.get((e.name, e.tx), b"") + e.data
            continue
        if e.name == "request_file_data":
            # the FILE_DATA stream of a multipart upload is a data stream of its own (bytes and end-of-file markers, in order): where
            # its calls fall between the REQUEST_BODY_DATA calls depends on the segmentation by construction, as for any two data hooks
            if e.kind == "bytes" and fevs and fevs[-1][0] == "bytes" and fevs[-1][2] == e.tx:
                fevs[-1] = ("bytes", fevs[-1][1] + e.data, e.tx)
            elif e.kind == "bytes":
                if len(e.data):
                    fevs.append(("bytes", e.data, e.tx))
            else:
                fevs.append((e.kind, e.data, e.tx))
            continue
        if e.kind == "bytes":
            if len(e.data) == 0:
                continue
            key = (e.name, e.tx)
            if key in open_idx:
                i = open_idx[key]
                evs[i] = (e.name, e.tx, "bytes", evs[i][3] + e.data, evs[i][4], evs[i][5])
                continue
            open_idx[key] = len(evs)
            evs.append((e.name, e.tx, "bytes", e.data, e.rp, e.sp))
        else:
            open_idx = {}
            evs.append((e.name, e.tx, e.kind, e.data, e.rp, e.sp))
    evs.append(("raw", tuple(sorted(rawdata.items()))))
    evs.append(("file", tuple(fevs)))
    head = None
    if g:
        head = tuple((k, g[k]) for k in ("ntx", "in_state", "out_state", "in_status", "out_status", "conn_flags", "in_ctr", "out_ctr"))
    # raw data events: concatenate per (hook, tx)
    return head, tuple(txs), tuple(evs)


def res_cut_labels(S, starts, k):
    """known-finding classes of a cut position k in the response stream (pieces S[:k] | S[k:]). S1, S14 and S15 used to be
    attributed here; all three are repaired in /repo, so a difference at those cuts is an unlisted violation again."""
    return set()


def c03_scripts(ctx):
    rng = ctx.rng
    nex = 14 if ctx.tier == "quick" else 120
    out, meta = [], []
    opts = {"folding": True, "repeat": True, "urlenc_bodies": True, "close_delimited": True}
    import mpgen
    for ei in range(nex):
        reqs, ress, rq, rs = traffic.gen_exchange(rng, n=rng.choice((1, 2, 3)), opts=opts)
        cfg = rng.choice(("respdecomp=0,urlenc=1", "p=IDS,respdecomp=0,urlenc=1", "p=APACHE_2,respdecomp=0"))
        if ei % 3 == 2:
            # a multipart/form-data upload with the multipart handler on: parts, parameters and FILE_DATA calls are part of the parse
            for _try in range(40):
                ct, body, _truth = mpgen.gen_wellformed(rng, max_parts=2, small=True)
                # at least one part, and CRLF line ends in three of four uploads (the common form)
                if _truth["parts"] and (_truth["nl"] == b"\r\n" or ei % 16 == 15):
                    break
            rq = [b"POST /up?a=1 HTTP/1.1\r\nHost: h\r\nContent-Type: " + ct + b"\r\nContent-Length: %d\r\n\r\n" % len(body) + body]
            rs = [b"HTTP/1.1 200 OK\r\nContent-Length: 2\r\n\r\nok"]
            cfg = "respdecomp=0,urlenc=1,mpart=1"
        if ei % 7 == 3:
            # chunked bodies in both directions whose chunk-size lines carry long extensions: a cut inside an extension leaves eight or
            # more non-hex bytes of the line in the next chunk (S41, repaired: the response probe took them for leading junk)
            def chunked_ext(body):
                o = b""
                for piece in traffic.split_chunks(rng, body):
                    o += b"%x" % len(piece) + b"".join(b";" + traffic.rand_token(rng, 1, 5) + b"=" + traffic.rand_token(rng, 6, 14)
                                                      for _ in range(rng.randint(1, 2))) + b"\r\n" + piece + b"\r\n"
                return o + b"0\r\n\r\n"
            rq = [b"POST /c HTTP/1.1\r\nHost: h\r\nTransfer-Encoding: chunked\r\n\r\n" + chunked_ext(b"request body %d " % ei * rng.randint(1, 3))]
            rs = [b"HTTP/1.1 200 OK\r\nTransfer-Encoding: chunked\r\n\r\n" + chunked_ext(b"response body %d " % ei * rng.randint(1, 3))]
        R, S = b"".join(rq), b"".join(rs)
        starts = [sum(len(x) for x in rs[:i]) for i in range(len(rs))]
        base = traffic.script(cfg, "-", [">" + traffic.hx(R), "<" + traffic.hx(S)])
        group = {"base": base, "variants": []}
        variants = []
        # every single cut of each stream (exhaustive for this exchange)
        for k in range(1, len(R)):
            variants.append(([R[:k], R[k:]], [S], set()))
        for k in range(1, len(S)):
            variants.append(([R], [S[:k], S[k:]], res_cut_labels(S, starts, k)))
        # 1-byte and random multi-cuts
        allres = set()
        for k in range(1, len(S)):
            allres |= res_cut_labels(S, starts, k)
        variants.append(([R[i:i + 1] for i in range(len(R))], [S], set()))
        variants.append(([R], [S[i:i + 1] for i in range(len(S))], allres))
        for _ in range(6):
            rp = traffic.chunkings(R, rng, "rand")
            sp = traffic.chunkings(S, rng, "rand")
            labs = set()
            pos = 0
            for p in sp[:-1]:
                pos += len(p)
                labs |= res_cut_labels(S, starts, pos)
            variants.append((rp, sp, labs))
        out.append(base)
        meta.append({"role": "base", "gid": ei})
        for rp, sp, labs in variants:
            sc = traffic.script(cfg, "-", [">" + traffic.hx(p) for p in rp] + ["<" + traffic.hx(p) for p in sp])
            out.append(sc)
            meta.append({"role": "variant", "gid": ei, "labels": labs, "ncuts": len(rp) + len(sp) - 2})
    return out, meta


RULES["C03"] = ("well-formed exchanges from the grammar (folding, repetition, C-L / chunked / close-delimited bodies, urlencoded bodies, 1..3 "
                "pipelined) each delivered whole, with EVERY single cut of the request stream, EVERY single cut of the response stream, "
                "1-byte chunks and random multi-cuts; canonical dump + merged callback sequence compared with the whole-delivery run on the "
                "implementation; distinct = distinct canonical runs")


# ================================================================================================ C02

def expected_headers(headers):
    """ground truth of the header table: wire order; a name repeated (case-insensitively) is combined with ', ' onto its first
    occurrence (Content-Length excepted: later instances are dropped); folded lines are joined with the fold's own LWS"""
    out = []
    for name, pieces in headers:
        value = pieces[0]
        for p in pieces[1:]:
            value += b" " + p          # the generator folds with CRLF SP
        value = value.strip(b" \t")
        for i, (n, v) in enumerate(out):
            if n.lower() == name.lower():
                if name.lower() != b"content-length":
                    out[i] = (n, v + b", " + value)
                break
        else:
            out.append((name, value))
    return out


def c02_scripts(ctx):
    rng = ctx.rng
    n = 1500 if ctx.tier == "quick" else 30000
    out, meta = [], []
    opts = {"folding": True, "repeat": True, "urlenc_bodies": True, "close_delimited": True, "digest": True}
    for _ in range(n):
        reqs, ress, rq, rs = traffic.gen_exchange(rng, opts=opts)
        R, S = b"".join(rq), b"".join(rs)
        cfg = rng.choice(("respdecomp=0,urlenc=1", "p=IDS,respdecomp=0,urlenc=1", "p=APACHE_2,respdecomp=0,urlenc=1", "p=IIS_7_5,respdecomp=0,urlenc=1",
                          "p=GENERIC,respdecomp=0,urlenc=1"))
        # fidelity must not depend on how the bytes arrive: whole streams, one call per line, or random segments
        mode = rng.choice(("whole", "whole", "lines", "rand"))

        def pieces(data):
            if mode == "whole" or not data:
                return [data] if data else []
            if mode == "lines":
                out_, prev = [], 0
                for i, b in enumerate(data):
                    if b == 0x0a:
                        out_.append(data[prev:i + 1]); prev = i + 1
                if prev < len(data):
                    out_.append(data[prev:])
                return out_
            return traffic.chunkings(data, rng, "rand")
        out.append(traffic.script(cfg, "-", [">" + traffic.hx(p) for p in pieces(R)] + ["<" + traffic.hx(p) for p in pieces(S)]))
        meta.append({"reqs": reqs, "ress": ress})
    return out, meta


def make_c02_oracle(by_id):
    def oracle(sc, outs):
        w = by_id.get(id(sc))
        if not w:
            return []
        g, slots = cl.final_dump(sc, outs)
        found = []
        if not slots or len(slots) != len(w["reqs"]):
            return [("tx-count", "%d transactions for %d exchanges" % (len(slots or []), len(w["reqs"])))]
        for i, (rq, rs, t) in enumerate(zip(w["reqs"], w["ress"], slots)):
            def chk(field, got, want):
                if got != want:
                    found.append(("field:" + field, "tx %d %s: reported %r, on the wire %r" % (i, field, got[:80] if isinstance(got, bytes) else got,
                                                                                              want[:80] if isinstance(want, bytes) else want)))
            chk("method", cl.unhx(t["m"]), rq.method)
            chk("uri", cl.unhx(t["uri"]), rq.target)
            chk("protocol", cl.unhx(t["proto"]), rq.version)
            chk("request_headers", [(n, v) for n, v, f in cl.headers_of(t, "rh")], expected_headers(rq.headers + getattr(rq, "trailers", [])))
            chk("status", int(t["sn"]), rs.status)
            chk("reason", cl.unhx(t["msg"]), rs.reason)
            chk("response_protocol", cl.unhx(t["sproto"]), rs.version)
            got_sh = [(n, v) for n, v, f in cl.headers_of(t, "sh")]
            if got_sh != expected_headers(rs.headers):
                colon_fold = rs.version == b"HTTP/1.1" and any(b":" in p for n, ps in rs.headers for p in ps[1:])
                found.append(("S33" if colon_fold else "field:response_headers",
                              "tx %d response headers: reported %r, on the wire %r" % (i, got_sh[:6], expected_headers(rs.headers)[:6])))
            # host and port
            hosts = [p[0] for n, p in rq.headers if n.lower() == b"host"]
            if rq.target.startswith(b"http://"):
                auth = rq.target[7:].split(b"/", 1)[0]
            elif hosts:
                auth = hosts[0]
            else:
                auth = None
            if auth is not None:
                h, _, p = auth.partition(b":")
                chk("hostname", cl.unhx(t["host"]) if t["host"] != "~" else None, h.lower() if rq.target.startswith(b"http://") or not p else h)
                chk("port", int(t["port"]), int(p) if p else -1)
            # cookies, credentials
            cks = [p[0] for n, p in rq.headers if n.lower() == b"cookie"]
            if cks:
                want = [tuple(c.split(b"=", 1)) for c in cks[0].split(b"; ")]
                got = [tuple(cl.unhx(x) for x in kv.split("=")) for kv in t["cookies"].split(",")] if t["cookies"] not in ("~", "") else []
                chk("cookies", got, want)
            au = [p[0] for n, p in rq.headers if n.lower() == b"authorization"]
            if au:
                import base64
                a = t["auth"].split(":")
                if getattr(rq, "digest_user", None) is not None:
                    chk("credentials", (a[0], cl.unhx(a[1]), a[2]), ("3", rq.digest_user, "~"))
                else:
                    u, _, pw = base64.b64decode(au[0][6:]).partition(b":")
                    chk("credentials", (a[0], cl.unhx(a[1]), cl.unhx(a[2])), ("2", u, pw))
            # body parameters of a urlencoded body: the reference rule (split on '&', first '=', drop only a final empty piece)
            cts = [p[0] for n, p in rq.headers if n.lower() == b"content-type"]
            if cts and cts[0].startswith(b"application/x-www-form-urlencoded") and rq.body and not (b"%" in rq.body or b"+" in rq.body):
                pieces = rq.body.split(b"&")
                if pieces and pieces[-1] == b"":
                    pieces = pieces[:-1]
                want = [(k, v) for k, _, v in (pc.partition(b"=") for pc in pieces)]
                got = [(cl.unhx(x.split("=")[0]), cl.unhx(x.split("=")[1].split("@")[0])) for x in t["params"].split(",") if x.endswith("@3")]
                chk("body_params", got, want)
            # query parameters (the generator uses unreserved characters and %-free tokens: decoding is the identity except '+')
            if b"?" in rq.target and t["params"] != "":
                q = rq.target.split(b"?", 1)[1]
                want = []
                for piece in q.split(b"&"):
                    k, _, v = piece.partition(b"=")
                    want.append((k, v))
                got = [(cl.unhx(x.split("=")[0]), cl.unhx(x.split("=")[1].split("@")[0])) for x in t["params"].split(",") if x.endswith("@1")]
                if not any(b"%" in k + v or b"+" in k + v for k, v in want):
                    chk("query_params", got, want)
        return found
    return oracle


RULES["C02"] = ("well-formed exchanges from the grammar (known and unknown first methods, origin/absolute targets, 0..k headers with optional "
                "obs-fold and repetition, cookies, Basic credentials, C-L / chunked (+trailers) / close-delimited / empty bodies, 1..6 pipelined) "
                "x 5 personalities, whole delivery; every reported field compared with the generator's ground truth; distinct = distinct final dumps")


# ================================================================================================ C19

def c19_scripts(ctx):
    """K connections created from ONE configuration, their calls interleaved call by call on one thread; each connection's
    solo run is included as its own script so that outputs can be compared"""
    rng = ctx.rng
    n = 120 if ctx.tier == "quick" else 4000
    out, meta = [], []
    for gi in range(n):
        K = rng.randint(2, 8)
        cfg = rng.choice(("respdecomp=0", "p=IDS,respdecomp=0,urlenc=1", "p=APACHE_2,respdecomp=0", "respdecomp=0,autodestroy=1"))
        per = []
        shared_stress = gi % 3 == 2
        if shared_stress:
            # requests that drive the helper functions most likely to grow a cache or a static buffer: best-fit / UTF-8 / %u path decoding
            # with repeated mapped and unmapped code points, base64 credentials, cookies, urlencoded parameters, log messages
            cfg = rng.choice(("p=IDS,respdecomp=0,urlenc=1", "p=IIS_6_0,respdecomp=0,urlenc=1", "p=IDS,respdecomp=0,urlenc=1,mpart=1"))
        for k in range(K):
            reqs, ress, rq, rs = traffic.gen_exchange(rng, opts=OPTS)
            R, S = b"".join(rq), b"".join(rs)
            if shared_stress:
                import base64
                import c12
                toks = c12.escape_tokens()
                wide = [t for t in toks if len(t) >= 2 and t[0] >= 0xc2] + [b"%u4e2d", b"%u0100", b"%uff21", b"\xe4\xb8\xad", b"\xd1\x81", b"\xc4\x80"]
                path = b"/" + b"".join(rng.choice(wide) * rng.randint(1, 2) if rng.random() < 0.6 else rng.choice(toks) for _ in range(rng.randint(1, 5)))
                path = path.replace(b" ", b"%20").replace(b"\r", b"%0d").replace(b"\n", b"%0a").replace(b"\x00", b"%00").replace(b"\t", b"%09")
                cred = base64.b64encode(bytes(rng.choice(b"abcXYZ:019") for _ in range(rng.randint(3, 12))))
                R = (b"POST " + path + b"?q=" + rng.choice(toks).replace(b" ", b"+") + b" HTTP/1.1\r\nHost: h%d.example\r\nAuthorization: Basic " % k + cred +
                     b"\r\nCookie: a=%d; b=c\r\nContent-Type: application/x-www-form-urlencoded\r\nContent-Length: 8\r\n\r\nx=%%u0041&" % k)
                R = R[:R.rindex(b"\r\n\r\n") + 4] + b"x=%4" + bytes([0x30 + k % 10]) + b"&z="
                S = b"HTTP/1.1 200 OK\r\nContent-Length: 2\r\n\r\nok"
            if rng.random() < 0.4:
                R = traffic.mutate(R, rng)
            if rng.random() < 0.4:
                S = traffic.mutate(S, rng)
            ops = ["req " + traffic.hx(p) for p in traffic.chunkings(R, rng, "rand")] + ["res " + traffic.hx(p) for p in traffic.chunkings(S, rng, "rand")]
            pol = traffic.rand_policy(rng) if rng.random() < 0.3 else "-"
            per.append((pol, ops))
        # solo scripts
        solos = []
        for k, (pol, ops) in enumerate(per):
            sc = ["conn new %s %s" % (cfg, pol), "conn open"] + ["conn " + o for o in ops] + ["conn close", "conn dump", "conn destroy"]
            out.append(sc)
            meta.append({"role": "solo", "gid": gi, "k": k})
        # interleaved script
        sc = []
        for k, (pol, ops) in enumerate(per):
            sc += ["conn@%d new %s %s" % (k + 1, cfg, pol), "conn@%d open" % (k + 1)]
        idx = [0] * K
        order = []
        while any(idx[k] < len(per[k][1]) for k in range(K)):
            k = rng.choice([k for k in range(K) if idx[k] < len(per[k][1])])
            sc.append("conn@%d %s" % (k + 1, per[k][1][idx[k]]))
            order.append(k)
            idx[k] += 1
        ks = list(range(K))
        rng.shuffle(ks)
        for k in ks:
            sc += ["conn@%d close" % (k + 1), "conn@%d dump" % (k + 1)]
        for k in ks:
            sc.append("conn@%d destroy" % (k + 1))
        out.append(sc)
        meta.append({"role": "interleaved", "gid": gi, "K": K})
    return out, meta


RULES["C19"] = ("2..8 connection parsers created from one shared configuration (harness keeps one htp_cfg_t per cfgspec), mutated/structured "
                "traffic and callback policies per connection, calls interleaved call-by-call in random order; every connection's outputs must "
                "equal those of its solo run; distinct = distinct per-connection result sequences")
