#!/usr/bin/env python3
"""debug helper: run conn scripts through harness and Lean driver, print compact diffs"""
import sys, os
sys.path.insert(0, os.path.dirname(os.path.abspath(__file__)))
sys.path.insert(0, os.path.join(os.path.dirname(os.path.dirname(os.path.abspath(__file__))), "gen"))
import lib, traffic


def diff_scripts(corr, scripts, names=None, show=8, ctx=140):
    lines = [l for sc in scripts for l in sc]
    c, l, e, rc = lib.run_pair(corr, lines)
    pos = 0
    bad = 0
    unsup = 0
    for i, sc in enumerate(scripts):
        cc = c[pos:pos + len(sc)]; ll = l[pos:pos + len(sc)]; pos += len(sc)
        if any("UNSUPPORTED" in z for z in ll):
            unsup += 1
            continue
        if cc != ll:
            bad += 1
            if bad <= show:
                for x, y, z in zip(sc, cc, ll):
                    if y != z:
                        k = next((k for k in range(min(len(y), len(z))) if y[k] != z[k]), min(len(y), len(z)))
                        print("##", names[i] if names else i, "|", x[:60])
                        print("  C:", y[max(0, k - ctx):k + ctx])
                        print("  L:", z[max(0, k - ctx):k + ctx])
                        break
    print("scripts=%d bad=%d unsupported=%d harness_rc=%s" % (len(scripts), bad, unsup, rc))
    if rc != 0:
        print(e[-1500:])
    return bad


if __name__ == "__main__":
    pass
