#!/usr/bin/env python3
"""Shared machinery for the libhtp property checks.

Everything here derives its paths from __file__, rebuilds from /repo's current working
tree (cached by content hash of the sources, so an unchanged tree is not recompiled
nineteen times), regenerates the Lean tables through the translator, builds the Lean
project (proofs re-checked against the regenerated tables), audits axioms, and runs
the line-protocol correspondence between the C harness and the compiled Lean driver.
"""
import fcntl
import glob
import hashlib
import json
import os
import random
import re
import shutil
import subprocess
import sys
import tempfile
import time

ROOT = os.path.dirname(os.path.dirname(os.path.abspath(__file__)))
REPO = os.environ.get("VERIF_REPO", "/repo")
LEAN = os.path.join(ROOT, "lean")
BUILD = os.path.join(ROOT, ".build")
HARNESS = os.path.join(ROOT, "harness")
EXTRACT = os.path.join(ROOT, "extract")
EVID = os.path.join(ROOT, "evidence")
REPLAYS = os.path.join(ROOT, "replays")
CORPUS = os.path.join(ROOT, "corpus")
GUARD = "LIBHTP_VERIF"
NCPU = os.cpu_count() or 4

ALLOWED_AXIOMS = {"propext", "Classical.choice", "Quot.sound"}

CFLAGS_COMMON = ["-D_GNU_SOURCE", "-DHAVE_CONFIG_H", "-D" + GUARD, "-I" + REPO, "-I" + os.path.join(REPO, "htp"),
                 "-w"]
SAN = ["-O1", "-g", "-fno-omit-frame-pointer", "-fsanitize=address,undefined", "-fno-sanitize-recover=all",
       "-fsanitize-recover=pointer-overflow"]
PLAIN = ["-O1", "-g"]


def log(*a):
    print(*a, file=sys.stderr, flush=True)


class Lock:
    def __init__(self, name):
        os.makedirs(BUILD, exist_ok=True)
        self.path = os.path.join(BUILD, name + ".lock")

    def __enter__(self):
        self.f = open(self.path, "w")
        fcntl.flock(self.f, fcntl.LOCK_EX)
        return self

    def __exit__(self, *a):
        fcntl.flock(self.f, fcntl.LOCK_UN)
        self.f.close()


def repo_sources():
    srcs = sorted(glob.glob(os.path.join(REPO, "htp", "*.c")) + glob.glob(os.path.join(REPO, "htp", "lzma", "*.c")))
    hdrs = sorted(glob.glob(os.path.join(REPO, "htp", "*.h")) + glob.glob(os.path.join(REPO, "htp", "lzma", "*.h"))
                  + glob.glob(os.path.join(REPO, "*.h")))
    return srcs, hdrs


def tree_hash(extra_files=()):
    srcs, hdrs = repo_sources()
    h = hashlib.sha256()
    for p in srcs + hdrs + list(extra_files):
        h.update(p.encode())
        with open(p, "rb") as f:
            h.update(f.read())
    return h.hexdigest()[:20]


def run(cmd, **kw):
    kw.setdefault("stdout", subprocess.PIPE)
    kw.setdefault("stderr", subprocess.PIPE)
    kw.setdefault("text", True)
    return subprocess.run(cmd, **kw)


def _compile_many(cc, flags, srcs, outdir):
    """compile each source to outdir/<name>.o in parallel; return (objs, error or None)"""
    procs = []
    objs = []
    for s in srcs:
        base = os.path.basename(s)[:-2]
        if "/lzma/" in s:
            base = "lzma_" + base
        o = os.path.join(outdir, base + ".o")
        objs.append(o)
        procs.append((s, subprocess.Popen([cc] + flags + ["-c", s, "-o", o], stdout=subprocess.PIPE,
                                          stderr=subprocess.STDOUT, text=True)))
    err = None
    for s, p in procs:
        out, _ = p.communicate()
        if p.returncode != 0 and err is None:
            err = "compile failed: %s\n%s" % (s, out[-3000:])
    return objs, err


class BuildError(Exception):
    pass


def build_repo(kind="san"):
    """Compile the current /repo working tree (guard on) + harness; cached by content hash.
    kind: 'san' (ASan+UBSan) | 'plain' | 'cov' (trace-pc-guard)
    Returns dict(dir=..., corr=path of harness binary, hash=...)"""
    if os.environ.get("VERIF_CORR_OVERRIDE") and kind in ("san", "plain"):
        # offline measurement only (tools/coverage_report.py): an instrumented harness binary replaces the freshly built one
        return {"dir": os.path.dirname(os.environ["VERIF_CORR_OVERRIDE"]), "corr": os.environ["VERIF_CORR_OVERRIDE"], "hash": "override"}
    harness_srcs = sorted(glob.glob(os.path.join(HARNESS, "*.c")) + glob.glob(os.path.join(HARNESS, "*.h")))
    hsh = tree_hash(harness_srcs)
    d = os.path.join(BUILD, "repo_%s_%s" % (kind, hsh))
    with Lock("repo_" + kind):
        if os.path.exists(os.path.join(d, "OK")):
            os.utime(d)
            return {"dir": d, "corr": os.path.join(d, "corr"), "hash": hsh}
        if os.path.exists(d):
            shutil.rmtree(d)
        os.makedirs(d)
        srcs, _ = repo_sources()
        flags = list(CFLAGS_COMMON)
        if kind == "san":
            flags += SAN
        elif kind == "cov":
            flags += ["-O1", "-g", "-fsanitize-coverage=trace-pc-guard"]
        else:
            flags += PLAIN
        t0 = time.time()
        objs, err = _compile_many("clang", flags, srcs, d)
        if err:
            shutil.rmtree(d, ignore_errors=True)
            raise BuildError(err)
        # the harness itself is never instrumented for coverage: the work counter counts library edges only
        hflags = [f for f in flags if not f.startswith("-fsanitize-coverage")]
        hobjs, err = _compile_many("clang", hflags + ["-I" + HARNESS], [s for s in harness_srcs if s.endswith(".c")], d)
        if err:
            shutil.rmtree(d, ignore_errors=True)
            raise BuildError(err)
        link = ["clang"] + (SAN if kind == "san" else []) + (
            ["-fsanitize-coverage=trace-pc-guard"] if kind == "cov" else []) + objs + hobjs + ["-lz", "-lpthread", "-o",
                                                                                                os.path.join(d, "corr")]
        r = run(link)
        if r.returncode != 0:
            shutil.rmtree(d, ignore_errors=True)
            raise BuildError("link failed\n" + r.stderr[-3000:])
        open(os.path.join(d, "OK"), "w").write("%.1f\n" % (time.time() - t0))
        _prune("repo_%s_" % kind, keep=3)
        return {"dir": d, "corr": os.path.join(d, "corr"), "hash": hsh}


ALLOC_MACROS = ["-Dmalloc=verif_malloc", "-Dcalloc=verif_calloc", "-Drealloc=verif_realloc", "-Dstrdup=verif_strdup",
                "-Dfree=verif_free"]


def build_af():
    """C18 build: the library compiled with its allocator calls renamed (so that exactly libhtp's allocations can be counted,
    traced and failed) + harness/af/afail.c, ASan+UBSan+LSan. Cached by content hash like build_repo."""
    if os.environ.get("VERIF_AF_OVERRIDE"):
        return {"dir": os.path.dirname(os.environ["VERIF_AF_OVERRIDE"]), "afail": os.environ["VERIF_AF_OVERRIDE"], "hash": "override"}
    af_srcs = [os.path.join(HARNESS, "af", "afail.c"), os.path.join(HARNESS, "h_cfg.c"), os.path.join(HARNESS, "corr.h")]
    hsh = tree_hash(af_srcs)
    d = os.path.join(BUILD, "repo_af_%s" % hsh)
    with Lock("repo_af"):
        if os.path.exists(os.path.join(d, "OK")):
            os.utime(d)
            return {"dir": d, "afail": os.path.join(d, "afail"), "hash": hsh}
        if os.path.exists(d):
            shutil.rmtree(d)
        os.makedirs(d)
        srcs, _ = repo_sources()
        flags = list(CFLAGS_COMMON) + SAN
        objs, err = _compile_many("clang", flags + ALLOC_MACROS, srcs, d)
        if err:
            shutil.rmtree(d, ignore_errors=True)
            raise BuildError(err)
        hobjs, err = _compile_many("clang", flags + ["-I" + HARNESS], [x for x in af_srcs if x.endswith(".c")], d)
        if err:
            shutil.rmtree(d, ignore_errors=True)
            raise BuildError(err)
        r = run(["clang"] + SAN + objs + hobjs + ["-lz", "-lpthread", "-o", os.path.join(d, "afail")])
        if r.returncode != 0:
            shutil.rmtree(d, ignore_errors=True)
            raise BuildError("link failed\n" + r.stderr[-3000:])
        open(os.path.join(d, "OK"), "w").write("ok\n")
        _prune("repo_af_", keep=3)
        return {"dir": d, "afail": os.path.join(d, "afail"), "hash": hsh}


def build_thr():
    """C19 search build: the library + harness/thr/thr.c with -fsanitize=thread. Cached by content hash like build_repo."""
    t_srcs = [os.path.abspath(__file__), os.path.join(HARNESS, "thr", "thr.c"), os.path.join(HARNESS, "h_cfg.c"), os.path.join(HARNESS, "corr.h")]
    hsh = tree_hash(t_srcs)
    d = os.path.join(BUILD, "repo_thr_%s" % hsh)
    with Lock("repo_thr"):
        if os.path.exists(os.path.join(d, "OK")):
            os.utime(d)
            return {"dir": d, "thr": os.path.join(d, "thr"), "hash": hsh}
        if os.path.exists(d):
            shutil.rmtree(d)
        os.makedirs(d)
        srcs, _ = repo_sources()
        # the guarded hooks stay OFF here: the C08 work counter is a process-wide global, which is exactly what this build looks for
        flags = [f for f in CFLAGS_COMMON if f != "-D" + GUARD] + ["-O1", "-g", "-fsanitize=thread", "-fno-omit-frame-pointer"]
        objs, err = _compile_many("clang", flags, srcs, d)
        if err:
            shutil.rmtree(d, ignore_errors=True)
            raise BuildError(err)
        hobjs, err = _compile_many("clang", flags + ["-I" + HARNESS], [x for x in t_srcs if x.endswith(".c")], d)
        if err:
            shutil.rmtree(d, ignore_errors=True)
            raise BuildError(err)
        r = run(["clang", "-fsanitize=thread"] + objs + hobjs + ["-lz", "-lpthread", "-o", os.path.join(d, "thr")])
        if r.returncode != 0:
            shutil.rmtree(d, ignore_errors=True)
            raise BuildError("link failed\n" + r.stderr[-3000:])
        open(os.path.join(d, "OK"), "w").write("ok\n")
        _prune("repo_thr_", keep=3)
        return {"dir": d, "thr": os.path.join(d, "thr"), "hash": hsh}


def _prune(prefix, keep):
    ds = sorted(glob.glob(os.path.join(BUILD, prefix + "*")), key=os.path.getmtime, reverse=True)
    for old in ds[keep:]:
        if os.path.isdir(old):
            shutil.rmtree(old, ignore_errors=True)


def run_translator():
    """Regenerate lean/HtpModel/Gen/Tables.lean and Footprint.lean from the current sources.
    Files are rewritten only when their content changes (keeps lake incremental)."""
    hsh = tree_hash([os.path.join(EXTRACT, "tabulate.c"), os.path.join(EXTRACT, "extract.py"), os.path.join(EXTRACT, "ctrans.py")])
    stamp = os.path.join(BUILD, "translator_" + hsh)
    with Lock("translator"):
        if os.path.exists(stamp) and os.path.exists(os.path.join(LEAN, "HtpModel", "Gen", "Tables.lean")) \
                and os.path.exists(os.path.join(LEAN, "HtpModel", "Gen", "Footprint.lean")) \
                and os.path.exists(os.path.join(LEAN, "HtpModel", "Gen", "CFuns.lean")):
            return {"hash": hsh, "cached": True}
        r = run([sys.executable, os.path.join(EXTRACT, "extract.py")])
        if r.returncode != 0:
            raise BuildError("translator failed:\n" + r.stdout[-2000:] + r.stderr[-3000:])
        # control-flow translator: selected leaf functions -> Gen/CFuns.lean (a function it can no longer translate is listed in
        # `untranslated` there, and the theorem CFuns.all_translated then fails by name)
        r2 = run([sys.executable, os.path.join(EXTRACT, "ctrans.py"), REPO, os.path.join(LEAN, "HtpModel", "Gen", "CFuns.lean")])
        if r2.returncode != 0:
            raise BuildError("control-flow translator failed:\n" + r2.stdout[-2000:] + r2.stderr[-3000:])
        r.stdout += r2.stdout
        for old in glob.glob(os.path.join(BUILD, "translator_*")):
            os.unlink(old)
        open(stamp, "w").write(r.stdout)
        return {"hash": hsh, "cached": False, "log": r.stdout}


def lake_build(targets=("HtpModel", "htpdrv")):
    """lake build; returns (ok, output). Serialised by a lock (lake itself is not re-entrant)."""
    with Lock("lake"):
        r = run(["lake", "build"] + list(targets), cwd=LEAN)
        return r.returncode == 0, (r.stdout + r.stderr)


def driver_path():
    return os.path.join(LEAN, ".lake", "build", "bin", "htpdrv")


_COMMENT_RE = re.compile(r"/-.*?-/", re.S)


def grep_forbidden():
    """sorry/admit/axiom/native_decide/... outside comments in the Lean library; returns list of hits"""
    hits = []
    pat = re.compile(r"\b(sorry|admit|native_decide|bv_decide|implemented_by|unsafe)\b|^\s*axiom\s|maxHeartbeats\s+0\b", re.M)
    for p in glob.glob(os.path.join(LEAN, "HtpModel", "**", "*.lean"), recursive=True) + glob.glob(
            os.path.join(LEAN, "Driver", "*.lean")):
        src = open(p).read()
        src = _COMMENT_RE.sub(lambda m: "\n" * m.group(0).count("\n"), src)
        src = re.sub(r"--.*", "", src)
        for m in pat.finditer(src):
            if p.endswith("Driver/Main.lean") and m.group(0).strip() in ("unsafe",):
                continue
            line = src.count("\n", 0, m.start()) + 1
            hits.append("%s:%d:%s" % (os.path.relpath(p, ROOT), line, m.group(0).strip()))
    return hits


def theorems_in(module_file):
    """names of theorems declared in a Props file (namespace-qualified as written by convention:
    every Props file opens exactly one `namespace X` and we prefix with it)."""
    src = open(module_file).read()
    src_nc = _COMMENT_RE.sub("", src)
    ns = re.search(r"^namespace\s+(\S+)", src_nc, re.M)
    prefix = ns.group(1) + "." if ns else ""
    names = re.findall(r"^theorem\s+(\S+)", src_nc, re.M)
    examples = len(re.findall(r"^example\b", src_nc, re.M))
    return [prefix + n for n in names], examples


def audit_axioms(prop_module, names):
    """run `#print axioms` for every theorem; return dict name -> list of axioms (or error string)"""
    if not names:
        return {}
    src = "import HtpModel.Props.%s\n" % prop_module + "".join("#print axioms %s\n" % n for n in names)
    with tempfile.NamedTemporaryFile("w", suffix=".lean", dir=BUILD, delete=False) as f:
        f.write(src)
        tmp = f.name
    try:
        with Lock("lake"):
            r = run(["lake", "env", "lean", tmp], cwd=LEAN)
    finally:
        os.unlink(tmp)
    out = r.stdout + r.stderr
    res = {}
    # outputs: "'X' depends on axioms: [a, b]" or "'X' does not depend on any axioms"
    for m in re.finditer(r"'([^']+)' depends on axioms: \[([^\]]*)\]", out, re.S):
        res[m.group(1)] = [a.strip() for a in m.group(2).replace("\n", " ").split(",") if a.strip()]
    for m in re.finditer(r"'([^']+)' does not depend on any axioms", out):
        res[m.group(1)] = []
    for n in names:
        if n not in res:
            res[n] = ["<audit-failed: %s>" % out.strip()[-300:]]
    return res


def leanchecker(module):
    with Lock("lake"):
        r = run(["lake", "env", "leanchecker", module], cwd=LEAN)
    return r.returncode == 0, (r.stdout + r.stderr)[-2000:]


# ---------------------------------------------------------------------------------------------
# correspondence


def hexs(b):
    return b.hex() if b else "-"


def run_pair(corr, lines, timeout=240, env_extra=None):
    """Run harness and Lean driver on the same op lines. Returns (c_out_lines, l_out_lines, c_stderr, c_rc)."""
    data = ("\n".join(lines) + "\n").encode()
    env = dict(os.environ)
    env["ASAN_OPTIONS"] = "detect_leaks=1:abort_on_error=0:exitcode=77:allocator_may_return_null=1:hard_rss_limit_mb=1536"
    env["UBSAN_OPTIONS"] = "print_stacktrace=0:halt_on_error=0"
    if env_extra:
        env.update(env_extra)
    pc = subprocess.Popen([corr], stdin=subprocess.PIPE, stdout=subprocess.PIPE, stderr=subprocess.PIPE, env=env)
    pl = subprocess.Popen([driver_path()], stdin=subprocess.PIPE, stdout=subprocess.PIPE, stderr=subprocess.PIPE)
    import threading
    res = {}

    def feed(p, key):
        try:
            o, e = p.communicate(data, timeout=timeout)
        except subprocess.TimeoutExpired:
            p.kill()
            o, e = p.communicate()
            e += b"\nTIMEOUT"
        res[key] = (o, e, p.returncode)

    t1 = threading.Thread(target=feed, args=(pc, "c"))
    t2 = threading.Thread(target=feed, args=(pl, "l"))
    t1.start(); t2.start(); t1.join(); t2.join()
    co, ce, crc = res["c"]
    lo, le, lrc = res["l"]
    if lrc != 0:
        raise BuildError("lean driver failed rc=%s: %s" % (lrc, le.decode(errors="replace")[-2000:]))
    return (co.decode(errors="replace").splitlines(), lo.decode(errors="replace").splitlines(),
            ce.decode(errors="replace"), crc)


def run_c(corr, lines, timeout=240, env_extra=None):
    data = ("\n".join(lines) + "\n").encode()
    env = dict(os.environ)
    env["ASAN_OPTIONS"] = "detect_leaks=1:abort_on_error=0:exitcode=77:allocator_may_return_null=1:hard_rss_limit_mb=1536"
    env["UBSAN_OPTIONS"] = "print_stacktrace=0:halt_on_error=0"
    if env_extra:
        env.update(env_extra)
    p = subprocess.run([corr], input=data, stdout=subprocess.PIPE, stderr=subprocess.PIPE, env=env, timeout=timeout)
    return p.stdout.decode(errors="replace").splitlines(), p.stderr.decode(errors="replace"), p.returncode


def run_lean(lines, timeout=600):
    data = ("\n".join(lines) + "\n").encode()
    p = subprocess.run([driver_path()], input=data, stdout=subprocess.PIPE, stderr=subprocess.PIPE, timeout=timeout)
    if p.returncode != 0:
        raise BuildError("lean driver failed: " + p.stderr.decode(errors="replace")[-2000:])
    return p.stdout.decode(errors="replace").splitlines()


def san_reports(stderr):
    """parse sanitizer reports from harness stderr: list of (kind, function) signatures.
    UBSan: 'file:line:col: runtime error: <msg>' ; ASan: 'ERROR: AddressSanitizer: <kind>'"""
    sigs = []
    for m in re.finditer(r"([\w./-]+):(\d+):\d+: runtime error: ([^\n]*)", stderr):
        msg = m.group(3)
        kind = "ubsan:" + re.sub(r"0x[0-9a-f]+|\d+", "N", msg)[:60]
        sigs.append((kind, os.path.basename(m.group(1))))
    for m in re.finditer(r"ERROR: (AddressSanitizer|LeakSanitizer): ([^\n]*)", stderr):
        sigs.append(("asan:" + m.group(2).split(" on ")[0][:60], ""))
    return sigs


# ---------------------------------------------------------------------------------------------
# known findings, evidence, violations


def known_findings():
    p = os.path.join(ROOT, "known_findings.json")
    if not os.path.exists(p):
        return {"findings": [], "fixed": []}
    return json.load(open(p))


def write_replay(prop, kind, payload):
    os.makedirs(REPLAYS, exist_ok=True)
    name = "%s_%s_%s.json" % (prop, kind, hashlib.sha1(json.dumps(payload, sort_keys=True).encode()).hexdigest()[:10])
    p = os.path.join(REPLAYS, name)
    with open(p, "w") as f:
        json.dump(payload, f, indent=1)
    return p


def write_evidence(prop, tier, seed, coverage, assumptions, wall, violations, level="proof"):
    os.makedirs(EVID, exist_ok=True)
    ev = {"property_id": prop, "tier": tier, "seed": seed, "level": level, "coverage": coverage,
          "assumptions": assumptions, "wall_s": round(wall, 2), "violations": violations}
    with open(os.path.join(EVID, prop + ".json"), "w") as f:
        json.dump(ev, f, indent=1)
    return ev


class Rng(random.Random):
    pass


# ---------------------------------------------------------------------------------------------
# script-level correspondence with shrinking


UNSUPPORTED_SEEN = [0]


def _first_diff(scripts, c_out, l_out):
    """return (script index, line index within script, c line, lean line) of first disagreement or None"""
    pos = 0
    for si, sc in enumerate(scripts):
        n = len(sc)
        for j in range(n):
            c = c_out[pos + j] if pos + j < len(c_out) else "<missing>"
            l = l_out[pos + j] if pos + j < len(l_out) else "<missing>"
            if isinstance(l, str) and l.endswith(" UNSUPPORTED"):
                # the model declares that the run entered behaviour it does not cover: rest of the script is not compared
                UNSUPPORTED_SEEN[0] += 1
                break
            if c != l:
                return si, j, c, l
        pos += n
    return None


def shrink_script(corr, script, still_fails, max_rounds=6, budget_s=150):
    """delta-debugging over lines (ddmin-lite): drop chunks, then single lines. Stops after `budget_s` seconds (a script that makes the
    implementation run away costs seconds per attempt), returning what it has by then."""
    cur = list(script)
    t_end = time.time() + budget_s
    for _ in range(max_rounds):
        changed = False
        n = max(len(cur) // 2, 1)
        while n >= 1 and time.time() < t_end:
            i = 0
            while i < len(cur) and len(cur) > 1 and time.time() < t_end:
                cand = cur[:i] + cur[i + n:]
                if cand and still_fails(cand):
                    cur = cand
                    changed = True
                else:
                    i += n
            n //= 2
        if not changed:
            break
    return cur


def corr_scripts(ctx, scripts, slice_name, project=None, batch=40000, max_report=3):
    """Run independent scripts (each a list of op lines, each starting from a reset op) through the
    harness and the Lean driver, compare line by line (after `project`), shrink disagreements.
    Returns (n_lines, disagreements, [(script, impl outputs)], sanitizer signatures)."""
    total = 0
    disagreements = []
    all_c = []
    i = 0
    san = []
    while i < len(scripts) and len(disagreements) < max_report:
        chunk = []
        nl = 0
        while i < len(scripts) and (nl < batch or not chunk):
            chunk.append(scripts[i])
            nl += len(scripts[i])
            i += 1
        lines = [l for sc in chunk for l in sc]
        c_out, l_out, c_err, c_rc = run_pair(ctx.corr, lines)
        ncrash = 0
        while c_rc != 0 and ncrash < 3 and len(chunk) > 0:
            # harness died (sanitizer abort or crash): bisect to the script, record, drop it, re-run the rest
            ncrash += 1
            bad = _bisect_crash(ctx.corr, chunk)
            small = shrink_script(ctx.corr, bad, lambda cand: run_c(ctx.corr, cand)[2] != 0)
            _, serr, src = run_c(ctx.corr, small)
            disagreements.append({"slice": slice_name, "crash": True, "harness_rc": src, "stderr": serr[-2500:],
                                  "sanitizer": san_reports(serr), "script": small})
            # a report that comes only at exit (a leak) leaves the script's answers complete: hand them to the property oracle too,
            # so that the property's own verdict on this script is not hidden behind the memory report
            bo, _, _ = run_c(ctx.corr, bad)
            if len(bo) == len(bad):
                all_c.append((bad, bo))
            chunk = [sc for sc in chunk if sc is not bad]
            lines = [l for sc in chunk for l in sc]
            c_out, l_out, c_err, c_rc = run_pair(ctx.corr, lines)
        if c_rc != 0:
            disagreements.append({"slice": slice_name, "crash": True, "harness_rc": c_rc, "stderr": c_err[-1500:],
                                  "script": [], "note": "more than 3 crashing scripts in one batch"})
            continue
        total += len(lines)
        san += san_reports(c_err)
        if project:
            pc = [project(x) for x in c_out]
            plx = [project(x) for x in l_out]
        else:
            pc, plx = c_out, l_out
        pos = 0
        for sc in chunk:
            all_c.append((sc, c_out[pos:pos + len(sc)]))
            pos += len(sc)
        d = _first_diff(chunk, pc, plx)
        nrep = 0
        while d is not None and nrep < max_report:
            si, j, c, l = d
            sc = chunk[si]

            def fails(cand):
                co, lo, _, _ = run_pair(ctx.corr, cand)
                if project:
                    co = [project(x) for x in co]
                    lo = [project(x) for x in lo]
                return co != lo

            small = shrink_script(ctx.corr, sc[:j + 1], fails)
            co, lo, _, _ = run_pair(ctx.corr, small)
            disagreements.append({"slice": slice_name, "script": small, "impl": co, "model": lo,
                                  "first_diff": {"impl": c, "model": l}})
            nrep += 1
            # look for another disagreement in a later script
            rest_pos = sum(len(s) for s in chunk[:si + 1])
            d2 = _first_diff(chunk[si + 1:], pc[rest_pos:], plx[rest_pos:])
            if d2 is None:
                break
            d = (d2[0] + si + 1, d2[1], d2[2], d2[3])
    return total, disagreements, all_c, san


def _bisect_crash(corr, scripts):
    lo, hi = 0, len(scripts)
    cur = scripts
    while len(cur) > 1:
        mid = len(cur) // 2
        a = cur[:mid]
        _, _, rc = run_c(corr, [l for sc in a for l in sc])
        if rc != 0:
            cur = a
        else:
            cur = cur[mid:]
    return cur[0] if cur else []


_FUZZ_CACHE = []


def load_fuzz_corpus(ctx, n_quick, salt=0):
    """corpus/fuzz/conn.jsonl: scripts distilled offline from a coverage-guided search (tools/fuzz_distill.py; one JSON array per line).
    Deterministic input to the checks: the thorough tier replays all of them, the quick tier a seed-dependent sample of n_quick."""
    if not _FUZZ_CACHE:
        p = os.path.join(CORPUS, "fuzz", "conn.jsonl")
        scs = []
        if os.path.exists(p):
            for l in open(p):
                l = l.strip()
                if l:
                    try:
                        j = json.loads(l)
                        if isinstance(j, list) and j:
                            scs.append(j)
                    except Exception:
                        pass
        _FUZZ_CACHE.append(scs)
    scs = _FUZZ_CACHE[0]
    if ctx.tier != "quick" or len(scs) <= n_quick:
        return [list(s) for s in scs]
    import random as _r
    rr = _r.Random("%s/%s" % (ctx.seed if hasattr(ctx, "seed") else 0, salt))
    return [list(s) for s in rr.sample(scs, n_quick)]


def load_fuzz_corpus_z(ctx, n_quick, salt=0):
    """corpus/fuzz/connz.jsonl (response/request decompression ON), each script rewritten from its `play` line into explicit data calls
    (`conn req|res|reqgap|resgap ...`, preceded by `conn zon`) so that the inflate results of every call can be recorded and replayed"""
    p = os.path.join(CORPUS, "fuzz", "connz.jsonl")
    scs = []
    if os.path.exists(p):
        for l in open(p):
            l = l.strip()
            if not l:
                continue
            try:
                j = json.loads(l)
            except Exception:
                continue
            if not (isinstance(j, list) and j and j[0].startswith("conn new ")):
                continue
            out = [j[0], "conn open", "conn zon"]
            for x in j:
                t = x.split(" ")
                if len(t) == 3 and t[1] == "play":
                    for it in t[2].split(","):
                        if it.startswith("g>"):
                            out.append("conn reqgap " + it[2:])
                        elif it.startswith("g<"):
                            out.append("conn resgap " + it[2:])
                        elif it.startswith(">") and it[1:] != "-":
                            out.append("conn req " + it[1:])
                        elif it.startswith("<") and it[1:] != "-":
                            out.append("conn res " + it[1:])
            out += ["conn close", "conn dump", "conn destroy"]
            scs.append(out)
    if ctx.tier != "quick" or len(scs) <= n_quick:
        return scs
    import random as _r
    rr = _r.Random("%s/%s" % (ctx.seed if hasattr(ctx, "seed") else 0, salt))
    return rr.sample(scs, n_quick)


def load_fuzz_lines(prefixes):
    """corpus/fuzz/fn.jsonl: one-line scripts for the stateless families distilled offline (tools/fuzz_distill.py with FUZZ_TARGET=fn);
    returns the lines that start with one of the prefixes"""
    p = os.path.join(CORPUS, "fuzz", "fn.jsonl")
    out = []
    if os.path.exists(p):
        for l in open(p):
            l = l.strip()
            if not l:
                continue
            try:
                j = json.loads(l)
            except Exception:
                continue
            if isinstance(j, list) and len(j) == 1 and any(j[0].startswith(x) for x in prefixes):
                out.append(j[0])
    return out


def load_corpus(prop):
    """minimised past disagreements / violations: corpus/<prop>/*.json each {"script": [...]}; run first"""
    out = []
    for p in sorted(glob.glob(os.path.join(CORPUS, prop, "*.json"))):
        try:
            j = json.load(open(p))
            if isinstance(j.get("script"), list) and j["script"]:
                out.append(j["script"])
        except Exception:
            pass
    return out
