#!/usr/bin/env python3
"""Differential test of the Lean multipart/form-data model (lean/HtpModel/Multipart.lean) against
libhtp's htp_multipart.c through the `mpart` line operation.

  python3 checks/mpart_diff.py [--seed N] [--bodies N] [--max-cut-len N] [--batch N] [--show N]
                               [--no-shrink] [--no-build]

Line protocol (harness/h_mpart.c and lean/Driver/Mpart.lean print the same text):
  mpart <hex content-type value> <chunks> [<hex byte found right after every chunk buffer, default 00>]
  chunks: `!` = none, else hex chunks separated by `|`, `-` = empty chunk

Bodies come from a grammar (boundaries, parts, header variants, near-boundary payloads, preamble/epilogue,
CRLF/LF, folding, missing final boundary), from mutations of those, and from the library's own unit-test
inputs (test/test_multipart.cpp). Every body is run whole, cut at EVERY single position (bodies up to
--max-cut-len bytes), as 1-byte chunks, 2- and 3-byte chunks, and with random multi-cuts (repeated cut
positions give empty chunks); short bodies glued from boundary-critical fragments get EVERY chunking with
one or two cuts. The C library is the oracle. Exit status 0 iff there is no disagreement and no harness crash.
"""
import argparse
import os
import random
import re
import sys
import time

sys.path.insert(0, os.path.dirname(os.path.abspath(__file__)))
import lib  # noqa: E402

BOUNDARIES = [b"B", b"0123456789", b"--x", b"ab", b"-", b"x-y", b"----WebKitFormBoundaryT4AfwQCOgIxNVwlD", b"BB", b"a\nb", b"\r\n", b"-\r"]


# ---------------------------------------------------------------------------------------------
# seeds from the library's unit tests

def c_unescape(s):
    out = bytearray()
    i = 0
    while i < len(s):
        c = s[i]
        if c != "\\":
            out += c.encode("latin-1", "replace")
            i += 1
            continue
        i += 1
        e = s[i]
        simple = {"n": 10, "r": 13, "t": 9, "\\": 92, '"': 34, "'": 39, "a": 7, "b": 8, "f": 12, "v": 11, "?": 63}
        if e in simple:
            out.append(simple[e]); i += 1
        elif e == "x":
            j = i + 1
            while j < len(s) and s[j] in "0123456789abcdefABCDEF":
                j += 1
            out.append(int(s[i + 1:j], 16) & 255); i = j
        elif e in "01234567":
            j = i
            while j < len(s) and j < i + 3 and s[j] in "01234567":
                j += 1
            out.append(int(s[i:j], 8) & 255); i = j
        else:
            out.append(ord(e) & 255); i += 1
    return bytes(out)


STR_RE = re.compile(r'"((?:[^"\\]|\\.)*)"')


def c_array_elems(block):
    """elements of a C `char *x[] = { "a" "b", "c", NULL }` initialiser: adjacent literals are concatenated"""
    elems = []
    cur = None
    pos = 0
    block = re.sub(r"//[^\n]*", "", block)
    while pos < len(block):
        m = STR_RE.match(block, pos)
        if m:
            cur = (cur or b"") + c_unescape(m.group(1))
            pos = m.end()
        elif block[pos] == ",":
            if cur is not None:
                elems.append(cur)
            cur = None
            pos += 1
        else:
            pos += 1
    if cur is not None:
        elems.append(cur)
    return elems


def unit_test_seeds():
    """(list of chunk lists for boundary 0123456789, list of content-type strings)"""
    p = os.path.join(lib.REPO, "test", "test_multipart.cpp")
    if not os.path.exists(p):
        return [], []
    src = open(p, encoding="latin-1").read()
    parts, cts = [], []
    for m in re.finditer(r"char\s*\*\s*(\w+)\[\]\s*=\s*\{(.*?)\};", src, re.S):
        elems = c_array_elems(m.group(2))
        if not elems:
            continue
        if m.group(1) == "parts":
            parts.append(elems)
        elif m.group(1) == "inputs":
            cts += elems
    return parts, cts


# ---------------------------------------------------------------------------------------------
# grammar

def rbytes(r, n, alphabet):
    return bytes(r.choice(alphabet) for _ in range(n))


TEXT = b"abcXYZ019 ._"
NASTY = b"\r\n-B0a \t\x00\"\\;=:"


def gen_token(r):
    return rbytes(r, r.randint(1, 5), b"abcdefXYZ01_")


def gen_quoted(r):
    """a name/filename value with escapes, as written inside the quotes"""
    out = bytearray()
    for _ in range(r.randint(0, 6)):
        k = r.random()
        if k < 0.55:
            out += rbytes(r, 1, b"abcxyz01 .")
        elif k < 0.7:
            out += b'\\"'
        elif k < 0.8:
            out += b"\\\\"
        elif k < 0.88:
            out += b"\\"
        elif k < 0.94:
            out += b"\\x"
        else:
            out += rbytes(r, 1, b";=\t%'")
    return bytes(out)


def gen_cd(r):
    k = r.random()
    sp = lambda: r.choice([b"", b"", b" ", b"  ", b"\t"])  # noqa: E731
    if k < 0.55:
        v = b"form-data;" + sp() + b'name' + sp() + b"=" + sp() + b'"' + gen_quoted(r) + b'"'
        if r.random() < 0.45:
            v += sp() + b";" + sp() + b'filename="' + gen_quoted(r) + b'"'
        return v
    if k < 0.62:
        return b'form-data; filename="' + gen_quoted(r) + b'"'
    if k < 0.68:
        return b'form-data; name="a"; name="b"'
    if k < 0.72:
        return b'form-data; filename="a"; filename="b"; name="c"'
    if k < 0.77:
        return b'form-data; name="a"; other="b"'
    if k < 0.81:
        return b"form-data; name=a"
    if k < 0.84:
        return b'form-data; name="a\\'
    if k < 0.87:
        return b'form-data; name="abc'
    if k < 0.89:
        return b"form-data"
    if k < 0.91:
        return b"form-data "
    if k < 0.93:
        return b'attachment; name="a"'
    if k < 0.95:
        return b'form-data name="a"'
    if k < 0.97:
        return b'form-data; name ="a" ; filename = "f" '
    return b"form-data;" + rbytes(r, r.randint(0, 8), b' ;="\\nameflix\t')


def gen_header(r, nl):
    k = r.random()
    if k < 0.45:
        name = r.choice([b"Content-Disposition", b"content-disposition", b"CONTENT-DISPOSITION", b"Content-Disposition"])
        return name + r.choice([b": ", b":", b":  ", b":\t"]) + gen_cd(r)
    if k < 0.62:
        return r.choice([b"Content-Type", b"content-type"]) + b": " + r.choice(
            [b"text/plain", b"Text/HTML; charset=x", b"a/b,c", b"image/png x", b"", b";"])
    if k < 0.74:
        return b"X-" + gen_token(r) + b": " + rbytes(r, r.randint(0, 5), TEXT)
    if k < 0.80:  # folded
        return b"Content-Disposition: form-data;" + nl + r.choice([b" ", b"\t", b"  "]) + b'name="' + gen_quoted(r) + b'"'
    if k < 0.84:
        return b"X-Fold: a" + nl + b" b" + nl + b"\tc"
    if k < 0.87:
        return b"no colon here"
    if k < 0.89:
        return b" Leading: space"
    if k < 0.91:
        return b": empty-name"
    if k < 0.93:
        return b"Name : lws-before-colon"
    if k < 0.95:
        return b"X-Nul: a\x00b"
    if k < 0.97:
        return b"Bad(Name): v"
    if k < 0.98:
        return b"Empty:"
    return rbytes(r, r.randint(1, 8), NASTY + b"abc")


def near_boundary(r, b):
    full = b"\r\n--" + b
    k = r.random()
    if k < 0.2:
        i = r.randrange(len(full))
        return full[:i] + full[i + 1:]
    if k < 0.35:
        return full[:r.randint(1, len(full) - 1)]
    if k < 0.45:
        return b"\n--" + b[:-1]
    if k < 0.55:
        return b"\r\n-"
    if k < 0.65:
        return b"\r"
    if k < 0.72:
        return b"\r\r\n"
    if k < 0.8:
        return b"--" + b
    if k < 0.86:
        return b"\r\n--" + b[:-1] + b"z"
    if k < 0.90:
        return b"\n"
    if k < 0.95:
        return r.choice([b"\r\r", b"\r\r\n--" + b, b"\r\r\r\n", b"x\r\ry", b"\r\r\n--" + b + b"--"])
    return b"\r\n"


def gen_payload(r, b):
    out = bytearray()
    for _ in range(r.randint(0, 5)):
        k = r.random()
        if k < 0.4:
            out += rbytes(r, r.randint(1, 6), TEXT)
        elif k < 0.75:
            out += near_boundary(r, b)
        elif k < 0.9:
            out += rbytes(r, r.randint(1, 4), NASTY)
        else:
            out += rbytes(r, r.randint(1, 3), bytes(range(256)))
    return bytes(out)


def gen_body(r, b):
    nl = r.choice([b"\r\n", b"\r\n", b"\r\n", b"\n"])
    mixed = r.random() < 0.1

    def NL():
        return r.choice([b"\r\n", b"\n"]) if mixed else nl

    out = bytearray()
    if r.random() < 0.25:
        out += gen_payload(r, b) if r.random() < 0.5 else rbytes(r, r.randint(1, 8), TEXT)
        out += NL()
    elif r.random() < 0.1:
        out += NL()
    nparts = r.choice([0, 1, 1, 2, 2, 3, 4])
    for _ in range(nparts):
        out += b"--" + b
        k = r.random()
        if k < 0.08:
            out += r.choice([b" ", b"\t", b"  "])
        elif k < 0.14:
            out += r.choice([b"x", b"-", b"-x", b" x", b"\r", b"\rx", b"-\r"])
        out += NL()
        nh = r.choice([0, 1, 1, 1, 2, 2, 3])
        for hi in range(nh):
            if hi == 0 and r.random() < 0.5:
                out += b"Content-Disposition: " + gen_cd(r) + NL()
            else:
                out += gen_header(r, NL()) + NL()
        if r.random() < 0.93:
            out += NL()
        out += gen_payload(r, b)
        if r.random() < 0.95:
            out += NL()
    k = r.random()
    if k < 0.75:
        out += b"--" + b + b"--"
        if r.random() < 0.7:
            out += NL()
        if r.random() < 0.25:
            out += gen_payload(r, b) if r.random() < 0.5 else rbytes(r, r.randint(1, 6), TEXT)
        if r.random() < 0.08:  # something after the last boundary that looks like a part
            out += NL() + b"--" + b + NL() + gen_header(r, NL()) + NL() + NL() + b"late" + NL() + b"--" + b + b"--" + NL()
    elif k < 0.85:
        out += b"--" + b + r.choice([b"-", b"", b"-x", b"--x"])
    return bytes(out)


def gen_realistic(r, b):
    """browser-like form: well-formed parts, longer values, CRLF"""
    out = bytearray()
    for i in range(r.randint(1, 5)):
        out += b"--" + b + b"\r\n"
        name = gen_token(r)
        if r.random() < 0.4:
            out += b'Content-Disposition: form-data; name="' + name + b'"; filename="' + gen_token(r) + b'.bin"\r\n'
            out += b"Content-Type: application/octet-stream\r\n\r\n"
            out += rbytes(r, r.randint(0, 120), bytes(range(256)) + b"\r\n-" * 20)
        else:
            out += b'Content-Disposition: form-data; name="' + name + b'"\r\n\r\n'
            out += rbytes(r, r.randint(0, 60), TEXT + b"\r\n-")
        out += b"\r\n"
    out += b"--" + b + b"--\r\n"
    return bytes(out)


def mutate(r, body):
    body = bytearray(body)
    for _ in range(r.randint(1, 3)):
        if not body:
            body += rbytes(r, 3, NASTY)
            continue
        k = r.random()
        i = r.randrange(len(body))
        if k < 0.25:
            del body[i]
        elif k < 0.5:
            body[i:i] = rbytes(r, r.randint(1, 3), NASTY)
        elif k < 0.7:
            body[i] = r.choice(NASTY)
        elif k < 0.8:
            del body[i:]
        elif k < 0.9:
            j = min(len(body), i + r.randint(1, 12))
            body[i:i] = body[i:j]
        else:
            j = min(len(body), i + r.randint(1, 12))
            del body[i:j]
    return bytes(body)


CT_FIXED = [
    b"multipart/form-data; boundary=B", b"multipart/form-data;boundary=B", b"multipart/form-data; boundary = B",
    b"multipart/form-data; boundary=\"B\"", b"multipart/form-data; boundary=\"B", b"multipart/form-data; boundary=\"\"",
    b"multipart/form-data; boundary=", b"multipart/form-data; boundary", b"multipart/form-data; boundary =",
    b"multipart/form-data; boundary= ", b"multipart/form-data; BOUNDARY=B", b"multipart/form-data; Boundary=B",
    b"multipart/form-data; boundary=B; boundary=C", b"multipart/form-data; boundary=B boundary", b"boundary=B",
    b"multipart/mixed; boundary=B", b"multipart/form-data boundary=B", b"multipart/form-data; boundaryx=B",
    b"multipart/form-data; boundary=B,x", b"multipart/form-data; boundary=B ;", b"multipart/form-data; boundary=B \t",
    b"multipart/form-data; boundary=a'()+_,-./:=?b", b"multipart/form-data; boundary=a*b", b"text/plain", b"",
    b"multipart/form-data; boundary=" + b"a" * 70, b"multipart/form-data; boundary=" + b"a" * 71,
    b"multipart/form-data; boundary=WebKitFormBoundaryX", b"multipart/form-data; boundary=boundary",
    b"multipart/form-data; xboundary=1; boundary=B", b"multipart/form-data; boundary\x00=B", b"multipart/form-data; boundary=B\x00",
    b"multipart/form-data; boundar", b"bOUNDARY = \"q\"z", b"multipart/form-data; boundary=\"a b\"",
]


def gen_ct(r):
    k = r.random()
    if k < 0.5:
        return r.choice(CT_FIXED)
    if k < 0.8:
        return mutate(r, r.choice(CT_FIXED))
    return rbytes(r, r.randint(0, 30), b"boundary=BOUNDARY\"; ,\tmultipart/form-data\x00xyz")


def ct_for(b):
    if any(c in b for c in b" \t\r\n\f\v;,"):
        return b'multipart/form-data; boundary="' + b + b'"'
    return b"multipart/form-data; boundary=" + b


# ---------------------------------------------------------------------------------------------
# cases

def hexs(b):
    return b.hex() if b else "-"


def line_of(ct, chunks, oob=None):
    ch = "|".join(hexs(c) for c in chunks) if chunks else "!"
    s = "mpart %s %s" % (hexs(ct), ch)
    if oob is not None:
        s += " %02x" % oob
    return s


def split_at(body, cuts):
    cuts = sorted(cuts)
    out, prev = [], 0
    for c in cuts:
        out.append(body[prev:c]); prev = c
    out.append(body[prev:])
    return out


def chunkings(r, body, max_cut_len, nrand=4):
    yield [body]
    n = len(body)
    if 1 < n <= max_cut_len:
        for c in range(1, n):
            yield [body[:c], body[c:]]
    elif n > max_cut_len:
        for c in r.sample(range(1, n), min(n - 1, 40)):
            yield [body[:c], body[c:]]
    if n > 1:
        yield [body[i:i + 1] for i in range(n)]
        for _ in range(nrand):
            k = r.randint(2, min(8, n - 1)) if n > 2 else 1
            cuts = [r.randrange(1, n) for _ in range(k)]  # repeated cut positions give empty chunks
            yield split_at(body, cuts)
        yield [body[i:i + 2] for i in range(0, n, 2)]
        yield [body[i:i + 3] for i in range(0, n, 3)]
    if n > 0 and r.random() < 0.3:
        yield [b"", body, b""]


def gen_cases(seed, nbodies, max_cut_len):
    """yields (ct, chunks, oob)"""
    r = random.Random(seed)
    seeds_parts, seeds_ct = unit_test_seeds()
    # 1. the library's own unit-test inputs: as given, and re-chunked
    ct0 = b"multipart/form-data; boundary=0123456789"
    for parts in seeds_parts:
        yield ct0, parts, None
        body = b"".join(parts)
        for ch in chunkings(r, body, max_cut_len if len(body) <= max_cut_len else 0, nrand=2):
            yield ct0, ch, None
    for ct in seeds_ct + CT_FIXED:
        b = r.choice([b"B", b"1", b"0123456789"])
        yield ct, [b"--" + b + b'\r\nContent-Disposition: form-data; name="a"\r\n\r\nv\r\n--' + b + b"--\r\n"], None
    # 2. content types
    for _ in range(max(200, nbodies // 2)):
        ct = gen_ct(r)
        yield ct, ([gen_body(r, r.choice([b"B", b"C"]))] if r.random() < 0.5 else []), None
    # 3. grammar bodies and mutants
    for i in range(nbodies):
        b = r.choice(BOUNDARIES[:7]) if r.random() < 0.9 else r.choice(BOUNDARIES)
        body = gen_realistic(r, b) if r.random() < 0.12 else gen_body(r, b)
        if r.random() < 0.35:
            body = mutate(r, body)
        ct = ct_for(b)
        if r.random() < 0.05:
            ct = gen_ct(r)
        oob = r.choice([None, None, None, 0x2d, 0x0a, 0x0d, 0x41])
        for ch in chunkings(r, body, max_cut_len):
            yield ct, ch, oob
    # 3b. short bodies glued from boundary-critical fragments: EVERY chunking with one or two cuts
    for i in range(nbodies // 6):
        b = r.choice([b"B", b"ab", b"--x"])
        frags = [b"--" + b, b"\r\n--" + b, b"\n--" + b, b"--", b"-", b"\r\n", b"\n", b"\r", b"\r\r", b"x", b" ",
                 b'Content-Disposition: form-data; name="n"', b"A: b", b" c", b'C-D: x; filename="f"',
                 b'Content-Disposition: form-data; name="n"; filename="f"\r\n\r\n', b"\r\n\r\n", b"\r\n--" + b[:-1]]
        body = (b"--" + b + r.choice([b"\r\n", b"\n"]) if r.random() < 0.7 else b"") + b"".join(
            r.choice(frags) for _ in range(r.randint(2, 9)))
        if len(body) > 64:
            body = body[:64]
        n = len(body)
        oob = r.choice([None, None, 0x2d])
        yield ct_for(b), [body], oob
        for c1 in range(1, n):
            yield ct_for(b), [body[:c1], body[c1:]], oob
            for c2 in range(c1 + 1, n):
                yield ct_for(b), [body[:c1], body[c1:c2], body[c2:]], oob
    # 4. pure noise over a small alphabet
    for i in range(nbodies // 4):
        b = r.choice([b"B", b"--x", b"ab"])
        body = rbytes(r, r.randint(0, 40), b"\r\n-B" + b[-1:] + b"a: ")
        for ch in chunkings(r, body, max_cut_len, nrand=2):
            yield ct_for(b), ch, None


# ---------------------------------------------------------------------------------------------
# comparison and shrinking

STATS = {"bad_op": 0, "no_boundary": 0, "flag_bits": {}, "nparts": {}, "types": {}, "events": 0, "distinct": set()}


def note_stats(out_lines):
    for o in out_lines:
        if o == "bad-op":
            STATS["bad_op"] += 1
            continue
        if o.startswith("boundary=~"):
            STATS["no_boundary"] += 1
        m = re.search(r"flags=(\d+)", o)
        if m:
            f = int(m.group(1))
            bit = 1
            while bit <= f:
                if f & bit:
                    STATS["flag_bits"][bit] = STATS["flag_bits"].get(bit, 0) + 1
                bit <<= 1
        ts = re.findall(r"type=(\d)", o)
        STATS["nparts"][len(ts)] = STATS["nparts"].get(len(ts), 0) + 1
        for t in ts:
            STATS["types"][t] = STATS["types"].get(t, 0) + 1
        if "events=[]" not in o:
            STATS["events"] += 1
        STATS["distinct"].add(hash(o))


def disagreeing(corr, cases, stats=False):
    lines = [line_of(*c) for c in cases]
    co, lo, err, rc = lib.run_pair(corr, lines)
    if stats:
        note_stats(co)
    bad = []
    for i in range(len(lines)):
        c = co[i] if i < len(co) else "<missing>"
        l = lo[i] if i < len(lo) else "<missing>"
        if c != l:
            bad.append((i, c, l))
    return bad, err, rc


def shrink(corr, case, rounds=400):
    """greedy batch shrinking: drop one byte / merge two chunks / simplify oob, keep while C and Lean still disagree"""
    ct, chunks, oob = case
    for _ in range(rounds):
        cands = []
        if oob is not None:
            cands.append((ct, chunks, None))
        for i in range(len(chunks) - 1):
            cands.append((ct, chunks[:i] + [chunks[i] + chunks[i + 1]] + chunks[i + 2:], oob))
        for i, c in enumerate(chunks):
            if not c:
                cands.append((ct, chunks[:i] + chunks[i + 1:], oob))
            for j in range(len(c)):
                cands.append((ct, chunks[:i] + [c[:j] + c[j + 1:]] + chunks[i + 1:], oob))
            # drop bigger slices first when the chunk is long
            for w in (16, 8, 4):
                for j in range(0, max(len(c) - w + 1, 0), w):
                    cands.insert(0, (ct, chunks[:i] + [c[:j] + c[j + w:]] + chunks[i + 1:], oob))
        if not cands:
            break
        bad, _, rc = disagreeing(corr, cands)
        if rc != 0 or not bad:
            break
        ct, chunks, oob = cands[bad[0][0]]
    return ct, chunks, oob


def main():
    ap = argparse.ArgumentParser()
    ap.add_argument("--seed", type=int, default=1)
    ap.add_argument("--bodies", type=int, default=600)
    ap.add_argument("--max-cut-len", type=int, default=150)
    ap.add_argument("--batch", type=int, default=4000)
    ap.add_argument("--show", type=int, default=3)
    ap.add_argument("--no-shrink", action="store_true")
    ap.add_argument("--no-build", action="store_true")
    a = ap.parse_args()

    t0 = time.time()
    if not a.no_build:
        ok, out = lib.lake_build(("htpdrv",))
        if not ok:
            print("lake build failed:\n" + out[-3000:])
            return 2
    corr = lib.build_repo("san")["corr"]

    total = 0
    nbad = 0
    shown = []
    crashes = 0
    san = set()
    batch = []

    def flush():
        nonlocal total, nbad, crashes
        if not batch:
            return
        bad, err, rc = disagreeing(corr, batch, stats=True)
        total += len(batch)
        nbad += len(bad)
        for s in lib.san_reports(err):
            san.add(s)
        if rc != 0:
            crashes += 1
            if len(shown) < a.show:
                shown.append(("HARNESS DIED rc=%s" % rc, err[-600:], "", None))
        for i, c, l in bad:
            if len(shown) < a.show:
                shown.append((line_of(*batch[i]), c, l, batch[i]))
        batch.clear()

    for case in gen_cases(a.seed, a.bodies, a.max_cut_len):
        batch.append(case)
        if len(batch) >= a.batch:
            flush()
    flush()

    print("seed=%d cases=%d disagreements=%d harness_crashes=%d sanitizer=%s wall=%.1fs" % (
        a.seed, total, nbad, crashes, sorted(san)[:5], time.time() - t0))
    print("coverage: bad_op=%d no_boundary=%d distinct_outputs=%d with_file_events=%d nparts=%s types=%s" % (
        STATS["bad_op"], STATS["no_boundary"], len(STATS["distinct"]), STATS["events"],
        dict(sorted(STATS["nparts"].items())), dict(sorted(STATS["types"].items()))))
    print("flag bits seen: " + " ".join("%#x:%d" % kv for kv in sorted(STATS["flag_bits"].items())))
    for ln, c, l, case in shown:
        print("--- " + ln[:300])
        print("  C   : " + c[:300])
        print("  Lean: " + l[:300])
        if case is not None and not a.no_shrink:
            s = shrink(corr, case)
            sl = line_of(*s)
            co, lo, _, _ = lib.run_pair(corr, [sl])
            print("  shrunk: ct=%r chunks=%r oob=%r" % (s[0], s[1], s[2]))
            print("    " + sl[:300])
            print("    C   : " + (co[0] if co else "<none>")[:300])
            print("    Lean: " + (lo[0] if lo else "<none>")[:300])
    return 1 if (nbad or crashes) else 0


if __name__ == "__main__":
    sys.exit(main())
