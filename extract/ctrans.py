#!/usr/bin/env python3
"""Control-flow translator: selected leaf functions of the CURRENT /repo sources -> Lean terms over HtpModel/CSem.lean.

usage: ctrans.py <repo dir> <out .lean>
The C is read through clang's typed AST (clang-14 -Xclang -ast-dump=json), so what is printed is what the compiler sees after
preprocessing (macros such as CR / LF / HTP_OK arrive as the literals they expand to).  The subset is small on purpose (integer locals,
byte-pointer parameters that are only indexed, integer out-parameters, if / while / for / break / continue / return, lazy && || ?:,
calls to other translated functions and to tolower/toupper/isspace/isdigit); anything outside it makes the translator fail LOUDLY for
that function - the check then reports the function as no longer translatable (an obligation that no longer checks), never a silent gap.
"""
import json, os, subprocess, sys
from concurrent.futures import ThreadPoolExecutor

# (source file, function) in dependency order: a callee comes before its callers
FUNCS = [
    ("htp/htp_util.c", "htp_is_lws"),
    ("htp/htp_util.c", "htp_is_text"),
    ("htp/htp_util.c", "htp_is_folding_char"),
    ("htp/htp_util.c", "htp_is_line_empty"),
    ("htp/htp_util.c", "htp_is_line_whitespace"),
    ("htp/htp_util.c", "htp_chomp"),
    ("htp/bstr.c", "bstr_util_cmp_mem"),
    ("htp/bstr.c", "bstr_util_cmp_mem_nocase"),
    ("htp/bstr.c", "bstr_util_mem_to_pint"),
    ("htp/bstr.c", "bstr_util_mem_index_of_mem"),
    ("htp/htp_util.c", "htp_parse_positive_integer_whitespace"),
    ("htp/htp_util.c", "htp_parse_port"),
    ("htp/htp_util.c", "htp_is_space"),
    ("htp/htp_util.c", "htp_is_separator"),
    ("htp/htp_util.c", "htp_is_token"),
    ("htp/bstr.c", "bstr_util_cmp_mem_nocasenorzero"),
    ("htp/bstr.c", "bstr_util_mem_index_of_mem_nocase"),
    ("htp/bstr.c", "bstr_util_mem_index_of_mem_nocasenorzero"),
    ("htp/htp_util.c", "htp_parse_chunked_length"),
    ("htp/htp_util.c", "htp_treat_response_line_as_body"),
    ("htp/htp_util.c", "htp_normalize_uri_path_inplace"),
    ("htp/htp_utf8_decoder.c", "htp_utf8_decode_allow_overlong"),
    ("htp/htp_util.c", "htp_connp_is_line_folded"),
    ("htp/bstr.c", "bstr_begins_with_mem"),
    ("htp/bstr.c", "bstr_begins_with_mem_nocase"),
    ("htp/bstr.c", "bstr_char_at"),
    ("htp/bstr.c", "bstr_char_at_end"),
    ("htp/bstr.c", "bstr_chop"),
    ("htp/bstr.c", "bstr_chr"),
    ("htp/bstr.c", "bstr_rchr"),
    ("htp/bstr.c", "bstr_to_lowercase"),
    ("htp/htp_connection.c", "htp_conn_track_inbound_data"),
    ("htp/htp_connection.c", "htp_conn_track_outbound_data"),
    ("htp/htp_request.c", "htp_connp_req_buffer"),
    ("htp/htp_response.c", "htp_connp_res_buffer"),
    ("htp/htp_request.c", "htp_connp_req_clear_buffer"),
    ("htp/htp_response.c", "htp_connp_res_clear_buffer"),
    ("htp/htp_list.c", "htp_list_array_get"),
    ("htp/htp_list.c", "htp_list_array_pop"),
    ("htp/htp_list.c", "htp_list_array_push"),
    ("htp/htp_list.c", "htp_list_array_replace"),
    ("htp/htp_list.c", "htp_list_array_size"),
    ("htp/htp_list.c", "htp_list_array_shift"),
    ("htp/htp_list.c", "htp_list_array_clear"),
]

# file-scope constant tables of the library -> the tables the tabulating translator prints into Gen/Tables.lean (pinned there)
GLOBAL_TABLES = {"utf8d": "Htp.Gen.utf8d", "utf8d_allow_overlong": "Htp.Gen.utf8dAllowOverlong"}

LIBC = {"tolower": "tolowerI", "toupper": "toupperI", "isspace": "isspaceI", "isdigit": "isdigitI"}


class Unsupported(Exception):
    pass


def ctype(t):
    q = t.get("desugaredQualType") or t.get("qualType")
    import re
    q = re.sub(r"\b(const|volatile|register|restrict)\b", "", q)
    q = re.sub(r"\s+", " ", q).strip()
    q = q.replace("* *", "**").replace("* *", "**")
    return q


INTW = {"unsigned long": "u64", "size_t": "u64", "uint64_t": "u64", "unsigned long long": "u64",
        "long": "i64", "int64_t": "i64", "long long": "i64", "ssize_t": "i64",
        "int": "i32", "htp_status_t": "i32", "unsigned int": "u32", "uint32_t": "u32",
        "unsigned char": "u8", "uint8_t": "u8", "_Bool": "u8",
        "void *": "u64"}      # an opaque pointer VALUE (stored, compared with NULL, never dereferenced)
RANGE = {"u8": (0, 255), "u32": (0, 2 ** 32 - 1), "u64": (0, 2 ** 64 - 1), "i32": (-2 ** 31, 2 ** 31 - 1), "i64": (-2 ** 63, 2 ** 63 - 1)}


def wrap_of(t):
    q = ctype(t)
    if q in INTW:
        return INTW[q]
    raise Unsupported("integer type %r" % q)


def is_ptr(t):
    return ctype(t).endswith("*")


def is_byte_ptr(t):
    q = ctype(t)
    return q.endswith("*") and q[:-1].strip() in ("unsigned char", "void", "char", "uint8_t")


def fits(src, dst):
    a, b = RANGE[src], RANGE[dst]
    return b[0] <= a[0] and a[1] <= b[1]


class E:
    """a translated expression: binds = [(var, Option-valued Lean term)], term = pure Lean term over the bound vars, kind 'i' | 'b',
    rng = wrap name whose range is known to contain the value (or None)"""
    def __init__(self, term, kind="i", binds=None, rng=None):
        self.term, self.kind, self.binds, self.rng = term, kind, binds or [], rng


class Fn:
    def __init__(self, name, decl, known):
        self.name, self.decl, self.known = name, decl, known
        self.fields = []          # (lean field, wrap)   integer state
        self.bytes_params = []    # lean names
        self.int_params = []      # (lean name, wrap, is_pointer)
        self.alias = {}           # local pointer var id -> bytes param lean name
        self.var = {}             # decl id -> ('int', field, wrap) | ('ptr', field, wrap) | ('bytes', name)
        self.nv = 0
        self.ret_wrap = None
        self.uses_fuel = False
        self.nloops = 0
        self.defs = []
        self.moving = set()
        self.nonnull = False
        self.effects = []
        self.mem_fields = []
        self.local_mem = []
        self.uses_alloc = False
        self.struct_ints = []
        self.written_fields = set()
        self.byte_mems = set()

    def fresh(self):
        self.nv += 1
        return "v%d" % self.nv

    # ---------------------------------------------------------------- expressions
    def close(self, e, k):
        """Option-valued Lean term: bind everything, then k(pure term)"""
        out = k(e.term)
        for v, t in reversed(e.binds):
            out = "(%s).bind fun %s => %s" % (t, v, out)
        return out

    def as_bool(self, e):
        if e.kind == "b":
            return e
        if e.kind == "p":
            self.nonnull = True
            return E("true", "b")
        return E("(decide (%s ≠ 0))" % e.term, "b", e.binds)

    def as_int(self, e):
        if e.kind == "i":
            return e
        return E("(b2i %s)" % e.term, "i", e.binds, "u8")

    def opt_bool(self, e):
        e = self.as_bool(e)
        self.no_effects("a condition")
        return self.close(e, lambda t: "some %s" % t)

    def bytes_of(self, n):
        """a pointer-valued expression -> Lean term of type Bytes"""
        k = n["kind"]
        if k in ("ImplicitCastExpr", "CStyleCastExpr", "ParenExpr"):
            return self.bytes_of(n["inner"][0])
        if k == "DeclRefExpr":
            v = self.var.get(n["referencedDecl"]["id"])
            if v and v[0] == "bytes":
                if v[1] in self.moving:
                    return E("(List.drop (Int.toNat s.%s_off) %s)" % (v[1], v[1]), "p")
                return E(v[1], "p")
            raise Unsupported("pointer variable %s" % n["referencedDecl"].get("name"))
        if k == "BinaryOperator" and n["opcode"] == "+":
            a, b = n["inner"]
            if is_ptr(a["type"]):
                p, o = self.bytes_of(a), self.as_int(self.expr(b))
            else:
                p, o = self.bytes_of(b), self.as_int(self.expr(a))
            return E("(List.drop (Int.toNat %s) %s)" % (o.term, p.term), "p", p.binds + o.binds)
        raise Unsupported("pointer expression %s" % k)

    def expr(self, n):
        k = n["kind"]
        if k == "IntegerLiteral":
            v = int(n["value"])
            return E(str(v) if v >= 0 else "(%d)" % v, "i", rng=self.lit_rng(v))
        if k == "CharacterLiteral":
            return E(str(int(n["value"])), "i", rng="u8" if 0 <= int(n["value"]) < 256 else "i32")
        if k == "ParenExpr":
            return self.expr(n["inner"][0])
        if k == "ConstantExpr":
            return self.expr(n["inner"][0])
        if k in ("ImplicitCastExpr", "CStyleCastExpr"):
            ck = n.get("castKind")
            inner = n["inner"][0]
            if ck in ("LValueToRValue", "NoOp", "FunctionToPointerDecay"):
                return self.expr(inner)
            if ck == "IntegralCast":
                e = self.as_int(self.expr(inner))
                w = wrap_of(n["type"])
                src = e.rng or (wrap_of(inner["type"]) if not is_ptr(inner["type"]) else None)
                if src and fits(src, w):
                    return E(e.term, "i", e.binds, src)
                return E("(%s %s)" % (w, e.term), "i", e.binds, w)
            if ck == "NullToPointer":
                return E("0", "i", rng="u8")
            if ck == "BitCast":
                return self.expr(inner)
            if ck == "IntegralToBoolean":
                return self.as_bool(self.expr(inner))
            if ck == "PointerToBoolean" and self.ptr_operand(inner):
                self.nonnull = True
                return E("true", "b")
            raise Unsupported("cast %s" % ck)
        if k == "DeclRefExpr":
            rd = n["referencedDecl"]
            v = self.var.get(rd["id"])
            if v and v[0] == "int":
                return E("s.%s" % v[1], "i", rng=v[2])
            if v and v[0] in ("ptr", "bytes", "mem", "bstr", "struct"):
                return E("ptr", "p")
            raise Unsupported("reference to %s %s" % (rd.get("kind"), rd.get("name")))
        if k == "UnaryOperator" and n.get("opcode") in ("++", "--") and n.get("isPostfix"):
            f, w = self.lvalue(n["inner"][0])
            self.effects.append("%s := (%s (s.%s %s 1))" % (f, w, f, "+" if n["opcode"] == "++" else "-"))
            return E("s.%s" % f, "i", rng=w)
        if k == "UnaryOperator":
            op = n["opcode"]
            a = n["inner"][0]
            if op == "*":
                t = a
                while t["kind"] in ("ImplicitCastExpr", "ParenExpr"):
                    t = t["inner"][0]
                if t["kind"] == "DeclRefExpr":
                    v = self.var.get(t["referencedDecl"]["id"])
                    if v and v[0] == "ptr":
                        return E("s.%s" % v[1], "i", rng=v[2])
                    if v and v[0] == "bytes":
                        w = self.fresh()
                        off = "s.%s_off" % v[1] if v[1] in self.moving else "0"
                        return E(w, "i", [(w, "rd %s %s" % (v[1], off))], "u8")
                raise Unsupported("dereference")
            if op == "-":
                t = a
                while t["kind"] in ("ParenExpr",):
                    t = t["inner"][0]
                if t["kind"] == "IntegerLiteral":
                    v = -int(t["value"])
                    return E("(%d)" % v, "i", rng=self.lit_rng(v))
                e = self.as_int(self.expr(a))
                return E("(-%s)" % e.term, "i", e.binds)
            if op == "!":
                e = self.as_bool(self.expr(a))
                return E("(!%s)" % e.term, "b", e.binds)
            if op == "+":
                return self.expr(a)
            raise Unsupported("unary %s in an expression" % op)
        if k == "BinaryOperator":
            op = n["opcode"]
            a, b = n["inner"]
            if op in ("&&", "||"):
                ea, eb = self.as_bool(self.expr(a)), self.as_bool(self.expr(b))
                if not ea.binds and not eb.binds:
                    return E("(%s %s %s)" % (ea.term, op, eb.term), "b")
                v = self.fresh()
                fn = "andL" if op == "&&" else "orL"
                return E(v, "b", [(v, "%s (%s) (%s)" % (fn, self.opt_bool(ea), self.opt_bool(eb)))])
            if op in ("==", "!=") and (is_ptr(a["type"]) or is_ptr(b["type"])):
                fp = self.field_ptr(a) or self.field_ptr(b)
                if fp:
                    return E("(decide (s.%s_null %s 0))" % (fp, "≠" if op == "==" else "="), "b")
                lm = self.lmem_of(a) or self.lmem_of(b)
                if lm:
                    return E("(decide (s.%s_null %s 0))" % (lm, "≠" if op == "==" else "="), "b")
                if self.opaque(a) or self.opaque(b):
                    ea, eb = self.as_int(self.expr(a)), self.as_int(self.expr(b))
                    return E("(decide (%s %s %s))" % (ea.term, "=" if op == "==" else "≠", eb.term), "b", ea.binds + eb.binds)
                if self.ptr_operand(a) or self.ptr_operand(b):
                    self.nonnull = True
                    return E("false" if op == "==" else "true", "b")
                raise Unsupported("pointer comparison")
            if op in ("<", ">", "<=", ">=", "==", "!="):
                ea, eb = self.as_int(self.expr(a)), self.as_int(self.expr(b))
                lop = {"<": "<", ">": ">", "<=": "≤", ">=": "≥", "==": "=", "!=": "≠"}[op]
                return E("(decide (%s %s %s))" % (ea.term, lop, eb.term), "b", ea.binds + eb.binds)
            if op in ("+", "-", "*", "/", "%"):
                if is_ptr(n["type"]):
                    raise Unsupported("pointer arithmetic as a value")
                ea, eb = self.as_int(self.expr(a)), self.as_int(self.expr(b))
                if op == "/":
                    t = "(Int.tdiv %s %s)" % (ea.term, eb.term)
                elif op == "%":
                    t = "(Int.tmod %s %s)" % (ea.term, eb.term)
                else:
                    t = "(%s %s %s)" % (ea.term, op, eb.term)
                w = wrap_of(n["type"])
                if w.startswith("u"):       # unsigned arithmetic wraps; signed overflow is undefined and not modelled
                    t = "(%s %s)" % (w, t)
                    return E(t, "i", ea.binds + eb.binds, w)
                return E(t, "i", ea.binds + eb.binds)
            if op in ("&", "|", "<<", ">>"):
                ea, eb = self.as_int(self.expr(a)), self.as_int(self.expr(b))
                fn = {"&": "bandI", "|": "borI", "<<": "shlI", ">>": "shrI"}[op]
                t = "(%s %s %s)" % (fn, ea.term, eb.term)
                w = wrap_of(n["type"])
                if w.startswith("u") and op == "<<":
                    return E("(%s %s)" % (w, t), "i", ea.binds + eb.binds, w)
                rng = None
                if op == "&":
                    rng = ea.rng if (ea.rng and ea.rng.startswith("u")) else (eb.rng if (eb.rng and eb.rng.startswith("u")) else None)
                return E(t, "i", ea.binds + eb.binds, rng)
            raise Unsupported("binary %s" % op)
        if k == "ConditionalOperator":
            c, a, b = n["inner"]
            ec, ea, eb = self.as_bool(self.expr(c)), self.as_int(self.expr(a)), self.as_int(self.expr(b))
            if not ea.binds and not eb.binds:
                rng = None
                if ea.rng and eb.rng:
                    rng = eb.rng if fits(ea.rng, eb.rng) else (ea.rng if fits(eb.rng, ea.rng) else None)
                return E("(if %s then %s else %s)" % (ec.term, ea.term, eb.term), "i", ec.binds, rng)
            v = self.fresh()
            body = "if %s then %s else %s" % (ec.term, self.close(ea, lambda t: "some %s" % t), self.close(eb, lambda t: "some %s" % t))
            return E(v, "i", ec.binds + [(v, body)])
        if k == "MemberExpr" and n.get("name") == "len" and self.struct_field(self.strip_deref(n["inner"][0])) \
                and self.struct_field(self.strip_deref(n["inner"][0]))[0] == "pbstr":
            f = self.struct_field(self.strip_deref(n["inner"][0]))[1] + "_len"
            self.ensure_int(f, "u64")
            return E("s.%s" % f, "i", rng="u64")
        if k == "MemberExpr" and self.struct_field(n):
            kind, f, w = self.struct_field(n)
            if kind == "int":
                return E("s.%s" % f, "i", rng=w)
            return E("fieldptr:" + f, "p")
        if k == "MemberExpr":
            b = n["inner"][0]
            while b["kind"] in ("ImplicitCastExpr", "ParenExpr") or (b["kind"] == "UnaryOperator" and b.get("opcode") == "*"):
                b = b["inner"][0]
            if b["kind"] == "DeclRefExpr":
                v = self.var.get(b["referencedDecl"]["id"])
                if v and v[0] == "bstr" and n.get("name") == "len":
                    return E("s.%s_len" % v[1], "i", rng="u64")
            raise Unsupported("member %s" % n.get("name"))
        if k == "ArraySubscriptExpr" and self.global_table(n["inner"][0]):
            i = self.as_int(self.expr(n["inner"][1]))
            v = self.fresh()
            return E(v, "i", i.binds + [(v, "rdT %s %s" % (self.global_table(n["inner"][0]), i.term))], wrap_of(n["type"]))
        if k == "ArraySubscriptExpr" and self.mem_base(n["inner"][0]):
            m = self.mem_base(n["inner"][0])
            i = self.as_int(self.expr(n["inner"][1]))
            v = self.fresh()
            return E(v, "i", i.binds + [(v, "rdM s.%s %s" % (m, i.term))], wrap_of(n["type"]))
        if k == "ArraySubscriptExpr":
            base, idx = n["inner"]
            i = self.as_int(self.expr(idx))
            mv = self.moving_base(base)
            v = self.fresh()
            if mv:
                return E(v, "i", i.binds + [(v, "rd %s (s.%s_off + %s)" % (mv, mv, i.term))], "u8")
            p = self.bytes_of(base)
            return E(v, "i", p.binds + i.binds + [(v, "rd %s %s" % (p.term, i.term))], "u8")
        if k == "CallExpr":
            return self.call(n, None)[0]
        raise Unsupported("expression %s" % k)

    def global_table(self, n):
        while n["kind"] in ("ImplicitCastExpr", "CStyleCastExpr", "ParenExpr"):
            n = n["inner"][0]
        if n["kind"] == "DeclRefExpr" and n["referencedDecl"].get("kind") == "VarDecl" and n["referencedDecl"]["id"] not in self.var:
            return GLOBAL_TABLES.get(n["referencedDecl"].get("name"))
        return None

    def mem_base(self, n):
        """the state field of the mutable array behind the pointer expression `n` (None if it is not one)"""
        while n["kind"] in ("ImplicitCastExpr", "CStyleCastExpr", "ParenExpr"):
            n = n["inner"][0]
        if n["kind"] == "DeclRefExpr":
            v = self.var.get(n["referencedDecl"]["id"])
            if v and v[0] == "mem":
                return v[1]
            if v and v[0] == "lmem":
                return v[1] + "_mem"
        if n["kind"] == "MemberExpr":
            sf = self.struct_field(n)
            if sf and sf[0] == "mem":
                return sf[1]
        return None

    @staticmethod
    def strip_deref(t):
        while t["kind"] in ("ImplicitCastExpr", "ParenExpr") or (t["kind"] == "UnaryOperator" and t.get("opcode") == "*"):
            t = t["inner"][0]
        return t

    def field_ptr(self, n):
        """the state name of a pointer-valued struct field behind `n`, else None"""
        while n["kind"] in ("ImplicitCastExpr", "CStyleCastExpr", "ParenExpr"):
            n = n["inner"][0]
        if n["kind"] == "MemberExpr":
            sf = self.struct_field(n)
            if sf and sf[0] in ("mem", "pbytes", "pbstr") and not ctype(n["type"]).endswith("**"):
                return sf[1]
        return None

    def struct_path(self, n):
        """`p->a->b` for a struct-pointer parameter p -> (state name "p_a_b", the MemberExpr's C type) or None"""
        names = []
        t = n
        while True:
            while t["kind"] in ("ImplicitCastExpr", "ParenExpr") or (t["kind"] == "UnaryOperator" and t.get("opcode") == "*"):
                t = t["inner"][0]
            if t["kind"] == "MemberExpr":
                names.append(t["name"])
                t = t["inner"][0]
                continue
            break
        if t["kind"] != "DeclRefExpr":
            return None
        v = self.var.get(t["referencedDecl"]["id"])
        if not (v and v[0] == "struct"):
            return None
        return "_".join([v[1]] + list(reversed(names)))

    def struct_field(self, n):
        """`p->f`: ('int', field, wrap) | ('mem', field, None) array of pointers or written byte buffer | ('pbytes', field, None) byte
        pointer that is only read | ('pbstr', field, None); pointer fields also get an integer `<field>_null`"""
        if n["kind"] != "MemberExpr":
            return None
        f = self.struct_path(n)
        if f is None:
            return None
        q = ctype(n["type"])
        if q.endswith("**"):
            if f not in self.mem_fields:
                self.mem_fields.append(f)
            return ("mem", f, None)
        if q in ("unsigned char *", "char *", "uint8_t *"):
            self.ensure_int(f + "_null", "i32")
            if f in self.written_fields:
                if f not in self.mem_fields:
                    self.mem_fields.append(f)
                    self.byte_mems.add(f)
                return ("mem", f, None)
            if f not in self.bytes_params:
                self.bytes_params.append(f)
            return ("pbytes", f, None)
        if q in ("bstr *", "struct bstr_t *"):
            self.ensure_int(f + "_null", "i32")
            return ("pbstr", f, None)
        if q.endswith("*"):
            return ("pstruct", f, None)
        w = wrap_of(n["type"])
        self.ensure_int(f, w)
        return ("int", f, w)

    def ensure_int(self, f, w):
        if f not in [x for x, _ in self.fields]:
            self.fields.append((f, w))
            self.int_params.append(f)
            self.struct_ints.append(f)

    def lmem_of(self, n):
        while n["kind"] in ("ImplicitCastExpr", "CStyleCastExpr", "ParenExpr"):
            n = n["inner"][0]
        if n["kind"] == "DeclRefExpr":
            v = self.var.get(n["referencedDecl"]["id"])
            if v and v[0] == "lmem":
                return v[1]
        return None

    def opaque(self, n):
        while n["kind"] in ("ImplicitCastExpr", "CStyleCastExpr", "ParenExpr"):
            n = n["inner"][0]
        if n["kind"] == "DeclRefExpr":
            v = self.var.get(n["referencedDecl"]["id"])
            return bool(v and v[0] == "int" and v[2] == "u64" and is_ptr(n["type"]))
        return False

    def elems(self, n):
        """a pointer expression into a mutable array -> (state field, element offset term); byte offsets must be `k * sizeof(T)`"""
        while n["kind"] in ("ImplicitCastExpr", "CStyleCastExpr", "ParenExpr"):
            n = n["inner"][0]
        m = self.mem_base(n)
        if m:
            return m, "0"
        if n["kind"] == "BinaryOperator" and n["opcode"] == "+":
            a, b = n["inner"]
            m = self.elems(a)
            k = self.count(b, m[0] in self.byte_mems)
            return m[0], "(%s + %s)" % (m[1], k) if m[1] != "0" else k
        raise Unsupported("pointer expression into an array")

    def bytes_src(self, n):
        """a pointer into an immutable byte array (parameter, struct field or a local `p = field + k`) -> (Bytes term, offset term)"""
        while n["kind"] in ("ImplicitCastExpr", "CStyleCastExpr", "ParenExpr"):
            n = n["inner"][0]
        if n["kind"] == "DeclRefExpr":
            v = self.var.get(n["referencedDecl"]["id"])
            if v and v[0] == "lptr":
                return v[1], "s.%s" % v[2]
            if v and v[0] == "bytes":
                return v[1], ("s.%s_off" % v[1] if v[1] in self.moving else "0")
        if n["kind"] == "MemberExpr":
            sf = self.struct_field(n)
            if sf and sf[0] == "pbytes":
                return sf[1], "0"
        return None

    def count(self, n, bytewise=False):
        """`k * sizeof(T)` -> k (a pure integer term); for byte buffers the expression itself"""
        while n["kind"] in ("ImplicitCastExpr", "CStyleCastExpr", "ParenExpr"):
            n = n["inner"][0]
        if bytewise:
            e = self.as_int(self.expr(n))
            if e.binds:
                raise Unsupported("size with reads")
            return e.term
        if n["kind"] == "BinaryOperator" and n["opcode"] == "*":
            a, b = n["inner"]
            sa = a
            while sa["kind"] in ("ImplicitCastExpr", "CStyleCastExpr", "ParenExpr"):
                sa = sa["inner"][0]
            sb = b
            while sb["kind"] in ("ImplicitCastExpr", "CStyleCastExpr", "ParenExpr"):
                sb = sb["inner"][0]
            if sb["kind"] == "UnaryExprOrTypeTraitExpr":
                e = self.as_int(self.expr(a))
            elif sa["kind"] == "UnaryExprOrTypeTraitExpr":
                e = self.as_int(self.expr(b))
            else:
                raise Unsupported("size that is not k * sizeof")
            if e.binds:
                raise Unsupported("size with reads")
            return e.term
        raise Unsupported("size that is not k * sizeof")

    def moving_base(self, n):
        """the byte parameter behind `n` when it is a plain reference to a pointer that the function moves"""
        while n["kind"] in ("ImplicitCastExpr", "CStyleCastExpr", "ParenExpr"):
            n = n["inner"][0]
        if n["kind"] == "DeclRefExpr":
            v = self.var.get(n["referencedDecl"]["id"])
            if v and v[0] == "bytes" and v[1] in self.moving:
                return v[1]
        return None

    def is_null(self, n):
        while n["kind"] in ("ImplicitCastExpr", "CStyleCastExpr", "ParenExpr"):
            n = n["inner"][0]
        return (n["kind"] == "IntegerLiteral" and int(n["value"]) == 0 and False) or n["kind"] == "GNUNullExpr"

    def ptr_operand(self, n):
        t = n
        while t["kind"] in ("ImplicitCastExpr", "CStyleCastExpr", "ParenExpr"):
            t = t["inner"][0]
        if t["kind"] == "DeclRefExpr":
            v = self.var.get(t["referencedDecl"]["id"])
            return bool(v and v[0] in ("bytes", "ptr", "mem", "bstr", "struct"))
        return False

    @staticmethod
    def lit_rng(v):
        for w in ("u8", "i32", "u32", "i64", "u64"):
            if RANGE[w][0] <= v <= RANGE[w][1]:
                return w
        return None

    def callee_name(self, n):
        f = n["inner"][0]
        while f["kind"] in ("ImplicitCastExpr", "ParenExpr"):
            f = f["inner"][0]
        if f["kind"] != "DeclRefExpr":
            raise Unsupported("indirect call")
        return f["referencedDecl"]["name"]

    def call(self, n, _):
        """-> (E for the returned value, [(caller field, callee field)] out-parameter copies); the bound variable holds (value, state)"""
        name = self.callee_name(n)
        args = n["inner"][1:]
        if name in LIBC:
            e = self.as_int(self.expr(args[0]))
            return E("(%s %s)" % (LIBC[name], e.term), "i", e.binds, "i32"), []
        if name not in self.known:
            raise Unsupported("call of %s (not translated)" % name)
        cal = self.known[name]
        binds, bts, ints, outs = [], [], [], []
        bi = ii = 0
        params = cal.decl_params
        if len(params) != len(args):
            raise Unsupported("arity of %s" % name)
        for (pk, pname, pw), a in zip(params, args):
            if pk == "bytes":
                p = self.bytes_of(a)
                binds += p.binds
                bts.append(p.term)
            elif pk == "int":
                e = self.as_int(self.expr(a))
                binds += e.binds
                ints.append(e.term)
            else:   # pointer to integer: &local
                t = a
                while t["kind"] in ("ImplicitCastExpr", "ParenExpr"):
                    t = t["inner"][0]
                if t["kind"] == "UnaryOperator" and t["opcode"] == "&" and t["inner"][0]["kind"] == "DeclRefExpr":
                    v = self.var.get(t["inner"][0]["referencedDecl"]["id"])
                    if v and v[0] == "int":
                        ints.append("s.%s" % v[1])
                        outs.append((v[1], pname, v[2], pw))
                        continue
                if t["kind"] == "DeclRefExpr":
                    v = self.var.get(t["referencedDecl"]["id"])
                    if v and v[0] == "ptr":
                        ints.append("s.%s" % v[1])
                        outs.append((v[1], pname, v[2], pw))
                        continue
                raise Unsupported("argument for the pointer parameter %s of %s" % (pname, name))
        self.uses_fuel = True
        v = self.fresh()
        binds.append((v, "%s fuel %s" % (name, " ".join(bts + ints)) if (bts or ints) else "%s fuel" % name))
        return E("%s.1" % v, "i", binds, cal.ret_wrap), [(c, "%s.2.%s" % (v, f), cw, fw) for c, f, cw, fw in outs]

    # ---------------------------------------------------------------- statements
    def store(self, field, w, e, extra=()):
        """assign statement: field := wrap(e) (+ out-parameter copies)"""
        e = self.as_int(e)
        val = e.term if (e.rng and fits(e.rng, w)) else "(%s %s)" % (w, e.term)
        ups = ["%s := %s" % (field, val)] + ["%s := %s" % (c, t if fits(fw, cw) else "(%s %s)" % (cw, t)) for c, t, cw, fw in extra]
        ups += self.take_effects()
        return "assignS (fun s => %s)" % self.close(e, lambda _: "some { s with %s }" % ", ".join(ups))

    def take_effects(self):
        e, self.effects = self.effects, []
        return e

    def no_effects(self, what):
        if self.effects:
            self.effects = []
            raise Unsupported("side effect inside %s" % what)

    def alloc(self, lm, rhs):
        """`blk = realloc(arr, k * sizeof T)` / `blk = malloc(k * sizeof T)` / `blk = NULL`; success is the parameter alloc_ok"""
        t = rhs
        while t["kind"] in ("ImplicitCastExpr", "CStyleCastExpr", "ParenExpr"):
            if t.get("castKind") == "NullToPointer":
                return "assignS (fun s => some { s with %s_null := 1 })" % lm
            t = t["inner"][0]
        if t["kind"] == "CallExpr" and self.callee_name(t) in ("realloc", "malloc"):
            self.uses_alloc = True
            if self.callee_name(t) == "realloc":
                src = self.elems(t["inner"][1])
                if src[1] != "0":
                    raise Unsupported("realloc of an inner pointer")
                newm = "(resizeM s.%s (Int.toNat %s))" % (src[0], self.count(t["inner"][2], src[0] in self.byte_mems))
            else:
                newm = "(List.replicate (Int.toNat %s) 0)" % self.count(t["inner"][1])
            return ("assignS (fun s => some (if s.alloc_ok ≠ 0 then { s with %s_mem := %s, %s_null := 0 } else { s with %s_null := 1 }))"
                    % (lm, newm, lm, lm))
        raise Unsupported("assignment to a local block")

    def mem_store(self, lhs, rhs_node):
        """`a[i] = e` on a mutable array"""
        m = self.mem_base(lhs["inner"][0])
        i = self.as_int(self.expr(lhs["inner"][1]))
        e = self.as_int(self.expr(rhs_node))
        w = wrap_of(lhs["type"])
        val = e.term if (e.rng and fits(e.rng, w)) else "(%s %s)" % (w, e.term)
        ups = ["%s := m'" % m] + self.take_effects()
        both = E(val, "i", i.binds + e.binds)
        return "assignS (fun s => %s)" % self.close(both, lambda t: "(wrM s.%s %s %s).bind fun m' => some { s with %s }" % (m, i.term, t, ", ".join(ups)))

    def lvalue(self, n):
        while n["kind"] in ("ParenExpr",):
            n = n["inner"][0]
        if n["kind"] == "DeclRefExpr":
            v = self.var.get(n["referencedDecl"]["id"])
            if v and v[0] == "int":
                return v[1], v[2]
        if n["kind"] == "UnaryOperator" and n["opcode"] == "*":
            t = n["inner"][0]
            while t["kind"] in ("ImplicitCastExpr", "ParenExpr"):
                t = t["inner"][0]
            if t["kind"] == "DeclRefExpr":
                v = self.var.get(t["referencedDecl"]["id"])
                if v and v[0] == "ptr":
                    return v[1], v[2]
        if n["kind"] == "MemberExpr":
            sf = self.struct_field(n)
            if sf and sf[0] == "int":
                return sf[1], sf[2]
        raise Unsupported("assignment target %s" % n["kind"])

    def rhs(self, n):
        """expression on the right of an initialisation/assignment: a call may carry out-parameters"""
        t = n
        while t["kind"] in ("ParenExpr",) or (t["kind"] in ("ImplicitCastExpr", "CStyleCastExpr") and t.get("castKind") in ("NoOp", "LValueToRValue")):
            t = t["inner"][0]
        if t["kind"] == "CallExpr" and self.callee_name(t) in self.known:
            return self.call(t, None)
        if t["kind"] in ("ImplicitCastExpr", "CStyleCastExpr") and t.get("castKind") == "IntegralCast":
            u = t["inner"][0]
            while u["kind"] == "ParenExpr":
                u = u["inner"][0]
            if u["kind"] == "CallExpr" and self.callee_name(u) in self.known:
                e, outs = self.call(u, None)
                w = wrap_of(t["type"])
                if e.rng and fits(e.rng, w):
                    return e, outs
                return E("(%s %s)" % (w, e.term), "i", e.binds, w), outs
        return self.expr(n), []

    def expr_stmt(self, n):
        k = n["kind"]
        if k == "ParenExpr":
            return self.expr_stmt(n["inner"][0])
        if k == "UnaryOperator" and n["opcode"] in ("++", "--") and self.moving_base(n["inner"][0]):
            mv = self.moving_base(n["inner"][0])
            return "assignS (fun s => some { s with %s_off := (s.%s_off %s 1) })" % (mv, mv, "+" if n["opcode"] == "++" else "-")
        if k == "UnaryOperator" and n["opcode"] in ("++", "--"):
            f, w = self.lvalue(n["inner"][0])
            op = "+" if n["opcode"] == "++" else "-"
            return "assignS (fun s => some { s with %s := (%s (s.%s %s 1)) })" % (f, w, f, op)
        if k == "BinaryOperator" and n["opcode"] == "=" and self.lmem_of(n["inner"][0]):
            return self.alloc(self.lmem_of(n["inner"][0]), n["inner"][1])
        if k == "BinaryOperator" and n["opcode"] == "=" and n["inner"][0]["kind"] == "MemberExpr" \
                and (self.struct_field(n["inner"][0]) or ("",))[0] == "mem":
            f = self.struct_field(n["inner"][0])[1]
            nullf = (", %s_null := 0" % f) if f in self.byte_mems else ""
            lm = self.lmem_of(n["inner"][1])
            if lm:
                return "assignS (fun s => some { s with %s := s.%s_mem%s })" % (f, lm, nullf)
            t = n["inner"][1]
            while t["kind"] in ("ImplicitCastExpr", "CStyleCastExpr", "ParenExpr"):
                if t.get("castKind") == "NullToPointer":
                    return "assignS (fun s => some { s with %s := [], %s_null := 1 })" % (f, f)
                t = t["inner"][0]
            if t["kind"] == "CallExpr" and self.callee_name(t) == "malloc" and f in self.byte_mems:
                self.uses_alloc = True
                return ("assignS (fun s => some (if s.alloc_ok ≠ 0 then { s with %s := (List.replicate (Int.toNat %s) 0), %s_null := 0 } "
                        "else { s with %s := [], %s_null := 1 }))" % (f, self.count(t["inner"][1], True), f, f, f))
            raise Unsupported("array field assigned from something that is not a local block")
        if k == "BinaryOperator" and n["opcode"] == "=" and n["inner"][0]["kind"] == "ArraySubscriptExpr" and self.mem_base(n["inner"][0]["inner"][0]):
            return self.mem_store(n["inner"][0], n["inner"][1])
        if k == "BinaryOperator" and n["opcode"] == "=":
            f, w = self.lvalue(n["inner"][0])
            e, outs = self.rhs(n["inner"][1])
            return self.store(f, w, e, outs)
        if k == "CompoundAssignOperator":
            f, w = self.lvalue(n["inner"][0])
            op = n["opcode"][:-1]
            if op not in ("+", "-", "*"):
                raise Unsupported("compound %s" % n["opcode"])
            e = self.as_int(self.expr(n["inner"][1]))
            self.no_effects("a compound assignment")
            return self.store(f, w, E("(s.%s %s %s)" % (f, op, e.term), "i", e.binds))
        if k == "BinaryOperator" and n["opcode"] == ",":
            return "seqS (%s) (%s)" % (self.expr_stmt(n["inner"][0]), self.expr_stmt(n["inner"][1]))
        raise Unsupported("expression statement %s %s" % (k, n.get("opcode", "")))

    def stmt(self, n):
        k = n["kind"]
        if k == "CompoundStmt":
            out = None
            for c in reversed(n.get("inner", [])):
                if c["kind"] in ("WhileStmt", "ForStmt"):
                    out = self.loop(c, out or "skipS")
                    continue
                p = self.stmt(c)
                if p == "skipS":
                    continue
                out = p if out is None else "seqS (%s)\n  (%s)" % (p, out)
            return out or "skipS"
        if k == "DeclStmt":
            parts = []
            for d in n["inner"]:
                if d["kind"] != "VarDecl":
                    raise Unsupported("declaration %s" % d["kind"])
                v = self.var[d["id"]]
                if v[0] == "lptr":
                    e = self.as_int(self.expr(d["inner"][0]["inner"][1]))
                    parts.append(self.store(v[2], "i64", e))
                    continue
                if v[0] in ("bytes", "mem"):
                    continue
                if v[0] == "lmem":
                    if d.get("inner"):
                        parts.append(self.alloc(v[1], d["inner"][0]))
                    continue
                if "inner" in d and d["inner"]:
                    e, outs = self.rhs(d["inner"][0])
                    parts.append(self.store(v[1], v[2], e, outs))
            if not parts:
                return "skipS"
            out = parts[-1]
            for p in reversed(parts[:-1]):
                out = "seqS (%s) (%s)" % (p, out)
            return out
        if k == "IfStmt":
            inner = n["inner"]
            c = self.opt_bool(self.expr(inner[0]))
            a = self.stmt(inner[1])
            b = self.stmt(inner[2]) if len(inner) > 2 else "skipS"
            return "iteS (fun s => %s)\n  (%s)\n  (%s)" % (c, a, b)
        if k in ("WhileStmt", "ForStmt"):
            return self.loop(n, "skipS")
        if k == "SwitchStmt":
            return self.switch(n)
        if k == "ReturnStmt" and not n.get("inner"):
            return "retS (fun s => some 0)"
        if k == "CallExpr" and self.callee_name(n) == "free":
            return "skipS"
        if k == "CallExpr" and self.callee_name(n) == "htp_log":
            return "skipS"     # logging: no effect on the state that is modelled
        if k == "CallExpr" and self.callee_name(n) == "memcpy" and self.bytes_src(n["inner"][2]):
            d = self.elems(n["inner"][1])
            src, soff = self.bytes_src(n["inner"][2])
            cnt = self.count(n["inner"][3], d[0] in self.byte_mems)
            return ("assignS (fun s => (memcpyB s.%s %s %s %s %s).bind fun m' => some { s with %s := m' })"
                    % (d[0], d[1], src, soff, cnt, d[0]))
        if k == "CallExpr" and self.callee_name(n) == "memcpy":
            d, so = self.elems(n["inner"][1]), self.elems(n["inner"][2])
            cnt = self.count(n["inner"][3])
            return ("assignS (fun s => (memcpyM s.%s %s s.%s %s %s).bind fun m' => some { s with %s := m' })"
                    % (d[0], d[1], so[0], so[1], cnt, d[0]))
        if k == "CallExpr" and self.callee_name(n) == "bstr_adjust_len":
            b = n["inner"][1]
            while b["kind"] in ("ImplicitCastExpr", "ParenExpr"):
                b = b["inner"][0]
            v = self.var.get(b["referencedDecl"]["id"]) if b["kind"] == "DeclRefExpr" else None
            if not (v and v[0] == "bstr"):
                raise Unsupported("bstr_adjust_len on something that is not a bstr parameter")
            return self.store("%s_len" % v[1], "u64", self.expr(n["inner"][2]))
        if k == "ReturnStmt" and self.ret_ptr:
            # a returned object pointer is reported as 0 (NULL) or 1 (the parameter itself)
            t = n["inner"][0]
            while t["kind"] in ("ImplicitCastExpr", "CStyleCastExpr", "ParenExpr"):
                if t.get("castKind") == "NullToPointer":
                    return "retS (fun s => some 0)"
                t = t["inner"][0]
            if t["kind"] == "DeclRefExpr" and self.var.get(t["referencedDecl"]["id"], ("",))[0] in ("bstr", "struct"):
                return "retS (fun s => some 1)"
            raise Unsupported("returned pointer")
        if k == "ReturnStmt":
            e = self.as_int(self.expr(n["inner"][0]))
            self.no_effects("a return")
            w = self.ret_wrap
            val = (lambda t: "some %s" % t) if (e.rng and fits(e.rng, w)) else (lambda t: "some (%s %s)" % (w, t))
            return "retS (fun s => %s)" % self.close(e, val)
        if k == "BreakStmt":
            return "brkS"
        if k == "ContinueStmt":
            return "contS"
        if k == "NullStmt":
            return "skipS"
        if k in ("BinaryOperator", "UnaryOperator", "CompoundAssignOperator", "ParenExpr"):
            return self.expr_stmt(n)
        if k == "CallExpr":
            e, outs = self.call(n, None)
            if not outs:
                raise Unsupported("call statement without effect")
            c, t, cw, fw = outs[0]
            return self.store(c, cw, E(t, "i", e.binds, fw), outs[1:])
        raise Unsupported("statement %s" % k)

    def switch(self, n):
        cond, body = n["inner"][0], n["inner"][-1]
        e = self.as_int(self.expr(cond))
        if e.binds:
            raise Unsupported("switch on an expression with reads")
        groups, cur = [], None
        for c in body.get("inner", []):
            labels = []
            while c["kind"] in ("CaseStmt", "DefaultStmt"):
                if c["kind"] == "CaseStmt":
                    lv = self.expr(c["inner"][0])
                    labels.append(lv.term)
                    c = c["inner"][1]
                else:
                    labels.append(None)
                    c = c["inner"][0]
            if labels:
                cur = [labels, []]
                groups.append(cur)
            if cur is None:
                raise Unsupported("statement before the first case")
            cur[1].append(c)
        out = "skipS"
        dflt = None
        arms = []
        for labels, stmts in groups:
            while stmts and stmts[-1]["kind"] == "BreakStmt":
                stmts = stmts[:-1]
                ended = True
            else:
                ended = bool(stmts) and stmts[-1]["kind"] == "ReturnStmt"
            if not (stmts and stmts[-1]["kind"] == "ReturnStmt") and not ended:
                raise Unsupported("switch group falls through")
            if any(self.has_break(x) for x in stmts):
                raise Unsupported("break nested inside a switch group")
            code = self.stmt({"kind": "CompoundStmt", "inner": stmts})
            if None in labels:
                dflt = code
                labels = [l for l in labels if l is not None]
                if labels:
                    arms.append((labels, code))
            else:
                arms.append((labels, code))
        out = dflt or "skipS"
        for labels, code in reversed(arms):
            c = " || ".join("(decide (%s = %s))" % (e.term, l) for l in labels)
            out = "iteS (fun s => some (%s))\n  (%s)\n  (%s)" % (c, code, out)
        return out

    def has_break(self, n):
        if n.get("kind") == "BreakStmt":
            return True
        if n.get("kind") in ("WhileStmt", "ForStmt", "DoStmt", "SwitchStmt"):
            return False
        return any(isinstance(c, dict) and self.has_break(c) for c in n.get("inner", []) or [])

    def loop(self, n, rest):
        """register cond/body/incr/rest/loop definitions for one loop; -> the statement term (with the for-initialiser in front)"""
        self.uses_fuel = True
        if n["kind"] == "WhileStmt":
            init, cond, inc, body = None, n["inner"][0], None, n["inner"][1]
        else:
            init, _cv, cond, inc, body = n["inner"]
        i = self.stmt(init) if init else "skipS"
        c = self.opt_bool(self.expr(cond)) if cond else "some true"
        b = self.stmt(body)
        s = self.expr_stmt(inc) if inc else "skipS"
        self.nloops += 1
        k = self.nloops
        st = "St_" + self.name
        args = " ".join(["fuel"] + self.bytes_params)
        sig = " ".join(["(fuel : Nat)"] + ["(%s : Bytes)" % x for x in self.bytes_params])
        nm = lambda part: "%s_%s%d" % (self.name, part, k)
        self.defs.append("def %s %s : %s → Option Bool :=\n  fun s => %s\n" % (nm("cond"), sig, st, c))
        self.defs.append("def %s %s : Stmt %s :=\n  %s\n" % (nm("body"), sig, st, b.replace("\n", "\n  ")))
        self.defs.append("def %s %s : Stmt %s :=\n  %s\n" % (nm("incr"), sig, st, s))
        self.defs.append("def %s %s : Stmt %s :=\n  %s\n" % (nm("rest"), sig, st, rest.replace("\n", "\n  ")))
        self.defs.append("/-- loop %d of `%s` followed by the rest of its block -/\ndef %s %s : Stmt %s :=\n  seqS (whileF (%s %s) (%s %s) (%s %s) fuel) (%s %s)\n"
                         % (k, self.name, nm("loop"), sig, st, nm("cond"), args, nm("body"), args, nm("incr"), args, nm("rest"), args))
        t = "%s %s" % (nm("loop"), args)
        return t if i == "skipS" else "seqS (%s)\n  (%s)" % (i, t)

    # ---------------------------------------------------------------- whole function
    def collect(self, n):
        if n.get("kind") == "VarDecl":
            yield n
        for c in n.get("inner", []) or []:
            if isinstance(c, dict):
                yield from self.collect(c)

    def bstr_ptr_of(self, vardecl):
        """`unsigned char *p = bstr_ptr(s)` (the macro tests realptr): the bstr parameter whose content p aliases"""
        found = []

        def walk(n):
            if n.get("kind") == "MemberExpr" and n.get("name") == "realptr":
                b = n["inner"][0]
                while b["kind"] in ("ImplicitCastExpr", "ParenExpr") or (b["kind"] == "UnaryOperator" and b.get("opcode") == "*"):
                    b = b["inner"][0]
                if b["kind"] == "DeclRefExpr":
                    v = self.var.get(b["referencedDecl"]["id"])
                    if v and v[0] == "bstr":
                        found.append(v[1])
            for c in n.get("inner", []) or []:
                if isinstance(c, dict):
                    walk(c)
        walk(vardecl)
        return found[0] if found and len(set(found)) == 1 else None

    def find_written(self, n, out):
        """ids of pointer variables that are written through (`p[i] = ...`)"""
        if n.get("kind") == "BinaryOperator" and n.get("opcode") == "=" and n["inner"][0]["kind"] == "ArraySubscriptExpr":
            t = n["inner"][0]["inner"][0]
            while t["kind"] in ("ImplicitCastExpr", "CStyleCastExpr", "ParenExpr"):
                t = t["inner"][0]
            if t["kind"] == "DeclRefExpr":
                out.add(t["referencedDecl"]["id"])
        for c in n.get("inner", []) or []:
            if isinstance(c, dict):
                self.find_written(c, out)

    def scan_written_fields(self, n):
        """byte-pointer struct fields that are assigned or are the destination of a memcpy: they are buffers the function owns"""
        def path_of(t):
            while t["kind"] in ("ImplicitCastExpr", "CStyleCastExpr", "ParenExpr"):
                t = t["inner"][0]
            if t["kind"] == "BinaryOperator" and t.get("opcode") == "+":
                return path_of(t["inner"][0])
            if t["kind"] == "MemberExpr" and ctype(t["type"]) in ("unsigned char *", "char *", "uint8_t *"):
                return self.struct_path(t)
            return None
        if n.get("kind") == "BinaryOperator" and n.get("opcode") == "=":
            p = path_of(n["inner"][0]) if n["inner"][0]["kind"] == "MemberExpr" else None
            if p:
                self.written_fields.add(p)
        if n.get("kind") == "CallExpr":
            f = n["inner"][0]
            while f["kind"] in ("ImplicitCastExpr", "ParenExpr"):
                f = f["inner"][0]
            if f.get("referencedDecl", {}).get("name") == "memcpy":
                p = path_of(n["inner"][1])
                if p:
                    self.written_fields.add(p)
        for c in n.get("inner", []) or []:
            if isinstance(c, dict):
                self.scan_written_fields(c)

    def find_alloc_targets(self, n, out):
        if n.get("kind") == "VarDecl" and n.get("inner"):
            t = n["inner"][0]
            while t["kind"] in ("ImplicitCastExpr", "CStyleCastExpr", "ParenExpr"):
                t = t["inner"][0]
            if t["kind"] == "CallExpr":
                f = t["inner"][0]
                while f["kind"] in ("ImplicitCastExpr", "ParenExpr"):
                    f = f["inner"][0]
                if f.get("referencedDecl", {}).get("name") in ("malloc", "realloc", "calloc"):
                    out.add(n["id"])
        if n.get("kind") == "BinaryOperator" and n.get("opcode") == "=":
            t = n["inner"][1]
            while t["kind"] in ("ImplicitCastExpr", "CStyleCastExpr", "ParenExpr"):
                t = t["inner"][0]
            if t["kind"] == "CallExpr":
                f = t["inner"][0]
                while f["kind"] in ("ImplicitCastExpr", "ParenExpr"):
                    f = f["inner"][0]
                if f.get("referencedDecl", {}).get("name") in ("malloc", "realloc", "calloc"):
                    l = n["inner"][0]
                    while l["kind"] in ("ParenExpr",):
                        l = l["inner"][0]
                    if l["kind"] == "DeclRefExpr":
                        out.add(l["referencedDecl"]["id"])
        for c in n.get("inner", []) or []:
            if isinstance(c, dict):
                self.find_alloc_targets(c, out)

    def find_array_use(self, n, out):
        """ids of pointer variables that are indexed, dereferenced, moved, aliased by a local pointer or used in pointer arithmetic"""
        def ref(t):
            while t.get("kind") in ("ImplicitCastExpr", "CStyleCastExpr", "ParenExpr"):
                t = t["inner"][0]
            if t.get("kind") == "DeclRefExpr":
                out.add(t["referencedDecl"]["id"])
        k = n.get("kind")
        if k == "ArraySubscriptExpr":
            ref(n["inner"][0])
        elif k == "UnaryOperator" and n.get("opcode") in ("*", "++", "--"):
            ref(n["inner"][0])
        elif k == "VarDecl" and "type" in n and is_ptr(n["type"]) and n.get("inner"):
            ref(n["inner"][0])
        elif k == "BinaryOperator" and n.get("opcode") in ("+", "-") and "type" in n and is_ptr(n["type"]):
            ref(n["inner"][0]); ref(n["inner"][1])
        for c in n.get("inner", []) or []:
            if isinstance(c, dict):
                self.find_array_use(c, out)

    def find_moving(self, n):
        if n.get("kind") == "UnaryOperator" and n.get("opcode") in ("++", "--"):
            t = n["inner"][0]
            while t["kind"] in ("ParenExpr",):
                t = t["inner"][0]
            if t["kind"] == "DeclRefExpr":
                v = self.var.get(t["referencedDecl"]["id"])
                if v and v[0] == "bytes":
                    self.moving.add(v[1])
        for c in n.get("inner", []) or []:
            if isinstance(c, dict):
                self.find_moving(c)

    def translate(self):
        d = self.decl
        rt = d["type"]["qualType"].split("(")[0].strip()
        self.is_void = rt == "void"
        self.ret_ptr = rt.endswith("*") and ctype({"qualType": rt}) != "void *"
        self.ret_wrap = "i32" if (self.is_void or self.ret_ptr) else wrap_of({"qualType": rt})
        body = None
        self.decl_params = []
        used = set()

        def lean_name(nm):
            nm = nm if nm not in ("end", "from", "at", "in", "then", "do", "fun", "let", "have", "show", "with", "open", "s", "fuel") else nm + "_"
            while nm in used:
                nm += "_"
            used.add(nm)
            return nm
        written = set()
        self.find_written(d, written)
        used_as_array = set()
        self.find_array_use(d, used_as_array)
        self.prescan_struct = True
        referenced = set()

        def refs(n):
            if n.get("kind") == "DeclRefExpr":
                referenced.add(n["referencedDecl"]["id"])
            for x in n.get("inner", []) or []:
                if isinstance(x, dict):
                    refs(x)
        refs(d)
        for c in d["inner"]:
            if c["kind"] == "ParmVarDecl" and is_ptr(c["type"]) and c["id"] not in referenced and "name" in c:
                self.decl_params.append(("unused", c["name"], None))     # a pointer the body never mentions
                continue
            if c["kind"] == "ParmVarDecl":
                nm = lean_name(c["name"])
                if ctype(c["type"]) in ("htp_list_array_t *", "struct htp_list_array_t *", "htp_connp_t *", "struct htp_connp_t *",
                                       "htp_conn_t *", "struct htp_conn_t *"):
                    self.var[c["id"]] = ("struct", nm)
                    self.decl_params.append(("struct", nm, None))
                elif ctype(c["type"]) == "void *" and c["id"] not in used_as_array:
                    self.var[c["id"]] = ("int", nm, "u64")
                    self.fields.append((nm, "u64"))
                    self.int_params.append(nm)
                    self.decl_params.append(("int", nm, "u64"))
                elif ctype(c["type"]) in ("bstr *", "struct bstr_t *"):
                    self.var[c["id"]] = ("bstr", nm)
                    self.mem_fields.append(nm + "_mem")
                    self.fields.append((nm + "_len", "u64"))
                    self.int_params.append(nm + "_len")
                    self.decl_params.append(("bstr", nm, None))
                elif is_byte_ptr(c["type"]) and c["id"] in written:
                    self.var[c["id"]] = ("mem", nm + "_mem")
                    self.mem_fields.append(nm + "_mem")
                    self.decl_params.append(("mem", nm, None))
                elif is_byte_ptr(c["type"]):
                    self.var[c["id"]] = ("bytes", nm)
                    self.bytes_params.append(nm)
                    self.decl_params.append(("bytes", nm, None))
                elif is_ptr(c["type"]):
                    w = wrap_of({"qualType": ctype(c["type"])[:-1].strip()})
                    self.var[c["id"]] = ("ptr", nm, w)
                    self.fields.append((nm, w))
                    self.int_params.append(nm)
                    self.decl_params.append(("ptr", nm, w))
                else:
                    w = wrap_of(c["type"])
                    self.var[c["id"]] = ("int", nm, w)
                    self.fields.append((nm, w))
                    self.int_params.append(nm)
                    self.decl_params.append(("int", nm, w))
            elif c["kind"] == "CompoundStmt":
                body = c
        if body is None:
            raise Unsupported("no body")
        self.scan_written_fields(body)
        self.moving = set()
        self.find_moving(body)
        for mv in sorted(self.moving):
            self.fields.append((mv + "_off", "i64"))
        assigned_alloc = set()
        self.find_alloc_targets(body, assigned_alloc)
        for v in self.collect(body):
            t0 = (v.get("inner") or [None])[0]
            if is_ptr(v["type"]) and t0 is not None and t0["kind"] == "BinaryOperator" and t0.get("opcode") == "+" and self.bytes_src(t0["inner"][0]) \
                    and self.bytes_src(t0["inner"][0])[1] == "0":
                nm = lean_name(v["name"])
                self.var[v["id"]] = ("lptr", self.bytes_src(t0["inner"][0])[0], nm + "_off")
                self.fields.append((nm + "_off", "i64"))
                continue
            if is_ptr(v["type"]) and v["id"] in assigned_alloc:
                nm = lean_name(v["name"])
                self.var[v["id"]] = ("lmem", nm)
                self.mem_fields.append(nm + "_mem")
                self.local_mem.append(nm + "_mem")
                self.fields.append((nm + "_null", "i32"))
                continue
            if ctype(v["type"]) == "void *" and v["id"] not in used_as_array:
                nm = lean_name(v["name"])
                self.var[v["id"]] = ("int", nm, "u64")
                self.fields.append((nm, "u64"))
                continue
            if is_ptr(v["type"]):
                # a local byte pointer must be a plain alias of a parameter
                t = (v.get("inner") or [None])[0]
                while t and t["kind"] in ("ImplicitCastExpr", "CStyleCastExpr", "ParenExpr"):
                    t = t["inner"][0]
                if t and t["kind"] == "DeclRefExpr" and self.var.get(t["referencedDecl"]["id"], ("",))[0] in ("bytes", "mem"):
                    self.var[v["id"]] = self.var[t["referencedDecl"]["id"]]
                    continue
                b = self.bstr_ptr_of(v)
                if b:
                    self.var[v["id"]] = ("mem", b + "_mem")
                    continue
                raise Unsupported("local pointer %s" % v["name"])
            nm = lean_name(v["name"])
            w = wrap_of(v["type"])
            self.var[v["id"]] = ("int", nm, w)
            self.fields.append((nm, w))
        if self.is_void:     # falling off the end of a void function returns
            body = dict(body, inner=list(body.get("inner", [])) + [{"kind": "ReturnStmt"}])
        code = self.stmt(body)
        if self.uses_alloc:
            self.fields.append(("alloc_ok", "i32"))
        st = "St_" + self.name
        out = ["/-- state of `%s`: parameters, locals and the integers behind pointer parameters -/" % self.name,
               "structure %s where" % st]
        for f, w in self.fields:
            out.append("  %s : Int := 0" % f)
        for f in self.mem_fields:
            out.append("  %s : List Int := []" % f)
        if not self.fields and not self.mem_fields:
            out.append("  unit : Unit := ()")
        out.append("  deriving Repr, DecidableEq")
        out.append("")
        out += self.defs
        bsig = " ".join(["(fuel : Nat)"] + ["(%s : Bytes)" % b for b in self.bytes_params])
        bargs = " ".join(["fuel"] + self.bytes_params)
        out.append("/-- the body of `%s` as one statement -/" % self.name)
        out.append("def %s_stmt %s : Stmt %s :=" % (self.name, bsig, st))
        out.append("  " + code.replace("\n", "\n  "))
        out.append("")
        # the integer fields of a struct parameter come after the real parameters, in alphabetical order (stable under edits)
        self.int_params = [x for x in self.int_params if x not in self.struct_ints] + sorted(self.struct_ints)
        if self.uses_alloc:
            self.int_params.append("alloc_ok")
        pmem = [m for m in self.mem_fields if m not in self.local_mem]
        sig = " ".join(["(fuel : Nat)"] + ["(%s : Bytes)" % b for b in self.bytes_params] + ["(%s : List Int)" % m for m in pmem]
                       + ["(%s : Int)" % i for i in self.int_params])
        out.append("/-- `%s` (%s) -/" % (self.name, d["type"]["qualType"]))
        out.append("def %s %s : Option (Int × %s) :=" % (self.name, sig, st))
        init = ", ".join("%s := %s" % (i, i) for i in self.int_params + pmem)
        out.append("  run (%s_stmt %s) { %s }" % (self.name, bargs, init))
        out.append("")
        return "\n".join(out)


def ast_of(repo, path, name):
    cmd = ["clang-14", "-fsyntax-only", "-w", "-DHAVE_CONFIG_H", "-D__NO_CTYPE", "-I" + repo, "-I" + os.path.join(repo, "htp"),
           "-Xclang", "-ast-dump=json", "-Xclang", "-ast-dump-filter=" + name, os.path.join(repo, path)]
    p = subprocess.run(cmd, capture_output=True, text=True)
    s = p.stdout
    dec = json.JSONDecoder()
    i = 0
    while i < len(s):
        while i < len(s) and s[i].isspace():
            i += 1
        if i >= len(s):
            break
        o, i = dec.raw_decode(s, i)
        if o.get("kind") == "FunctionDecl" and o.get("name") == name and any(c.get("kind") == "CompoundStmt" for c in o.get("inner", [])):
            return o
    return None


def main():
    repo, outp = sys.argv[1], sys.argv[2]
    with ThreadPoolExecutor(8) as ex:
        asts = list(ex.map(lambda fn: ast_of(repo, fn[0], fn[1]), FUNCS))
    known, chunks, failed = {}, [], []
    for (path, name), ast in zip(FUNCS, asts):
        if ast is None:
            failed.append((name, "definition not found in %s" % path))
            continue
        f = Fn(name, ast, known)
        try:
            chunks.append("-- %s\n%s" % (path, f.translate()))
            known[name] = f
        except Unsupported as e:
            failed.append((name, "outside the translated subset: %s" % e))
    hdr = ["/- GENERATED by extract/ctrans.py from the current /repo sources (clang typed AST). Do not edit. -/",
           "import HtpModel.CSem", "set_option linter.unusedVariables false", "namespace Htp.Gen.C", "open Htp.CSem", ""]
    tail = ["/-- functions the translator could not translate on this run (must be empty: `Lemmas/CFuns` proves it) -/",
            "def untranslated : List String := [%s]" % ", ".join('"%s"' % n for n, _ in failed), "", "end Htp.Gen.C", ""]
    text = "\n".join(hdr) + "\n".join(chunks) + "\n" + "\n".join(tail)
    old = open(outp).read() if os.path.exists(outp) else None
    if old != text:
        open(outp, "w").write(text)
    for n, why in failed:
        print("UNTRANSLATED %s: %s" % (n, why))
    print("translated %d of %d functions" % (len(chunks), len(FUNCS)))


if __name__ == "__main__":
    main()
