#!/usr/bin/env python3
"""Translator driver: regenerates lean/HtpModel/Gen/{Tables,Footprint}.lean from /repo's
current working tree.

 * Tables.lean   — tabulate.c compiled against the current sources, run, stdout captured.
 * Footprint.lean— (a) writable data symbols of the freshly compiled library (nm),
                   (b) textual stores through a configuration pointer outside htp_config.c,
                   (c) the method names found by regex in htp_convert_method_to_number
                       (cross-check of the hand list inside tabulate.c).
Files are rewritten only if their content changed.
"""
import glob
import os
import re
import shutil
import subprocess
import sys
import tempfile

HERE = os.path.dirname(os.path.abspath(__file__))
ROOT = os.path.dirname(HERE)
REPO = os.environ.get("VERIF_REPO", "/repo")
GEN = os.path.join(ROOT, "lean", "HtpModel", "Gen")
INCLUDED = {"htp_util.c", "htp_utf8_decoder.c", "htp_config.c", "htp_response.c", "htp_request.c"}
CFLAGS = ["-D_GNU_SOURCE", "-DHAVE_CONFIG_H", "-DLIBHTP_VERIF", "-I" + REPO, "-I" + os.path.join(REPO, "htp"), "-w", "-O0"]


def write_if_changed(path, content):
    if os.path.exists(path) and open(path).read() == content:
        return False
    with open(path, "w") as f:
        f.write(content)
    return True


def main():
    os.makedirs(GEN, exist_ok=True)
    tmp = tempfile.mkdtemp(prefix="htpx_")
    try:
        srcs = sorted(glob.glob(os.path.join(REPO, "htp", "*.c")) + glob.glob(os.path.join(REPO, "htp", "lzma", "*.c")))
        procs = []
        objs = []
        for s in srcs:
            o = os.path.join(tmp, ("lzma_" if "/lzma/" in s else "") + os.path.basename(s)[:-2] + ".o")
            objs.append((s, o))
            procs.append(subprocess.Popen(["cc"] + CFLAGS + ["-c", s, "-o", o], stderr=subprocess.PIPE, text=True))
        for p in procs:
            _, e = p.communicate()
            if p.returncode != 0:
                print("compile failed:", e[-2000:])
                return 1
        link_objs = [o for s, o in objs if os.path.basename(s) not in INCLUDED]
        exe = os.path.join(tmp, "tabulate")
        r = subprocess.run(["cc"] + CFLAGS + [os.path.join(HERE, "tabulate.c")] + link_objs + ["-lz", "-o", exe],
                           stderr=subprocess.PIPE, text=True)
        if r.returncode != 0:
            print("tabulate.c does not compile against the current sources:\n", r.stderr[-3000:])
            return 1
        r = subprocess.run([exe], stdout=subprocess.PIPE, stderr=subprocess.PIPE, text=True)
        if r.returncode != 0:
            print("tabulate failed:", r.stderr[-2000:])
            return 1
        ch1 = write_if_changed(os.path.join(GEN, "Tables.lean"), r.stdout)

        # ---- footprint (a): writable data symbols
        syms = []
        for s, o in objs:
            nm = subprocess.run(["nm", "--defined-only", o], stdout=subprocess.PIPE, text=True).stdout
            for line in nm.splitlines():
                parts = line.split()
                # symbols of verification hooks exist only under -DLIBHTP_VERIF (MANIFEST.hooks); they are not in a production build
                if len(parts) == 3 and parts[1] in "bBdDcC" and not parts[2].startswith("htp_verif_"):
                    syms.append((os.path.basename(s), parts[2], parts[1]))
        syms.sort()
        # ---- footprint (b): stores through a cfg pointer outside htp_config.c
        stores = []
        store_re = re.compile(r"(\bcfg\s*->\s*\w+(?:\s*(?:\.|->)\s*\w+|\s*\[[^\]]*\])*|\bdecoder_cfgs\s*\[[^\]]*\]\s*\.\s*\w+)\s*((?<![<>!=])=(?!=)|\+=|-=|\|=|&=|\+\+|--)")
        memcpy_re = re.compile(r"mem(cpy|set|move)\s*\(\s*&?\s*\(?\s*\w*cfg\b")
        for s in srcs:
            base = os.path.basename(s)
            if base == "htp_config.c" or "/lzma/" in s:
                continue
            src = open(s, errors="replace").read()
            src = re.sub(r"/\*.*?\*/", lambda m: "\n" * m.group(0).count("\n"), src, flags=re.S)
            src = re.sub(r"//[^\n]*", "", src)
            for i, line in enumerate(src.splitlines(), 1):
                m = store_re.search(line)
                if m:
                    # `connp->cfg = cfg` / `tx->cfg = cfg` assign the pointer, not through it
                    lhs = m.group(1)
                    if re.search(r"(connp|tx|copy)\s*->\s*cfg\s*$", line[:m.end(1)].rstrip()) and "->" not in lhs.split("cfg", 1)[1]:
                        continue
                    stores.append((base, re.sub(r"\s+", " ", line.strip())[:100]))
                elif memcpy_re.search(line):
                    stores.append((base, re.sub(r"\s+", " ", line.strip())[:100]))
        # ---- (c) method names by regex
        util = open(os.path.join(REPO, "htp", "htp_util.c"), errors="replace").read()
        m = re.search(r"int htp_convert_method_to_number\(.*?\n}\n", util, re.S)
        meths = re.findall(r'bstr_cmp_c\(method,\s*"([^"]+)"\)\s*==\s*0\)\s*return\s+(\w+)', m.group(0)) if m else []

        def q(s):
            return '"' + s.replace("\\", "\\\\").replace('"', '\\"') + '"'

        fp = ["/- GENERATED by extract/extract.py from the current /repo sources. Do not edit. -/",
              "namespace Htp.Gen", "",
              "/-- every writable data symbol (nm sections b B d D c C) of the compiled library: (file, symbol, section) -/",
              "def writableSymbols : List (String × String × String) := [" +
              ", ".join("(%s, %s, %s)" % (q(a), q(b), q(c)) for a, b, c in syms) + "]", "",
              "/-- textual stores through a configuration pointer outside htp_config.c: (file, line text) -/",
              "def cfgStores : List (String × String) := [" + ", ".join("(%s, %s)" % (q(a), q(b)) for a, b in stores) + "]",
              "",
              "/-- method names compared in htp_convert_method_to_number, by regex (cross-check of tabulate.c's list) -/",
              "def methodNamesBySource : List String := [" + ", ".join(q(a) for a, _ in meths) + "]", "",
              "end Htp.Gen", ""]
        ch2 = write_if_changed(os.path.join(GEN, "Footprint.lean"), "\n".join(fp))
        print("Tables.lean %s; Footprint.lean %s; %d writable symbols; %d cfg stores; %d methods" % (
            "rewritten" if ch1 else "unchanged", "rewritten" if ch2 else "unchanged", len(syms), len(stores), len(meths)))
        return 0
    finally:
        shutil.rmtree(tmp, ignore_errors=True)


if __name__ == "__main__":
    sys.exit(main())
