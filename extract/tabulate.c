/* Translator, finite part: compiled against the CURRENT /repo sources on every run.
 * It #includes the .c files whose static tables/functions it tabulates, calls the
 * real functions over their whole finite domain and prints Lean source.
 * Output: HtpModel/Gen/Tables.lean (stdout).
 */
#include "htp_util.c"
#include "htp_utf8_decoder.c"
#include "htp_config.c"
#define htp_connp_res_data_consumed tab_unused_consumed
#include "htp_response.c"
#include "htp_request.c"      /* for HTTP09_MAX_JUNK_LEN, a #define local to that file */
#include <locale.h>

static void mask256(const char *name, int (*f)(int)) {
    /* 256-bit mask as a hex Nat literal, bit c set iff f(c) != 0 */
    printf("def %sMask : Nat := 0x", name);
    for (int byte = 31; byte >= 0; byte--) {
        unsigned v = 0;
        for (int bit = 7; bit >= 0; bit--) {
            int c = byte * 8 + bit;
            v = (v << 1) | (f(c) ? 1u : 0u);
        }
        printf("%02x", v);
    }
    printf("\n");
    printf("def %s (c : UInt8) : Bool := %sMask.testBit c.toNat\n\n", name, name);
}

static void bytemap256(const char *name, int (*f)(int)) {
    /* 256 bytes packed little-endian into one Nat: entry c = (tab >>> (8*c)) % 256 */
    printf("def %sTab : Nat := 0x", name);
    for (int c = 255; c >= 0; c--) printf("%02x", (unsigned) (f(c) & 0xff));
    printf("\n");
    printf("def %s (c : UInt8) : UInt8 := UInt8.ofNat ((%sTab >>> (8 * c.toNat)) %% 256)\n\n", name, name);
}

static int f_is_chunked_ctl(int c) { return is_chunked_ctl_char((unsigned char) c); }
static int f_isspace(int c) { return isspace(c) != 0; }
static int f_isdigit(int c) { return isdigit(c) != 0; }
static int f_isxdigit(int c) { return isxdigit(c) != 0; }
static int f_isprint(int c) { return isprint(c) != 0; }
static int f_tolower(int c) { return tolower(c); }
static int f_toupper(int c) { return toupper(c); }
/* x2c is separable iff x2c(a,b) == hi(a) + lo(b) mod 256 with hi(a)=x2c(a,'0'), lo(b)=x2c('0',b) */
static int f_x2c_hi(int c) { unsigned char w[2] = {(unsigned char) c, '0'}; return x2c(w); }
static int f_x2c_lo(int c) { unsigned char w[2] = {'0', (unsigned char) c}; return x2c(w); }

static void natlist(const char *name, const uint8_t *a, size_t n) {
    printf("def %s : List Nat := [", name);
    for (size_t i = 0; i < n; i++) printf("%s%u", i ? "," : "", (unsigned) a[i]);
    printf("]\n\n");
}

static const char *methods[] = {"GET", "PUT", "POST", "DELETE", "CONNECT", "OPTIONS", "TRACE", "PATCH",
    "PROPFIND", "PROPPATCH", "MKCOL", "COPY", "MOVE", "LOCK", "UNLOCK", "VERSION-CONTROL", "CHECKOUT",
    "UNCHECKOUT", "CHECKIN", "UPDATE", "LABEL", "REPORT", "MKWORKSPACE", "MKACTIVITY",
    "BASELINE-CONTROL", "MERGE", "INVALID", "HEAD", NULL};

static void dump_decoder_cfg(const char *pname, htp_cfg_t *cfg) {
    printf("def personality_%s : List DecoderCfg := [", pname);
    for (int i = 0; i < HTP_DECODER_CONTEXTS_MAX; i++) {
        htp_decoder_cfg_t *d = &cfg->decoder_cfgs[i];
        printf("%s{ backslashConvertSlashes := %s, convertLowercase := %s, pathSeparatorsCompress := %s, "
               "pathSeparatorsDecode := %s, plusspaceDecode := %s, pathSeparatorsEncodedUnwanted := %d, "
               "nulRawTerminates := %s, nulRawUnwanted := %d, controlCharsUnwanted := %d, uEncodingDecode := %s, "
               "uEncodingUnwanted := %d, urlEncodingInvalidHandling := %d, urlEncodingInvalidUnwanted := %d, "
               "nulEncodedTerminates := %s, nulEncodedUnwanted := %d, utf8InvalidUnwanted := %d, "
               "utf8ConvertBestfit := %s, bestfitReplacementByte := %d }",
               i ? ", " : "",
               d->backslash_convert_slashes ? "true" : "false", d->convert_lowercase ? "true" : "false",
               d->path_separators_compress ? "true" : "false", d->path_separators_decode ? "true" : "false",
               d->plusspace_decode ? "true" : "false", (int) d->path_separators_encoded_unwanted,
               d->nul_raw_terminates ? "true" : "false", (int) d->nul_raw_unwanted, (int) d->control_chars_unwanted,
               d->u_encoding_decode ? "true" : "false", (int) d->u_encoding_unwanted,
               (int) d->url_encoding_invalid_handling, (int) d->url_encoding_invalid_unwanted,
               d->nul_encoded_terminates ? "true" : "false", (int) d->nul_encoded_unwanted,
               (int) d->utf8_invalid_unwanted, d->utf8_convert_bestfit ? "true" : "false",
               (int) d->bestfit_replacement_byte);
    }
    printf("]\n");
    /* which line/header parsers the personality selects: 0 generic, 1 apache_2 */
    printf("def personality_%s_reqline : Nat := %d\n", pname,
           cfg->parse_request_line == htp_parse_request_line_generic ? 0 :
           cfg->parse_request_line == htp_parse_request_line_apache_2_2 ? 1 : 99);
    printf("def personality_%s_lws : Nat := %d\n", pname, (int) cfg->requestline_leading_whitespace_unwanted);
    printf("def personality_%s_reqhdr : Nat := %d\n\n", pname,
           cfg->process_request_header == htp_process_request_header_generic ? 0 :
           cfg->process_request_header == htp_process_request_header_apache_2_2 ? 1 : 99);
}

#define CONSTN(lean, cexpr) printf("def %s : Nat := %llu\n", lean, (unsigned long long) (cexpr))
#define CONSTI(lean, cexpr) printf("def %s : Int := %lld\n", lean, (long long) (cexpr))

int main(void) {
    setlocale(LC_ALL, "C");
    printf("/- GENERATED by extract/tabulate.c from the current /repo sources. Do not edit. -/\n");
    printf("import HtpModel.Gen.Types\n\nnamespace Htp.Gen\n\n");

    mask256("isLws", htp_is_lws);
    mask256("isSeparator", htp_is_separator);
    mask256("isText", htp_is_text);
    mask256("isToken", htp_is_token);
    mask256("isSpace", htp_is_space);
    mask256("isFoldingChar", htp_is_folding_char);
    mask256("isChunkedCtl", f_is_chunked_ctl);
    mask256("cIsspace", f_isspace);
    mask256("cIsdigit", f_isdigit);
    mask256("cIsxdigit", f_isxdigit);
    mask256("cIsprint", f_isprint);
    bytemap256("cTolower", f_tolower);
    bytemap256("cToupper", f_toupper);
    bytemap256("x2cHi", f_x2c_hi);
    bytemap256("x2cLo", f_x2c_lo);

    /* the -1 (no byte) argument of the int-taking predicates */
    printf("def isFoldingCharNeg1 : Bool := %s\n", htp_is_folding_char(-1) ? "true" : "false");
    printf("def isSpaceNeg1 : Bool := %s\n\n", htp_is_space(-1) ? "true" : "false");

    /* separability of x2c over all 65536 pairs */
    int sep = 1;
    for (int a = 0; a < 256 && sep; a++)
        for (int b = 0; b < 256; b++) {
            unsigned char w[2] = {(unsigned char) a, (unsigned char) b};
            if (x2c(w) != (unsigned char) (f_x2c_hi(a) + f_x2c_lo(b))) { sep = 0; break; }
        }
    printf("/-- x2c(a,b) = x2cHi a + x2cLo b (mod 256) checked by the translator over all 65536 pairs. -/\n");
    printf("def x2cSeparable : Bool := %s\n\n", sep ? "true" : "false");

    natlist("utf8d", utf8d, sizeof (utf8d));
    natlist("utf8dAllowOverlong", utf8d_allow_overlong, sizeof (utf8d_allow_overlong));

    /* best-fit map up to and excluding the 0,0 terminator */
    printf("def bestfit1252 : List (Nat × Nat × Nat) := [");
    {
        unsigned char *p = bestfit_1252;
        int first = 1;
        while (!(p[0] == 0 && p[1] == 0)) {
            printf("%s(%u,%u,%u)", first ? "" : ",", p[0], p[1], p[2]);
            first = 0;
            p += 3;
        }
    }
    printf("]\n\n");

    /* base64 single character decode over signed char domain, index = value+128 */
    printf("def base64Single : List Int := [");
    for (int v = -128; v <= 127; v++) printf("%s%d", v == -128 ? "" : ",", htp_base64_decode_single((signed char) v));
    printf("]\n\n");

    /* method table, cross-checked by calling the function */
    printf("def methodTableBytes : List (List UInt8 × Nat) := [");
    for (int i = 0; methods[i]; i++) {
        bstr *m = bstr_dup_c(methods[i]);
        printf("%s([", i ? ", " : "");
        for (size_t k = 0; k < strlen(methods[i]); k++) printf("%s%u", k ? "," : "", (unsigned char) methods[i][k]);
        printf("], %d)", htp_convert_method_to_number(m));
        bstr_free(m);
    }
    printf("]\n");
    printf("def methodTable : List (String × Nat) := [");
    for (int i = 0; methods[i]; i++) {
        bstr *m = bstr_dup_c(methods[i]);
        printf("%s(\"%s\", %d)", i ? ", " : "", methods[i], htp_convert_method_to_number(m));
        bstr_free(m);
    }
    printf("]\n");
    {
        /* how many `return HTP_M_` comparisons exist is checked by extract.py (regex) */
        bstr *m = bstr_dup_c("FOO");
        printf("def methodUnknown : Nat := %d\n\n", htp_convert_method_to_number(m));
        bstr_free(m);
    }

    printf("-- flags\n");
    CONSTN("CONN_PIPELINED", HTP_CONN_PIPELINED);
    CONSTN("CONN_HTTP_0_9_EXTRA", HTP_CONN_HTTP_0_9_EXTRA);
    CONSTN("FIELD_UNPARSEABLE", HTP_FIELD_UNPARSEABLE);
    CONSTN("FIELD_INVALID", HTP_FIELD_INVALID);
    CONSTN("FIELD_FOLDED", HTP_FIELD_FOLDED);
    CONSTN("FIELD_REPEATED", HTP_FIELD_REPEATED);
    CONSTN("FIELD_LONG", HTP_FIELD_LONG);
    CONSTN("FIELD_RAW_NUL", HTP_FIELD_RAW_NUL);
    CONSTN("REQUEST_SMUGGLING", HTP_REQUEST_SMUGGLING);
    CONSTN("INVALID_FOLDING", HTP_INVALID_FOLDING);
    CONSTN("REQUEST_INVALID_T_E", HTP_REQUEST_INVALID_T_E);
    CONSTN("MULTI_PACKET_HEAD", HTP_MULTI_PACKET_HEAD);
    CONSTN("HOST_MISSING", HTP_HOST_MISSING);
    CONSTN("HOST_AMBIGUOUS", HTP_HOST_AMBIGUOUS);
    CONSTN("PATH_ENCODED_NUL", HTP_PATH_ENCODED_NUL);
    CONSTN("PATH_RAW_NUL", HTP_PATH_RAW_NUL);
    CONSTN("PATH_INVALID_ENCODING", HTP_PATH_INVALID_ENCODING);
    CONSTN("PATH_INVALID", HTP_PATH_INVALID);
    CONSTN("PATH_OVERLONG_U", HTP_PATH_OVERLONG_U);
    CONSTN("PATH_ENCODED_SEPARATOR", HTP_PATH_ENCODED_SEPARATOR);
    CONSTN("PATH_UTF8_VALID", HTP_PATH_UTF8_VALID);
    CONSTN("PATH_UTF8_INVALID", HTP_PATH_UTF8_INVALID);
    CONSTN("PATH_UTF8_OVERLONG", HTP_PATH_UTF8_OVERLONG);
    CONSTN("PATH_HALF_FULL_RANGE", HTP_PATH_HALF_FULL_RANGE);
    CONSTN("STATUS_LINE_INVALID", HTP_STATUS_LINE_INVALID);
    CONSTN("HOSTU_INVALID", HTP_HOSTU_INVALID);
    CONSTN("HOSTH_INVALID", HTP_HOSTH_INVALID);
    CONSTN("URLEN_ENCODED_NUL", HTP_URLEN_ENCODED_NUL);
    CONSTN("URLEN_INVALID_ENCODING", HTP_URLEN_INVALID_ENCODING);
    CONSTN("URLEN_OVERLONG_U", HTP_URLEN_OVERLONG_U);
    CONSTN("URLEN_HALF_FULL_RANGE", HTP_URLEN_HALF_FULL_RANGE);
    CONSTN("URLEN_RAW_NUL", HTP_URLEN_RAW_NUL);
    CONSTN("REQUEST_INVALID", HTP_REQUEST_INVALID);
    CONSTN("REQUEST_INVALID_C_L", HTP_REQUEST_INVALID_C_L);
    CONSTN("AUTH_INVALID", HTP_AUTH_INVALID);
    printf("-- limits\n");
    CONSTN("MAX_HEADERS_REPETITIONS", HTP_MAX_HEADERS_REPETITIONS);
    CONSTN("MAX_HEADER_FOLDED", HTP_MAX_HEADER_FOLDED);
    CONSTN("FIELD_LIMIT_HARD", HTP_FIELD_LIMIT_HARD);
    CONSTN("FIELD_LIMIT_SOFT", HTP_FIELD_LIMIT_SOFT);
    CONSTN("HTTP09_MAX_JUNK_LEN", HTTP09_MAX_JUNK_LEN);
    CONSTN("COMPRESSION_BOMB_RATIO", HTP_COMPRESSION_BOMB_RATIO);
    CONSTN("COMPRESSION_BOMB_LIMIT", HTP_COMPRESSION_BOMB_LIMIT);
    CONSTN("GZIP_BUF_SIZE", GZIP_BUF_SIZE);
    CONSTN("VALID_STATUS_MIN", HTP_VALID_STATUS_MIN);
    CONSTN("VALID_STATUS_MAX", HTP_VALID_STATUS_MAX);
    CONSTN("INT64_MAX'", INT64_MAX);
    CONSTN("INT32_MAX'", INT32_MAX);
    CONSTN("INET6_ADDRSTRLEN'", INET6_ADDRSTRLEN);
    printf("-- enums\n");
    CONSTI("PROTOCOL_INVALID", HTP_PROTOCOL_INVALID);
    CONSTI("PROTOCOL_UNKNOWN", HTP_PROTOCOL_UNKNOWN);
    CONSTI("PROTOCOL_0_9", HTP_PROTOCOL_0_9);
    CONSTI("PROTOCOL_1_0", HTP_PROTOCOL_1_0);
    CONSTI("PROTOCOL_1_1", HTP_PROTOCOL_1_1);
    CONSTN("CODING_UNKNOWN", HTP_CODING_UNKNOWN);
    CONSTN("CODING_NO_BODY", HTP_CODING_NO_BODY);
    CONSTN("CODING_IDENTITY", HTP_CODING_IDENTITY);
    CONSTN("CODING_CHUNKED", HTP_CODING_CHUNKED);
    CONSTN("CODING_INVALID", HTP_CODING_INVALID);
    CONSTN("M_UNKNOWN", HTP_M_UNKNOWN);
    CONSTN("M_HEAD", HTP_M_HEAD);
    CONSTN("M_GET", HTP_M_GET);
    CONSTN("M_PUT", HTP_M_PUT);
    CONSTN("M_POST", HTP_M_POST);
    CONSTN("M_CONNECT", HTP_M_CONNECT);
    CONSTN("URL_DECODE_PRESERVE_PERCENT", HTP_URL_DECODE_PRESERVE_PERCENT);
    CONSTN("URL_DECODE_REMOVE_PERCENT", HTP_URL_DECODE_REMOVE_PERCENT);
    CONSTN("URL_DECODE_PROCESS_INVALID", HTP_URL_DECODE_PROCESS_INVALID);
    CONSTN("UNWANTED_IGNORE", HTP_UNWANTED_IGNORE);
    CONSTN("UNWANTED_400", HTP_UNWANTED_400);
    CONSTN("UNWANTED_404", HTP_UNWANTED_404);
    CONSTN("DECODER_DEFAULTS", HTP_DECODER_DEFAULTS);
    CONSTN("DECODER_URLENCODED", HTP_DECODER_URLENCODED);
    CONSTN("DECODER_URL_PATH", HTP_DECODER_URL_PATH);
    CONSTN("UTF8_ACCEPT", HTP_UTF8_ACCEPT);
    CONSTN("UTF8_REJECT", HTP_UTF8_REJECT);
    CONSTN("STREAM_NEW", HTP_STREAM_NEW);
    CONSTN("STREAM_OPEN", HTP_STREAM_OPEN);
    CONSTN("STREAM_CLOSED", HTP_STREAM_CLOSED);
    CONSTN("STREAM_ERROR", HTP_STREAM_ERROR);
    CONSTN("STREAM_TUNNEL", HTP_STREAM_TUNNEL);
    CONSTN("STREAM_DATA_OTHER", HTP_STREAM_DATA_OTHER);
    CONSTN("STREAM_STOP", HTP_STREAM_STOP);
    CONSTN("STREAM_DATA", HTP_STREAM_DATA);
    CONSTN("LIST_TX_INIT", 16);
    printf("\n-- personalities (every decoder field of every context after htp_config_set_server_personality)\n");
    {
        static const struct { const char *n; enum htp_server_personality_t p; } ps[] = {
            {"MINIMAL", HTP_SERVER_MINIMAL}, {"GENERIC", HTP_SERVER_GENERIC}, {"IDS", HTP_SERVER_IDS},
            {"IIS_4_0", HTP_SERVER_IIS_4_0}, {"IIS_5_0", HTP_SERVER_IIS_5_0}, {"IIS_5_1", HTP_SERVER_IIS_5_1},
            {"IIS_6_0", HTP_SERVER_IIS_6_0}, {"IIS_7_0", HTP_SERVER_IIS_7_0}, {"IIS_7_5", HTP_SERVER_IIS_7_5},
            {"APACHE_2", HTP_SERVER_APACHE_2}};
        for (size_t i = 0; i < sizeof (ps) / sizeof (ps[0]); i++) {
            htp_cfg_t *cfg = htp_config_create();
            if (htp_config_set_server_personality(cfg, ps[i].p) != HTP_OK) {
                printf("-- personality %s rejected by htp_config_set_server_personality\n", ps[i].n);
            } else {
                dump_decoder_cfg(ps[i].n, cfg);
            }
            printf("def personalityId_%s : Nat := %d\n", ps[i].n, (int) ps[i].p);
            htp_config_destroy(cfg);
        }
        htp_cfg_t *cfg = htp_config_create();
        printf("\ndef defaultFieldLimitHard : Nat := %zu\n", cfg->field_limit_hard);
        printf("def defaultLayerLimit : Int := %d\n", cfg->response_decompression_layer_limit);
        printf("def defaultLzmaLayerLimit : Int := %d\n", cfg->response_lzma_layer_limit);
        printf("def defaultBombLimit : Int := %d\n", (int) cfg->compression_bomb_limit);
        printf("def defaultMaxTx : Nat := %u\n", cfg->max_tx);
        htp_config_destroy(cfg);
    }
    printf("\nend Htp.Gen\n");
    return 0;
}
