"""Ground-truth generator for well-formed multipart/form-data bodies (property C14).

A body is built from a list of parts that the generator chose, so what was encoded is known independently of any parser.
Well-formed here means (RFC 7578 / RFC 2046 section 5.1.1):
  * every part has a Content-Disposition: form-data header with a quoted name (and filename for files) in which '"' and
    '\\' are backslash-escaped and no CR, LF or NUL occurs;
  * no line of the encapsulated data starts with "--" boundary (so the data neither begins with "--"+boundary nor
    contains LF "--" boundary), which is what makes the delimiter unambiguous;
  * with bare-LF line ends the data does not end in CR (CR LF "--" boundary would then be read as a CRLF delimiter - an
    ambiguity of the format itself, not of the parser);
  * one line-end convention per body; the close delimiter is present; preamble/epilogue are plain text lines.
"""
import random

BOUNDARIES = [b"B", b"0123456789", b"--x", b"ab", b"x-y", b"-", b"----WebKitFormBoundaryT4AfwQCOgIxNVwlD", b"BB", b"a1"]
BCHARS = b"abcdefghijklmnopqrstuvwxyzABCDEFGHIJKLMNOPQRSTUVWXYZ0123456789-"
NAME_ALPHA = b"abcxyzAZ09 _-.;=:\"\\'/()[]<>@,?{}\t\x01\x7f\x80\xc3\xa9\xff"
CTYPES = [b"text/plain", b"application/octet-stream", b"image/png", b"text/html", b"a/b"]


def esc(b):
    return b.replace(b"\\", b"\\\\").replace(b'"', b'\\"')


def rand_boundary(r):
    if r.random() < 0.75:
        return r.choice(BOUNDARIES)
    return bytes(r.choice(BCHARS) for _ in range(r.randint(1, 40)))


def rand_name(r):
    k = r.random()
    if k < 0.5:
        return bytes(r.choice(b"abcdefgh0123_") for _ in range(r.randint(1, 8)))
    if k < 0.55:
        return b""
    return bytes(r.choice(NAME_ALPHA) for _ in range(r.randint(1, 10)))


def near_boundary(r, b, nl):
    d = b"--" + b
    return r.choice([nl + d[:-1], nl + b"--", nl + b"-", b"--" + b, b"x" + d, d[:-1], nl + d[:-1] + b"\x00", b"\r", b"\n", b"\r\r", b"\r\r\n",
                     b"\n\r", nl + nl, b"--", b"-", b + b"--", nl + b"--" + b[:-1] + nl, b"\r\n-", b"\n-"])


def legal(data, b, nl):
    d = b"--" + b
    if data.startswith(d) or (b"\n" + d) in data:
        return False
    if nl == b"\n" and data.endswith(b"\r"):
        return False
    return True


def rand_data(r, b, nl):
    for _ in range(50):
        k = r.random()
        if k < 0.1:
            data = b""
        elif k < 0.4:
            data = bytes(r.choice(b"abc xyz019\r\n-") for _ in range(r.randint(1, 24)))
        elif k < 0.75:
            data = b"".join(r.choice([near_boundary(r, b, nl), bytes(r.choice(b"ab\r\n-" + b) for _ in range(r.randint(0, 6)))])
                            for _ in range(r.randint(1, 5)))
        else:
            data = bytes(r.randrange(256) for _ in range(r.randint(1, 60)))
        if legal(data, b, nl):
            return data
    return b"v"


def rand_case(r, s):
    return bytes((c ^ 0x20) if (65 <= c <= 90 or 97 <= c <= 122) and r.random() < 0.3 else c for c in s)


class Part:
    def __init__(self, name, data, filename=None, ctype=None):
        self.name, self.data, self.filename, self.ctype = name, data, filename, ctype

    def __repr__(self):
        return "Part(name=%r, filename=%r, ctype=%r, data=%r)" % (self.name, self.filename, self.ctype, self.data)


def render_part_headers(r, p, nl, plain=False):
    cd = b"form-data; name=\"" + esc(p.name) + b"\""
    if p.filename is not None:
        cd += b"; filename=\"" + esc(p.filename) + b"\""
    hn_cd, hn_ct = b"Content-Disposition", b"Content-Type"
    if not plain:
        hn_cd, hn_ct = rand_case(r, hn_cd), rand_case(r, hn_ct)
    lines = [hn_cd + b": " + cd]
    if p.ctype is not None:
        lines.append(hn_ct + b": " + p.ctype)
        if not plain and r.random() < 0.3:
            lines.reverse()
    return nl.join(lines) + nl + nl


def gen_wellformed(r, max_parts=4, small=False):
    """-> (content_type_value, body, truth) ; truth = dict(boundary, nl, parts=[Part], preamble, epilogue)"""
    b = rand_boundary(r) if not small else r.choice([b"B", b"ab", b"--x"])
    nl = b"\r\n" if r.random() < 0.7 else b"\n"
    nparts = r.randint(0, max_parts) if r.random() < 0.9 else 0
    parts = []
    for _ in range(nparts):
        data = rand_data(r, b, nl)
        if small and len(data) > 12:
            data = data[:12]
            if not legal(data, b, nl):
                data = b"v"
        if r.random() < 0.35:
            parts.append(Part(rand_name(r), data, filename=rand_name(r), ctype=r.choice(CTYPES) if r.random() < 0.7 else None))
        else:
            parts.append(Part(rand_name(r), data, ctype=r.choice(CTYPES) if r.random() < 0.15 else None))
    preamble = None
    if r.random() < 0.2:
        preamble = nl.join(bytes(r.choice(b"preamble text.") for _ in range(r.randint(0 if k else 1, 10))) for k in range(r.randint(1, 3)))
    epilogue = None
    if r.random() < 0.2:
        epilogue = nl.join(bytes(r.choice(b"epilogue text.") for _ in range(r.randint(0, 10))) for _ in range(r.randint(1, 4)))
        if epilogue == b"":
            epilogue = b"e"
        if r.random() < 0.5:
            epilogue += nl
    body = b""
    if preamble is not None:
        body += preamble + nl
    for p in parts:
        body += b"--" + b + nl + render_part_headers(r, p, nl, plain=small) + p.data + nl
    body += b"--" + b + b"--"
    if epilogue is not None:
        body += nl + epilogue
    elif r.random() < 0.8:
        body += nl
    if nparts == 0 and preamble is None:
        # a body consisting of the close delimiter only
        pass
    ct = b"multipart/form-data; boundary=" + b
    return ct, body, {"boundary": b, "nl": nl, "parts": parts, "preamble": preamble, "epilogue": epilogue}


def chunkings(r, body, exhaustive_upto=160, sampled=24, nrand=4):
    n = len(body)
    yield [body]
    if n <= 1:
        return
    cuts = range(1, n) if n <= exhaustive_upto else r.sample(range(1, n), sampled)
    for c in cuts:
        yield [body[:c], body[c:]]
    yield [body[i:i + 1] for i in range(n)]
    yield [body[i:i + 2] for i in range(0, n, 2)]
    yield [body[i:i + 3] for i in range(0, n, 3)]
    for _ in range(nrand):
        k = r.randint(2, min(8, n - 1)) if n > 2 else 1
        cs = sorted(r.randrange(1, n) for _ in range(k))   # repeated cut positions give empty chunks
        out, prev = [], 0
        for c in cs:
            out.append(body[prev:c]); prev = c
        out.append(body[prev:])
        yield out
    if r.random() < 0.3:
        yield [b"", body, b""]


def hexs(b):
    return b.hex() if b else "-"


def mpart_line(ct, chunks, sentinel=None):
    s = "mpart %s %s" % (hexs(ct), "|".join(hexs(c) for c in chunks) if chunks else "!")
    if sentinel is not None:
        s += " %02x" % sentinel
    return s
