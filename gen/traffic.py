"""Traffic generators for the `conn` family: the repository's .t captures, a structured generator from
the RFC 7230 message grammar (the Exchange of DESIGN.md §5) and mutation of those into malformed streams.
Every random choice comes from the rng passed in."""
import glob
import os
import re

REPO = os.environ.get("VERIF_REPO", "/repo")


def hx(b):
    return bytes(b).hex() if len(b) else "-"


def parse_t_file(path):
    """returns list of (dir, bytes|None(gap), gaplen) following test/test.c:test_next_chunk"""
    buf = open(path, "rb").read()
    n = len(buf)

    def boundary(pos):
        if pos + 3 >= n:
            return -1
        if buf[pos:pos + 1] == b"<" and buf[pos + 1:pos + 2] in (b"<", b">") and buf[pos + 2:pos + 3] == b"<":
            if buf[pos + 3:pos + 4] == b"\n":
                return 2
            if buf[pos + 3:pos + 4] == b"\r":
                if pos + 4 >= n:
                    return -1
                if buf[pos + 4:pos + 5] == b"\n":
                    return 2
        if buf[pos:pos + 1] == b">" and buf[pos + 1:pos + 2] in (b">", b"<") and buf[pos + 2:pos + 3] == b">":
            if buf[pos + 3:pos + 4] == b"\n":
                return 1
            if buf[pos + 3:pos + 4] == b"\r":
                if pos + 4 >= n:
                    return -1
                if buf[pos + 4:pos + 5] == b"\n":
                    return 1
        return 0

    out = []
    pos = 0
    while pos < n:
        chunk_off = None
        isgap = False
        direction = 0
        done = False
        while pos < n:
            if chunk_off is None:
                direction = boundary(pos)
                if direction <= 0:
                    return out
                isgap = buf[pos + 1] != buf[pos + 2]
                pos += 4
                if pos >= n:
                    return out
                if buf[pos - 1:pos] == b"\r":
                    pos += 1
                if pos >= n:
                    return out
                chunk_off = pos
                if boundary(pos) > 0:
                    chunk_off = None
                    continue
            if buf[pos:pos + 1] == b"\n":
                r = boundary(pos + 1)
                if r in (1, 2):
                    ln = pos - chunk_off
                    if ln > 0 and buf[chunk_off + ln - 1:chunk_off + ln] == b"\r":
                        ln -= 1
                    pos += 1
                    out.append((direction, None if isgap else buf[chunk_off:chunk_off + ln], ln))
                    done = True
                    if pos >= n:
                        return out
                    break
            pos += 1
        if not done:
            if chunk_off is not None:
                ln = pos - chunk_off
                out.append((direction, None if isgap else buf[chunk_off:chunk_off + ln], ln))
            return out
    return out


def t_files():
    return sorted(glob.glob(os.path.join(REPO, "test", "files", "*.t")))


def play_items(chunks):
    items = []
    for d, data, ln in chunks:
        if data is None:
            items.append(("g>" if d == 1 else "g<") + str(ln))
        elif len(data) == 0:
            continue   # zero-length chunks are not allowed in the API
        else:
            items.append((">" if d == 1 else "<") + hx(data))
    return items


def script(cfg, policy, items, dump=True, close=True, extra_after=(), op="play"):
    """op: "play" = the hand-over discipline of test/test.c; "pump" = the documented protocol (alternate until done or stalled)"""
    sc = ["conn new %s %s" % (cfg, policy), "conn open"]
    if items:
        sc.append("conn %s " % op + ",".join(items))
    sc += list(extra_after)
    if close:
        sc.append("conn close")
    if dump:
        sc.append("conn dump")
    sc.append("conn destroy")
    return sc


# ------------------------------------------------------------------------------------------------
# structured generator: well-formed exchanges from the RFC 7230 grammar

TOKEN_CHARS = b"abcdefghijklmnopqrstuvwxyzABCDEFGHIJKLMNOPQRSTUVWXYZ0123456789-_!#$%&'*+.^`|~"
KNOWN_METHODS = [b"GET", b"POST", b"PUT", b"DELETE", b"HEAD", b"OPTIONS", b"PATCH", b"TRACE", b"PROPFIND"]
VCHARS = bytes(range(0x21, 0x7f))
URI_CHARS = b"abcdefghijklmnopqrstuvwxyzABCDEFGHIJKLMNOPQRSTUVWXYZ0123456789-._~!$'()*,;"


def rand_uri_token(rng, lo=1, hi=8):
    return bytes(rng.choice(URI_CHARS) for _ in range(rng.randint(lo, hi)))


def rand_token(rng, lo=1, hi=8):
    return bytes(rng.choice(TOKEN_CHARS) for _ in range(rng.randint(lo, hi)))


def rand_value(rng):
    n = rng.randint(0, 14)
    if n == 0:
        return b""
    inner = bytes(rng.choice((rng.choice(VCHARS), rng.choice(b"abcxyz019 "), rng.choice(b" \t"))) for _ in range(n))
    inner = inner.strip(b" \t")
    if b"\x7f" in inner:
        inner = inner.replace(b"\x7f", b"x")
    return inner


class Msg:
    """one request or response of an exchange, with its ground truth"""
    pass


def gen_request(rng, idx, opts):
    m = Msg()
    m.method = rng.choice(KNOWN_METHODS) if (idx == 0 or rng.random() < 0.9 or not opts.get("unknown_methods")) else rand_token(rng, 3, 6).upper()
    if m.method in (b"HEAD",) and rng.random() < 0.5:
        m.method = b"GET"
    form = rng.random()
    path = b"/" + b"/".join(rand_uri_token(rng, 1, 5).lstrip(b".") or b"p" for _ in range(rng.randint(0, 3)))
    query = b""
    if rng.random() < 0.4:
        query = b"?" + b"&".join(rand_uri_token(rng, 1, 3) + b"=" + rand_uri_token(rng, 0, 4) if rng.random() < 0.8 else rand_uri_token(rng, 1, 3)
                                  for _ in range(rng.randint(1, 3)))
    m.id = b"id%d" % idx
    if form < 0.8:
        m.target = path + (query if query else b"?" + m.id)
        if not query:
            query = b"?" + m.id
        uri_host = None
    else:
        uri_host = re.sub(rb"[^a-z0-9]", b"x", rand_token(rng, 1, 5).lower()) + b".example"
        m.target = b"http://" + uri_host + path + query
    m.version = rng.choice((b"HTTP/1.1", b"HTTP/1.1", b"HTTP/1.0"))
    m.headers = []   # (name, [value pieces (fold points)])
    host = uri_host if uri_host and rng.random() < 0.7 else rand_token(rng, 1, 6).replace(b"%", b"x").replace(b"'", b"x") + b".test"
    host = re.sub(rb"[^A-Za-z0-9.\-_]", b"x", host)
    if m.version == b"HTTP/1.1" or rng.random() < 0.5:
        m.headers.append((b"Host", [host + (b":%d" % rng.choice((80, 8080)) if rng.random() < 0.3 else b"")]))
    for _ in range(rng.randint(0, 4)):
        name = b"X-" + rand_token(rng, 1, 6)
        if name.lower() in (b"x-id", b"x-trailer"):      # reserved for the generator's own tag headers
            name += b"0"
        pieces = [rand_value(rng)]
        if opts.get("folding") and rng.random() < 0.25:
            pieces.append(rand_value(rng) or b"x")
        m.headers.append((name, pieces))
    if opts.get("repeat") and m.headers and rng.random() < 0.3:
        nm, _ = rng.choice(m.headers)
        if nm != b"Host":
            m.headers.append((nm.swapcase() if rng.random() < 0.5 else nm, [rand_value(rng)]))
    if rng.random() < 0.2:
        m.headers.append((b"Cookie", [b"; ".join(rand_token(rng, 1, 3) + b"=" + rand_token(rng, 0, 3) for _ in range(rng.randint(1, 3)))]))
    if rng.random() < 0.15:
        import base64
        if opts.get("digest") and rng.random() < 0.4:
            user = re.sub(rb"[^A-Za-z0-9._-]", b"u", rand_token(rng, 1, 6))
            m.digest_user = user
            m.headers.append((b"Authorization", [b"Digest username=\"" + user + b"\", realm=\"r\", nonce=\"n1\", uri=\"/\", response=\"00ff\""]))
        else:
            # RFC 7617: the user-id has no colon, the password may contain any number of them (the split is at the FIRST colon)
            pw = rand_token(rng, 0, 4)
            if rng.random() < 0.4:
                pw = b":".join([pw] + [rand_token(rng, 0, 3) for _ in range(rng.randint(1, 2))])
            m.headers.append((b"Authorization", [b"Basic " + base64.b64encode(rand_token(rng, 1, 4) + b":" + pw)]))
    body_kind = "none"
    m.body = b""
    if m.method in (b"POST", b"PUT", b"PATCH") or rng.random() < 0.1:
        body_kind = rng.choice(("cl", "chunked")) if m.version == b"HTTP/1.1" else "cl"
        m.body = gen_body(rng, opts)
        if opts.get("urlenc_bodies") and rng.random() < 0.5:
            m.body = b"&".join(rand_token(rng, 1, 3) + b"=" + rand_token(rng, 0, 4) for _ in range(rng.randint(1, 4)))
            m.headers.append((b"Content-Type", [b"application/x-www-form-urlencoded"]))
    m.body_kind = body_kind
    m.chunks = None
    if body_kind == "cl":
        if len(m.body) == 0:
            m.body_kind = "none" if rng.random() < 0.5 else "cl"
        if m.body_kind == "cl":
            m.headers.append((b"Content-Length", [b"%d" % len(m.body)]))
    elif body_kind == "chunked":
        m.headers.append((b"Transfer-Encoding", [b"chunked"]))
        m.chunks = split_chunks(rng, m.body)
    rng.shuffle(m.headers)
    return m


def gen_body(rng, opts):
    n = rng.choice((0, 1, 2, 5, 17, 40, rng.randint(0, 120)))
    kind = rng.random()
    if kind < 0.4:
        return bytes(rng.randrange(256) for _ in range(n))
    if kind < 0.7:
        return bytes(rng.choice(b"\r\n\x00 abcHTTP/1.GETPOST") for _ in range(n))
    return (b"GET /x HTTP/1.1\r\nHost: y\r\n\r\n" * 3)[:n]


def split_chunks(rng, body):
    out = []
    i = 0
    while i < len(body):
        k = rng.choice((1, 2, 3, 7, 16, rng.randint(1, 40)))
        out.append(body[i:i + k])
        i += k
    return out


def render_headers(headers, rng=None):
    out = b""
    for name, pieces in headers:
        out += name + b": " + pieces[0]
        for p in pieces[1:]:
            out += b"\r\n " + p     # obs-fold
        out += b"\r\n"
    return out


def render_chunked(chunks, rng, exts=True):
    out = b""
    for c in chunks:
        out += (b"%x" % len(c) if rng.random() < 0.7 else b"%X" % len(c))
        if exts and rng.random() < 0.15:
            out += b";ext=" + rand_token(rng, 1, 3)
        elif exts and rng.random() < 0.1:
            # long extensions: a cut inside one leaves eight or more non-hex bytes of the line in the next chunk (S41)
            out += b"".join(b";" + rand_token(rng, 1, 6) + b"=" + rand_token(rng, 4, 14) for _ in range(rng.randint(1, 2)))
        out += b"\r\n" + c + b"\r\n"
    out += b"0\r\n"
    return out


def render_request(m, rng):
    out = m.method + b" " + m.target + b" " + m.version + b"\r\n" + render_headers(m.headers) + b"\r\n"
    if m.body_kind == "cl":
        out += m.body
    elif m.body_kind == "chunked":
        out += render_chunked(m.chunks, rng)
        m.trailers = []
        if rng.random() < 0.2:
            m.trailers = [(b"X-Trailer", [rand_value(rng)])]
        out += render_headers(m.trailers) + b"\r\n"
    return out


def gen_response(rng, idx, req, last, opts):
    m = Msg()
    m.version = rng.choice((b"HTTP/1.1", b"HTTP/1.1", b"HTTP/1.0"))
    m.status = rng.choice((200, 200, 200, 201, 204, 304, 404, 500, 302))
    m.reason = rng.choice((b"OK", b"Not Found", b"Some Reason Phrase", b"X"))
    m.headers = [(b"X-Id", [b"id%d" % idx])]
    for _ in range(rng.randint(0, 3)):
        name = b"X-" + rand_token(rng, 1, 6)
        if name.lower() in (b"x-id", b"x-trailer"):      # reserved for the generator's own tag headers
            name += b"0"
        pieces = [rand_value(rng)]
        if opts.get("folding") and rng.random() < 0.2:
            pieces.append(rand_value(rng) or b"y")
        m.headers.append((name, pieces))
    if opts.get("repeat") and len(m.headers) > 1 and rng.random() < 0.3:
        # a repeated response field: the later values are often LONGER than the field name (the combined value must hold all of them)
        nm, _ = rng.choice(m.headers[1:])
        for _ in range(rng.randint(1, 2)):
            m.headers.append((nm.swapcase() if rng.random() < 0.5 else nm, [rand_value(rng) + (b" " + rand_token(rng, 6, 14) if rng.random() < 0.6 else b"")]))
    m.body = b""
    m.chunks = None
    nobody = m.status in (204, 304) or req.method == b"HEAD"
    if nobody:
        m.body_kind = "none"
    else:
        kinds = ["cl", "chunked"] if m.version == b"HTTP/1.1" else ["cl"]
        if last and opts.get("close_delimited", True):
            kinds.append("close")
        m.body_kind = rng.choice(kinds)
        m.body = gen_body(rng, opts)
        if m.body_kind == "cl":
            m.headers.append((b"Content-Length", [b"%d" % len(m.body)]))
        elif m.body_kind == "chunked":
            m.headers.append((b"Transfer-Encoding", [b"chunked"]))
            m.chunks = split_chunks(rng, m.body)
    rng.shuffle(m.headers)
    return m


def render_response(m, rng):
    out = m.version + b" %d " % m.status + m.reason + b"\r\n" + render_headers(m.headers) + b"\r\n"
    if m.body_kind in ("cl", "close"):
        out += m.body
    elif m.body_kind == "chunked":
        out += render_chunked(m.chunks, rng, exts=False)
        out += b"\r\n"
    return out


def gen_exchange(rng, n=None, opts=None):
    """returns (requests, responses, req_stream_pieces, res_stream_pieces)"""
    opts = opts or {}
    n = n or rng.choice((1, 1, 2, 3, rng.randint(1, 6)))
    reqs, ress, rq, rs = [], [], [], []
    for i in range(n):
        r = gen_request(rng, i, opts)
        reqs.append(r)
        rq.append(render_request(r, rng))
    for i in range(n):
        s = gen_response(rng, i, reqs[i], i == n - 1, opts)
        ress.append(s)
        rs.append(render_response(s, rng))
    return reqs, ress, rq, rs


def chunkings(stream, rng, mode):
    """split one byte stream into non-empty pieces"""
    n = len(stream)
    if n == 0:
        return []
    if mode == "whole":
        return [stream]
    if mode == "bytes":
        return [stream[i:i + 1] for i in range(n)]
    if isinstance(mode, tuple) and mode[0] == "cut":
        k = mode[1]
        return [p for p in (stream[:k], stream[k:]) if p]
    # random multi-cut
    k = rng.randint(1, min(8, n))
    cuts = sorted(set(rng.randint(1, n - 1) for _ in range(k))) if n > 1 else []
    out, prev = [], 0
    for c in cuts + [n]:
        if c > prev:
            out.append(stream[prev:c]); prev = c
    return out


def interleave_request_first(req_pieces, res_pieces, rng=None, mode="all_req_first"):
    """legal interleavings: every response byte is offered after the request bytes it answers.
    all_req_first: the whole request stream, then the whole response stream.
    alternate: message-wise alternation is done by the caller (pieces per message)."""
    items = [">" + hx(p) for p in req_pieces] + ["<" + hx(p) for p in res_pieces]
    return items


# ------------------------------------------------------------------------------------------------
# malformed stream: mutations of well-formed traffic

MUT_TOKENS = [b"\r", b"\n", b"\r\n", b"\n\r", b"\x00", b" ", b"\t", b":", b"HTTP/1.1", b"HTTP/0.9", b"HTTP/2.0", b"Content-Length: 5\r\n",
              b"Content-Length: 0\r\n", b"Content-Length: x\r\n", b"Transfer-Encoding: chunked\r\n", b"Transfer-Encoding: gzip\r\n",
              b"Host: a\r\n", b"Host: b:99999\r\n", b"Expect: 100-continue\r\n", b"CONNECT h:443 HTTP/1.1\r\n\r\n", b"GET / HTTP/1.0\r\n\r\n",
              b"HTTP/1.1 100 Continue\r\n\r\n", b"HTTP/1.1 101 Switching\r\n\r\n", b"HTTP/1.1 407 Auth\r\nContent-Length: 0\r\n\r\n",
              b"HTTP/1.1 200 OK\r\n\r\n", b"0\r\n\r\n", b"ffffffff\r\n", b"-1\r\n", b"5;x\r\n", b" \r\n", b"\t\t\t\t\t\t\t\t00000000\r\n",
              b"Authorization: Digest username=\"a\\\"b\"\r\n", b"Authorization: Basic !!!!\r\n", b"Authorization: basic \r\n",
              b"Cookie: =x; ; a; b=\r\n", b"PUT /f HTTP/1.1\r\nContent-Length: 3\r\n\r\nabc", b"HEAD / HTTP/1.1\r\n\r\n", b"FOO /x HTTP/1.1\r\n\r\n"]


def mutate(stream, rng, n=None):
    s = bytearray(stream)
    for _ in range(n or rng.randint(1, 4)):
        op = rng.random()
        pos = rng.randint(0, len(s))
        if op < 0.25 and len(s):
            i = rng.randrange(len(s)); s[i] = rng.choice((rng.randrange(256), 0, 13, 10, 32, 9, 58))
        elif op < 0.45:
            s[pos:pos] = rng.choice(MUT_TOKENS)
        elif op < 0.6 and len(s):
            i = rng.randrange(len(s)); j = min(len(s), i + rng.randint(1, 6)); del s[i:j]
        elif op < 0.75 and len(s):
            i = rng.randrange(len(s)); j = min(len(s), i + rng.randint(1, 20)); s[pos:pos] = s[i:j]
        elif op < 0.85:
            # line-ending substitution
            t = bytes(s)
            a, b = rng.choice(((b"\r\n", b"\n"), (b"\r\n", b"\r"), (b"\r\n", b"\n\r"), (b"\r\n", b"\r\r\n"), (b": ", b":"), (b": ", b" : "), (b" ", b"\t")))
            idxs = [m.start() for m in re.finditer(re.escape(a), t)]
            if idxs:
                i = rng.choice(idxs); s[i:i + len(a)] = b
        else:
            s[pos:pos] = bytes(rng.choice(b"\r\n\x00 \t:;,=") for _ in range(rng.randint(1, 4)))
    return bytes(s)


def rand_policy(rng, max_n=40):
    if rng.random() < 0.5:
        return "-"
    acts = ["stop", "error", "declined", "destroy", "reg"]
    k = rng.randint(1, 3)
    ns = sorted(set(rng.randint(0, max_n) for _ in range(k)))
    return ",".join("%d:%s" % (n, rng.choice(acts)) for n in ns)


def rand_cfg(rng, base="respdecomp=0"):
    parts = [base]
    if rng.random() < 0.5:
        parts.insert(0, "p=" + rng.choice(["MINIMAL", "GENERIC", "IDS", "IIS_5_1", "IIS_6_0", "IIS_7_0", "IIS_7_5", "APACHE_2"]))
    if rng.random() < 0.3:
        parts.append("urlenc=1")
    if rng.random() < 0.2:
        parts.append("autodestroy=1")
    if rng.random() < 0.15:
        parts.append("hard=%d" % rng.choice((1, 2, 17, 40, 100)))
    if rng.random() < 0.1:
        parts.append("maxtx=%d" % rng.choice((1, 2, 5)))
    if rng.random() < 0.1:
        parts.append("cookies=0,auth=0")
    # the rest of the public lattice: the second request-line splitter, the multipart handler, one path-decoder switch
    if rng.random() < 0.12:
        parts.append("spaceuri=1")
    if rng.random() < 0.1:
        parts.append("mpart=1")
    if rng.random() < 0.12:
        parts.append(rng.choice(("bs=1", "lc=1", "comp=1", "sepdec=1", "udec=1", "inv=0", "inv=1", "inv=2", "nrt=1", "net=1", "u8best=1", "lws=400")))
    return ",".join(parts)


def interleave(req_pieces, res_pieces, rng):
    """random merge of the two piece lists (not necessarily legal: responses may come early)"""
    items = []
    i = j = 0
    while i < len(req_pieces) or j < len(res_pieces):
        if j >= len(res_pieces) or (i < len(req_pieces) and rng.random() < 0.5):
            items.append(">" + hx(req_pieces[i])); i += 1
        else:
            items.append("<" + hx(res_pieces[j])); j += 1
    return items
