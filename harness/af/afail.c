/* C18 harness: allocation-failure sweep and ownership traces.
 *
 * The library objects of this build are compiled with -Dmalloc=verif_malloc -Dcalloc=verif_calloc -Drealloc=verif_realloc
 * -Dstrdup=verif_strdup -Dfree=verif_free, so exactly the allocations made by libhtp pass through the functions below
 * (the harness's own allocations do not). A countdown makes the k-th library allocation from "now" fail, once.
 *
 * Line protocol (stdin), one result line per input line:
 *   S <cfgspec> <policy> <items>      scenario: items as in `conn play` (>hex,<hex,g>n,g<n,c = close request side first)
 *       -> "n=<allocations in the fault-free run> runs=<k tried> bad=[...]"  after sweeping k = 1..n (or stride, see E)
 *   E <max-k> <stride> [<start-k>]    limits for the following sweeps (0 0 = every k); start-k applies to the next S only
 *   O <fn> <k>                        ownership trace of one library function with the k-th allocation failing (k=0: none)
 *       -> "rc=<..> trace=A0 A1 F1 ..."  (ids number the allocations of this call in order; R<old>><new> = realloc moved)
 * Before each single run the line "RUN <scenario#> <k>" is written to stderr and flushed, so that a sanitizer abort can be
 * attributed. After each scenario's sweep the leak checker is invoked once; a leak is reported in bad=[...] as "any:leak". */
#include <stdio.h>
#include <stdlib.h>
#include <string.h>
#include <stdint.h>
#include <sanitizer/lsan_interface.h>
#include "htp_private.h"

htp_cfg_t *cfg_from_spec(const char *spec);
int main(void);

/* ---------------------------------------------------------------- allocator shims (library side only) */
static long g_countdown;          /* > 0: the allocation that brings it to 0 fails */
static unsigned long g_count, g_failed;
static int g_trace;
#define MAXTR 4096
static void *tr_ptr[MAXTR]; static int tr_n;
static char tr_buf[1 << 16]; static size_t tr_len;

static void tr_put(const char *s) { size_t n = strlen(s); if (tr_len + n + 1 < sizeof tr_buf) { memcpy(tr_buf + tr_len, s, n); tr_len += n; tr_buf[tr_len] = 0; } }
static int tr_find(void *p) { for (int i = tr_n - 1; i >= 0; i--) if (tr_ptr[i] == p) return i; return -1; }
/* allocation call sites (return addresses into the library) of the current run, for the scenario selection tool (T lines) */
static int g_sitemode; static void *g_sites[8192]; static int g_nsites;
#include <execinfo.h>
static void site_note(void *ra_unused) {
    if (!g_sitemode) return;
    /* a site = the chain of the four callers above the allocator shim (bstr_alloc, htp_list_create ... would otherwise hide who asked) */
    void *bt[6]; int nb = backtrace(bt, 6);
    uintptr_t h = 1469598103934665603ULL;
    for (int i = 2; i < nb; i++) h = (h ^ (uintptr_t) ((char *) bt[i] - (char *) &main)) * 1099511628211ULL;
    void *ra = (void *) (h | 1);
    (void) ra_unused;
    for (int i = 0; i < g_nsites; i++) if (g_sites[i] == ra) return;
    if (g_nsites < 8192) g_sites[g_nsites++] = ra;
}
static int fail_now(void) { g_count++; if (g_countdown > 0 && --g_countdown == 0) { g_failed++; return 1; } return 0; }
static void tr_alloc(void *p) {
    if (!g_trace) return;
    char b[32];
    if (!p) { tr_put(tr_len ? " X" : "X"); return; }
    if (tr_n < MAXTR) { tr_ptr[tr_n] = p; snprintf(b, sizeof b, "%sA%d", tr_len ? " " : "", tr_n); tr_n++; tr_put(b); }
}
void *verif_malloc(size_t n) { site_note(__builtin_return_address(0)); if (fail_now()) { tr_alloc(NULL); return NULL; } void *p = malloc(n); tr_alloc(p); return p; }
void *verif_calloc(size_t a, size_t b) { site_note(__builtin_return_address(0)); if (fail_now()) { tr_alloc(NULL); return NULL; } void *p = calloc(a, b); tr_alloc(p); return p; }
char *verif_strdup(const char *s) { site_note(__builtin_return_address(0)); if (fail_now()) { tr_alloc(NULL); return NULL; } char *p = strdup(s); tr_alloc(p); return p; }
void *verif_realloc(void *o, size_t n) {
    site_note(__builtin_return_address(0));
    if (fail_now()) { if (g_trace) tr_put(tr_len ? " X" : "X"); return NULL; }
    int oi = g_trace ? tr_find(o) : -1;
    void *p = realloc(o, n);
    if (g_trace) {
        char b[48];
        if (o == NULL) tr_alloc(p);
        else { if (oi >= 0) tr_ptr[oi] = NULL; if (tr_n < MAXTR) { tr_ptr[tr_n] = p; snprintf(b, sizeof b, "%sR%d>%d", tr_len ? " " : "", oi, tr_n); tr_n++; tr_put(b); } }
    }
    return p;
}
void verif_free(void *p) {
    if (g_trace && p) {
        char b[32]; int i = tr_find(p);
        if (i >= 0) { tr_ptr[i] = NULL; snprintf(b, sizeof b, "%sF%d", tr_len ? " " : "", i); } else snprintf(b, sizeof b, "%sF?", tr_len ? " " : "");
        tr_put(b);
    }
    free(p);
}

/* ---------------------------------------------------------------- helpers */
static long hexp(const char *s, unsigned char **out) {
    if (!strcmp(s, "-")) { *out = malloc(1); return 0; }
    size_t n = strlen(s); if (n % 2) return -1;
    unsigned char *b = malloc(n / 2 + 1);
    for (size_t i = 0; i < n / 2; i++) { unsigned v; if (sscanf(s + 2 * i, "%2x", &v) != 1) { free(b); return -1; } b[i] = (unsigned char) v; }
    *out = b; return (long) (n / 2);
}

static int g_policy_reg;      /* a callback registers per-transaction body hooks (allocates in htp_hooks.c) */
static int cb_txdata(htp_tx_data_t *d) { (void) d; return HTP_OK; }
static int cb_tx(htp_tx_t *tx) {
    if (g_policy_reg) { htp_tx_register_request_body_data(tx, cb_txdata); htp_tx_register_response_body_data(tx, cb_txdata); }
    return HTP_OK;
}
static int cb_file(htp_file_data_t *f) { (void) f; return HTP_OK; }
static int cb_log(htp_log_t *l) { (void) l; return HTP_OK; }

static int documented(int rc) {
    return rc == HTP_STREAM_DATA || rc == HTP_STREAM_DATA_OTHER || rc == HTP_STREAM_ERROR || rc == HTP_STREAM_STOP ||
           rc == HTP_STREAM_CLOSED || rc == HTP_STREAM_TUNNEL;
}

/* one run of a scenario; returns 0 ok, else a code describing a contract breach */
static int run_once(const char *spec, const char *policy, char *items_in) {
    int bad = 0;
    char *items = strdup(items_in);
    g_policy_reg = strstr(policy, "reg") != NULL;
    htp_cfg_t *cfg = cfg_from_spec(spec);
    if (!cfg) { free(items); return 0; }                      /* creation may fail: nothing to tear down */
    htp_config_register_request_line(cfg, cb_tx);
    htp_config_register_request_headers(cfg, cb_tx);
    htp_config_register_request_body_data(cfg, cb_txdata);
    htp_config_register_request_file_data(cfg, cb_file);
    htp_config_register_response_headers(cfg, cb_tx);
    htp_config_register_response_body_data(cfg, cb_txdata);
    htp_config_register_transaction_complete(cfg, cb_tx);
    htp_config_register_log(cfg, cb_log);
    htp_connp_t *cp = htp_connp_create(cfg);
    if (cp) {
        struct timeval tv = {1000000000, 0};
        htp_connp_open(cp, "127.0.0.1", 32768, "127.0.0.1", 80, &tv);
        unsigned char *in_o = NULL, *out_o = NULL; size_t in_l = 0, out_l = 0;
        int in_sticky = 0, out_sticky = 0;
        char *save = NULL;
        for (char *it = strtok_r(items, ",", &save); it; it = strtok_r(NULL, ",", &save)) {
            if (it[0] == 'c') { htp_connp_req_close(cp, &tv); continue; }
            if (it[0] == 'g') {
                size_t k = strtoul(it + 2, NULL, 10);
                int rc = (it[1] == '>') ? htp_connp_req_data(cp, &tv, NULL, k) : htp_connp_res_data(cp, &tv, NULL, k);
                if (!documented(rc)) bad = 2;
                continue;
            }
            unsigned char *a; long al = hexp(it + 1, &a);
            if (al < 0) { free(a); continue; }
            int isreq = it[0] == '>';
            /* held-back data of this direction first (hand-over discipline of test/test.c) */
            unsigned char **ho = isreq ? &in_o : &out_o; size_t *hl = isreq ? &in_l : &out_l;
            unsigned char *buf; size_t bl;
            if (*ho) { buf = malloc(*hl + al + 1); memcpy(buf, *ho, *hl); memcpy(buf + *hl, a, al); bl = *hl + al; free(*ho); *ho = NULL; *hl = 0; }
            else { buf = malloc(al + 1); memcpy(buf, a, al); bl = al; }
            free(a);
            unsigned char *exact = malloc(bl ? bl : 1); memcpy(exact, buf, bl); free(buf);
            int rc = isreq ? htp_connp_req_data(cp, &tv, exact, bl) : htp_connp_res_data(cp, &tv, exact, bl);
            size_t cons = isreq ? htp_connp_req_data_consumed(cp) : htp_connp_res_data_consumed(cp);
            if (!documented(rc)) bad = 2;
            {   /* what a caller does after a call: look at the last error the parser recorded (must never be a dangling pointer) */
                htp_log_t *le = htp_connp_get_last_error(cp);
                if (le != NULL) { volatile int lv = (int) le->level; (void) lv; if (le->msg) { volatile size_t ml = strlen(le->msg); (void) ml; } }
            }
            if (getenv("AF_VERBOSE")) fprintf(stderr, "  %s len=%zu rc=%d consumed=%zu fired=%lu\n", isreq ? "req" : "res", bl, rc, cons, g_failed);
            int *st = isreq ? &in_sticky : &out_sticky;
            if (*st == HTP_STREAM_ERROR && rc != HTP_STREAM_ERROR) bad = 3;      /* ERROR must stay ERROR */
            if (rc == HTP_STREAM_ERROR) *st = rc;
            if (rc == HTP_STREAM_DATA_OTHER && cons <= bl) { *hl = bl - cons; *ho = malloc(*hl + 1); memcpy(*ho, exact + cons, *hl); }
            free(exact);
        }
        free(in_o); free(out_o);
        htp_connp_close(cp, &tv);
        htp_connp_destroy_all(cp);
    }
    htp_config_destroy(cfg);
    free(items);
    return bad;
}

/* ---------------------------------------------------------------- ownership traces of single functions */
static void own(const char *fn, long k) {
    tr_n = 0; tr_len = 0; tr_buf[0] = 0;
    g_trace = 1; g_countdown = k; g_count = 0;
    int rc = 0;
    if (!strcmp(fn, "list")) {
        /* create(2), push x3 (grows once), destroy */
        htp_list_t *l = htp_list_create(2);
        if (l) { rc += htp_list_push(l, (void *) 1) == HTP_OK; rc += htp_list_push(l, (void *) 2) == HTP_OK; rc += htp_list_push(l, (void *) 3) == HTP_OK;
                 htp_list_destroy(l); }
    } else if (!strcmp(fn, "table")) {
        /* create(2) = four slots; three adds (the third grows the embedded list); destroy */
        htp_table_t *t = htp_table_create(2);
        if (t) {
            for (int i = 0; i < 3; i++) {
                bstr *key = bstr_dup_c("k");
                /* htp_table_add copies the key */
                if (key) { rc += htp_table_add(t, key, (void *) 1) == HTP_OK; bstr_free(key); }
            }
            htp_table_destroy(t);
        }
    } else if (!strcmp(fn, "bstr")) {
        bstr *b = bstr_dup_c("ab");
        if (b) { bstr *b2 = bstr_add_c(b, "cdefghijklmnop"); if (b2) b = b2; rc = b2 != NULL; bstr_free(b); }
    } else if (!strcmp(fn, "conn")) {
        htp_conn_t *c = htp_conn_create();
        if (c) { struct timeval tv = {1, 0}; rc = htp_conn_open(c, "1.2.3.4", 1, "5.6.7.8", 2, &tv) == HTP_OK; htp_conn_destroy(c); }
    } else if (!strcmp(fn, "builder")) {
        bstr_builder_t *bb = bstr_builder_create();
        if (bb) { rc += bstr_builder_append_c(bb, "ab") == HTP_OK; rc += bstr_builder_append_c(bb, "cd") == HTP_OK;
                  bstr *s = bstr_builder_to_str(bb); if (s) { rc += 10; bstr_free(s); } bstr_builder_destroy(bb); }
    } else { printf("bad-op"); g_trace = 0; return; }
    g_trace = 0; g_countdown = 0;
    int live = 0; for (int i = 0; i < tr_n; i++) if (tr_ptr[i]) live++;
    printf("rc=%d live=%d trace=%s", rc, live, tr_buf);
}

int main(void);
int main(void) {
    char *line = NULL; size_t cap = 0; ssize_t n;
    long maxk = 0, stride = 0, startk = 1; int scen = 0;
    while ((n = getline(&line, &cap, stdin)) > 0) {
        while (n > 0 && (line[n - 1] == '\n' || line[n - 1] == '\r')) line[--n] = 0;
        char *t[8]; int nt = 0; char *save = NULL;
        for (char *x = strtok_r(line, " ", &save); x && nt < 8; x = strtok_r(NULL, " ", &save)) t[nt++] = x;
        if ((nt == 3 || nt == 4) && !strcmp(t[0], "E")) { maxk = atol(t[1]); stride = atol(t[2]); startk = nt == 4 ? atol(t[3]) : 1; if (startk < 1) startk = 1; printf("ok\n"); fflush(stdout); continue; }
        if (nt == 3 && !strcmp(t[0], "O")) { own(t[1], atol(t[2])); printf("\n"); fflush(stdout); continue; }
        if (nt == 4 && !strcmp(t[0], "T")) {
            /* fault-free run; prints the allocation count and the distinct allocation call sites reached (offsets from main) */
            g_sitemode = 1; g_nsites = 0; g_countdown = 0; g_count = 0;
            run_once(t[1], t[2], t[3]);
            g_sitemode = 0;
            printf("n=%lu sites=", g_count);
            for (int i = 0; i < g_nsites; i++) printf("%s%lx", i ? "," : "", (unsigned long) (uintptr_t) g_sites[i]);
            printf("\n"); fflush(stdout);
            continue;
        }
        if (nt == 4 && !strcmp(t[0], "S")) {
            scen++;
            fprintf(stderr, "RUN %d 0\n", scen); fflush(stderr);
            g_countdown = 0; g_count = 0;
            int b0 = run_once(t[1], t[2], t[3]);
            unsigned long total = g_count;
            int leak0 = __lsan_do_recoverable_leak_check();
            printf("n=%lu", total);
            char bad[4096]; size_t bl = 0; bad[0] = 0;
            if (b0 || leak0) bl += snprintf(bad + bl, sizeof bad - bl, "0:%s ", leak0 ? "leak" : "contract");
            unsigned long runs = 0, fired = 0;
            unsigned long lim = (maxk > 0 && (unsigned long) maxk < total) ? (unsigned long) maxk : total;
            for (unsigned long k = (unsigned long) startk; k <= lim; k += (stride > 0 && k > 64 ? stride : 1)) {
                fprintf(stderr, "RUN %d %lu\n", scen, k); fflush(stderr);
                g_countdown = (long) k; g_count = 0; g_failed = 0;
                int b = run_once(t[1], t[2], t[3]);
                g_countdown = 0;
                fired += g_failed; runs++;
                if (b && bl + 32 < sizeof bad) bl += snprintf(bad + bl, sizeof bad - bl, "%lu:%s ", k, b == 3 ? "error-not-sticky" : "contract");
            }
            /* memory not released after a failed allocation is only an observation (outside C18 as stated): one leak check per scenario,
             * not per run - the stop-the-world check dominated the sweep's cost */
            if (__lsan_do_recoverable_leak_check() && bl + 32 < sizeof bad) bl += snprintf(bad + bl, sizeof bad - bl, "any:leak ");
            startk = 1;
            printf(" runs=%lu fired=%lu bad=[%s]\n", runs, fired, bad); fflush(stdout);
            continue;
        }
        printf("bad-op\n"); fflush(stdout);
    }
    free(line);
    return 0;
}
