/* Correspondence harness: one operation per input line, one canonical result line per
 * operation, calling the real library in-process. Linked against objects freshly compiled
 * from /repo's working tree (see checks/lib.py). */
#include "corr.h"

long hex_parse(const char *s, unsigned char **out) {
    size_t n = strlen(s);
    if (n == 1 && s[0] == '-') { *out = malloc(1); return 0; }
    if (n % 2) return -1;
    unsigned char *b = malloc(n / 2 + 1);
    for (size_t i = 0; i < n / 2; i++) {
        unsigned v;
        if (!isxdigit((unsigned char) s[2 * i]) || !isxdigit((unsigned char) s[2 * i + 1])) { free(b); return -1; }
        sscanf(s + 2 * i, "%2x", &v);
        b[i] = (unsigned char) v;
    }
    *out = b;
    return (long) (n / 2);
}

void hex_print(FILE *f, const unsigned char *d, size_t n) {
    if (n == 0) { fputc('-', f); return; }
    static const char *hx = "0123456789abcdef";
    for (size_t i = 0; i < n; i++) { fputc(hx[d[i] >> 4], f); fputc(hx[d[i] & 15], f); }
}

void hex_print_bstr(FILE *f, const bstr *b) {
    if (b == NULL) { fputc('~', f); return; }
    hex_print(f, bstr_ptr(b), bstr_len(b));
}

/* work counter for C08: edges executed in the library objects when they are built with -fsanitize-coverage=trace-pc-guard
 * (build kind "cov"; in every other build these two functions are never called) */
unsigned long g_work;
void __sanitizer_cov_trace_pc_guard_init(uint32_t *start, uint32_t *stop) {
    static uint32_t n;
    for (uint32_t *x = start; x < stop; x++) if (!*x) *x = ++n;
}
void __sanitizer_cov_trace_pc_guard(uint32_t *guard) { (void) guard; g_work++; }

int main(int argc, char **argv) {
    char *line = NULL;
    size_t cap = 0;
    ssize_t n;
    FILE *in = stdin;
    if (argc > 1) { in = fopen(argv[1], "r"); if (!in) { perror("open"); return 2; } }
    static char obuf[1 << 16];
    setvbuf(stdout, obuf, _IOFBF, sizeof obuf);
    while ((n = getline(&line, &cap, in)) > 0) {
        while (n > 0 && (line[n - 1] == '\n' || line[n - 1] == '\r' || line[n - 1] == ' ')) line[--n] = 0;
        char *tok[MAXTOK];
        int nt = 0;
        char *p = line;
        while (*p == ' ') p++;
        while (*p && nt < MAXTOK) {
            tok[nt++] = p;
            while (*p && *p != ' ') p++;
            if (*p) { *p++ = 0; }
        }
        int ok = 0;
        if (nt >= 1) {
            if (!strcmp(tok[0], "ring")) ok = op_ring(nt - 1, tok + 1);
            else if (!strcmp(tok[0], "table")) ok = op_table(nt - 1, tok + 1);
            else if (!strcmp(tok[0], "bstr")) ok = op_bstr(nt - 1, tok + 1);
            else if (!strcmp(tok[0], "num")) ok = op_num(nt - 1, tok + 1);
            else if (!strcmp(tok[0], "fn")) ok = op_fn(nt - 1, tok + 1);
            else if (!strcmp(tok[0], "cfun")) ok = op_cfun(nt - 1, tok + 1);
            else if (!strcmp(tok[0], "urlenc")) ok = op_urlenc(nt - 1, tok + 1);
            else if (!strcmp(tok[0], "mpart")) ok = op_mpart(nt - 1, tok + 1);
            else if (!strcmp(tok[0], "work") && nt == 1) { printf("%lu", g_work); g_work = 0; ok = 1; }
            else if (!strcmp(tok[0], "conn")) ok = op_conn(0, nt - 1, tok + 1);
            else if (!strncmp(tok[0], "conn@", 5)) ok = op_conn(atoi(tok[0] + 5), nt - 1, tok + 1);
        }
        if (!ok) printf("bad-op");
        fputc('\n', stdout);
    }
    free(line);
    prim_cleanup();
    mpart_cleanup();
    conn_cleanup();
    fflush(stdout);
    return 0;
}
