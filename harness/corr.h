#ifndef CORR_H
#define CORR_H
#include <stdio.h>
#include <stdlib.h>
#include <string.h>
#include <stdint.h>
#include <ctype.h>
#include "htp_private.h"

#define MAXTOK 64
/* parse hex ("-" = empty); returns malloc'd buffer (never NULL; 1 byte min) and length; -1 on error */
long hex_parse(const char *s, unsigned char **out);
void hex_print(FILE *f, const unsigned char *d, size_t n);   /* "-" for empty */
void hex_print_bstr(FILE *f, const bstr *b);                 /* "~" for NULL */

int op_ring(int ntok, char **tok);
int op_table(int ntok, char **tok);
int op_bstr(int ntok, char **tok);
int op_num(int ntok, char **tok);
int op_fn(int ntok, char **tok);
int op_cfun(int ntok, char **tok);
int op_urlenc(int ntok, char **tok);
int op_mpart(int ntok, char **tok);
void mpart_cleanup(void);
int op_conn(int id, int ntok, char **tok);
void conn_cleanup(void);
htp_cfg_t *cfg_from_spec(const char *spec);
void prim_cleanup(void);
#endif
