/* Coverage-guided search for connection-level inputs (libFuzzer), used OFFLINE by tools/fuzz_distill.py to distil a deterministic
 * corpus of scripts (corpus/fuzz/conn.jsonl) that the registered checks then replay through implementation AND model. It is not a
 * registered check and decides nothing by itself.
 *
 * Input format: byte 0 selects the configuration, byte 1/2 the callback policy; the rest is the stream in the format of the
 * repository's own test files: chunks introduced by lines ">>>" (request data), "<<<" (response data) and "===" (a gap of
 * 1 + (next byte mod 8) bytes in the direction of the last chunk).
 * With FUZZ_DUMP defined the program instead prints, for every file named on the command line, the script as a JSON array. */
#include "../corr.h"

#ifdef FUZZ_Z
/* FUZZ_TARGET=connz: the same driver with response decompression ON (gzip / deflate / lzma, layer and bomb limits). The model cannot
 * follow these scripts without recorded inflate results, so the corpus (corpus/fuzz/connz.jsonl) is replayed by C01 for the sanitizer
 * verdict and by C07's recording pass. */
static const char *CFGS[] = {
    "respdecomp=1,ztime=1000000", "respdecomp=1,ztime=1000000,layers=1", "respdecomp=1,ztime=1000000,layers=3", "respdecomp=1,ztime=1000000,bomb=1000",
    "respdecomp=1,ztime=1000000,bomb=20000,layers=2", "respdecomp=1,ztime=1000000,lzmalayers=0", "respdecomp=1,ztime=1000000,lzmalayers=2",
    "p=IDS,respdecomp=1,ztime=1000000,autodestroy=1", "respdecomp=1,ztime=1000000,hard=100", "respdecomp=1,ztime=1000000,urlenc=1,mpart=1", "respdecomp=1,reqdecomp=1,ztime=1000000", "respdecomp=1,reqdecomp=1,ztime=1000000,bomb=1000,urlenc=1",
};
#else
static const char *CFGS[] = {
    "respdecomp=0", "p=IDS,respdecomp=0", "p=APACHE_2,respdecomp=0", "p=IIS_6_0,respdecomp=0", "p=IIS_7_5,respdecomp=0",
    "p=MINIMAL,respdecomp=0", "p=GENERIC,respdecomp=0", "p=IIS_5_1,respdecomp=0", "p=IIS_7_0,respdecomp=0",
    "respdecomp=0,urlenc=1", "respdecomp=0,urlenc=1,mpart=1", "p=IDS,respdecomp=0,urlenc=1,mpart=1,autodestroy=1",
    "respdecomp=0,autodestroy=1", "respdecomp=0,hard=40", "respdecomp=0,hard=100,urlenc=1", "respdecomp=0,maxtx=2",
    "respdecomp=0,cookies=0,auth=0", "p=IDS,respdecomp=0,hard=17", "respdecomp=0,mpart=1", "p=APACHE_2,respdecomp=0,urlenc=1,autodestroy=1,maxtx=5",
};
#endif
#define NCFG (sizeof CFGS / sizeof CFGS[0])
static const char *ACTS[] = { "stop", "error", "declined", "destroy", "reg" };

typedef struct { char *s; size_t n, cap; } sb_t;
static void sb_put(sb_t *b, const char *p, size_t n) {
    if (b->n + n + 1 > b->cap) { b->cap = (b->n + n + 1) * 2; b->s = realloc(b->s, b->cap); }
    memcpy(b->s + b->n, p, n); b->n += n; b->s[b->n] = 0;
}
static void sb_hex(sb_t *b, const uint8_t *d, size_t n) {
    static const char H[] = "0123456789abcdef";
    if (n == 0) { sb_put(b, "-", 1); return; }
    for (size_t i = 0; i < n; i++) { char c[2] = { H[d[i] >> 4], H[d[i] & 15] }; sb_put(b, c, 2); }
}

/* builds: cfg, policy, items ("" when there is no chunk) */
static void build(const uint8_t *data, size_t size, const char **cfg, char *pol, sb_t *items) {
    *cfg = CFGS[size > 0 ? data[0] % NCFG : 0];
    strcpy(pol, "-");
    if (size > 2 && data[1] >= 128) sprintf(pol, "%d:%s", data[2] % 48, ACTS[data[1] % 5]);
    size_t pos = size > 3 ? 3 : size;
    char dir = 0; size_t start = pos; int have = 0;
    while (pos <= size) {
        int at_marker = 0, kind = 0;
        if (pos + 4 <= size && (pos == start || data[pos - 1] == '\n') && data[pos + 3] == '\n' && data[pos] == data[pos + 1] && data[pos + 1] == data[pos + 2]
            && (data[pos] == '>' || data[pos] == '<' || data[pos] == '=')) { at_marker = 1; kind = data[pos]; }
        if (at_marker || pos == size) {
            if (dir) {
                size_t end = pos;
                if (at_marker && end > start && data[end - 1] == '\n') end--;       /* the newline before a marker belongs to the marker */
                if (have) sb_put(items, ",", 1);
                char d[2] = { dir, 0 }; sb_put(items, d, 1); sb_hex(items, data + start, end - start); have = 1;
            }
            if (pos == size) break;
            if (kind == '=') {
                size_t k = 1 + (pos + 4 < size ? data[pos + 4] % 8 : 0);
                char g[16]; sprintf(g, "%sg%c%zu", have ? "," : "", dir == '<' ? '<' : '>', k); sb_put(items, g, strlen(g)); have = 1;
                pos += 4 + (pos + 4 < size ? 1 : 0); start = pos; dir = dir ? dir : '>';
                /* what follows the gap is more data in the same direction */
                continue;
            }
            dir = (char) kind; pos += 4; start = pos;
            continue;
        }
        pos++;
    }
}

#ifndef FUZZ_DUMP
static int run_op(int n, ...) ;
#include <stdarg.h>
static int run_op(int n, ...) {
    char *tok[8]; va_list ap; va_start(ap, n);
    for (int i = 0; i < n; i++) tok[i] = strdup(va_arg(ap, const char *));
    va_end(ap);
    int r = op_conn(0, n, tok);
    for (int i = 0; i < n; i++) free(tok[i]);
    return r;
}
int LLVMFuzzerTestOneInput(const uint8_t *data, size_t size) {
    static int init;
    if (!init) { init = 1; if (!getenv("FUZZ_SHOW")) freopen("/dev/null", "w", stdout); }
    const char *cfg; char pol[32]; sb_t items = { 0 };
    build(data, size, &cfg, pol, &items);
    run_op(3, "new", cfg, pol);
    run_op(1, "open");
    if (items.n) run_op(2, "play", items.s);
    run_op(1, "close");
    run_op(1, "dump");
    run_op(1, "destroy");
    free(items.s);
    return 0;
}
#else
int main(int argc, char **argv) {
    for (int i = 1; i < argc; i++) {
        FILE *f = fopen(argv[i], "rb"); if (!f) continue;
        static uint8_t buf[1 << 20]; size_t n = fread(buf, 1, sizeof buf, f); fclose(f);
        const char *cfg; char pol[32]; sb_t items = { 0 };
        build(buf, n, &cfg, pol, &items);
        printf("[\"conn new %s %s\", \"conn open\", ", cfg, pol);
        if (items.n) printf("\"conn play %s\", ", items.s);
        printf("\"conn close\", \"conn dump\", \"conn destroy\"]\n");
        free(items.s);
    }
    return 0;
}
#endif
