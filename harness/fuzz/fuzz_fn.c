/* Coverage-guided search over the stateless operation families (multipart, urlencoded, path / URI functions); OFFLINE tool like
 * fuzz_conn.c: the merged corpus becomes corpus/fuzz/fn.jsonl, one one-line script per input, replayed by C12 / C13 / C14 / C15.
 * Input: byte 0 selects the operation template, byte 1 a configuration; the rest is the data. For the chunked families (mpart,
 * urlenc) the byte 0xFE 0xFE pair splits chunks; for mpart the data up to the first '\n' is the boundary parameter text. */
#include "../corr.h"

static const char *PERS[] = { "p=MINIMAL", "p=GENERIC", "p=IDS", "p=IIS_5_1", "p=IIS_6_0", "p=IIS_7_0", "p=IIS_7_5", "p=APACHE_2" };
static const char *DCFG[] = { "-", "p=IDS", "p=IDS,inv=1", "p=IDS,inv=2", "p=IIS_6_0,inv=2,nrt=1", "p=APACHE_2,net=1", "p=IDS,bs=1,lc=1,comp=1",
                              "p=IDS,sepdec=1", "p=IDS,udec=0", "p=IDS,u8best=1", "p=IDS,sepunw=400,nru=404,uunw=400,invunw=404,neu=400,u8unw=404",
                              "p=GENERIC,udec=1,inv=2,nrt=1,net=1,lc=1,u8best=1", "p=IIS_5_1", "p=IIS_7_5", "p=MINIMAL", "p=GENERIC" };
static const char *UCFG[] = { "-", "ctx=1,plus=0", "ctx=1,inv=1", "ctx=1,inv=2", "ctx=1,udec=1,inv=2", "ctx=1,nrt=1,net=1", "ctx=1,udec=1", "ctx=1,udec=1,inv=1,nrt=1,net=1,plus=0" };

typedef struct { char *s; size_t n, cap; } sb_t;
static void sb_put(sb_t *b, const char *p, size_t n) {
    if (b->n + n + 1 > b->cap) { b->cap = (b->n + n + 1) * 2; b->s = realloc(b->s, b->cap); }
    memcpy(b->s + b->n, p, n); b->n += n; b->s[b->n] = 0;
}
static void sb_str(sb_t *b, const char *p) { sb_put(b, p, strlen(p)); }
static void sb_hex(sb_t *b, const uint8_t *d, size_t n) {
    static const char H[] = "0123456789abcdef";
    if (n == 0) { sb_put(b, "-", 1); return; }
    for (size_t i = 0; i < n; i++) { char c[2] = { H[d[i] >> 4], H[d[i] & 15] }; sb_put(b, c, 2); }
}
static void sb_chunks(sb_t *b, const uint8_t *d, size_t n) {
    size_t start = 0; int any = 0;
    for (size_t i = 0; i + 1 < n; i++) {
        if (d[i] == 0xFE && d[i + 1] == 0xFE) { if (any) sb_put(b, "|", 1); sb_hex(b, d + start, i - start); any = 1; start = i + 2; i++; }
    }
    if (any) sb_put(b, "|", 1);
    sb_hex(b, d + start, n - start);
}

/* the line "family args..." for this input */
static void build(const uint8_t *data, size_t size, sb_t *line) {
    unsigned sel = size > 0 ? data[0] % 14 : 0, c = size > 1 ? data[1] : 0;
    const uint8_t *d = size > 2 ? data + 2 : data + size; size_t n = size > 2 ? size - 2 : 0;
    switch (sel) {
    case 0: case 1: {   /* mpart */
        size_t k = 0; while (k < n && d[k] != '\n') k++;
        sb_t ct = { 0 }; sb_str(&ct, (c & 1) ? "multipart/form-data; boundary=" : "multipart/form-data;boundary=");
        sb_put(&ct, (const char *) d, k);
        sb_str(line, "mpart "); sb_hex(line, (uint8_t *) ct.s, ct.n); sb_put(line, " ", 1);
        if (k < n) sb_chunks(line, d + k + 1, n - k - 1); else sb_put(line, "!", 1);
        free(ct.s); break; }
    case 2: sb_str(line, "urlenc "); sb_str(line, UCFG[c % 8]); sb_put(line, " ", 1); sb_chunks(line, d, n); break;
    case 3: sb_str(line, "fn parse_uri "); sb_hex(line, d, n); break;
    case 4: sb_str(line, "fn hostport "); sb_hex(line, d, n); break;
    case 5: sb_str(line, "fn validate_hostname "); sb_hex(line, d, n); break;
    case 6: sb_str(line, "fn decode_path "); sb_str(line, DCFG[c % 16]); sb_put(line, " ", 1); sb_hex(line, d, n); break;
    case 7: sb_str(line, "fn pipeline "); sb_str(line, DCFG[c % 16]); sb_put(line, " ", 1); sb_hex(line, d, n); break;
    case 8: sb_str(line, "fn norm_uri "); sb_str(line, PERS[c % 8]); sb_put(line, " ", 1); sb_hex(line, d, n); break;
    case 9: sb_str(line, "fn urldecode "); sb_str(line, UCFG[c % 8]); sb_put(line, " ", 1); sb_hex(line, d, n); break;
    case 10: sb_str(line, "fn utf8_decode "); sb_str(line, (c & 1) ? "p=IDS" : "p=IDS,u8unw=400,repl=33"); sb_put(line, " ", 1); sb_hex(line, d, n); break;
    case 11: sb_str(line, "fn normalize "); sb_hex(line, d, n); break;
    case 12: sb_str(line, "fn inet6 "); sb_hex(line, d, n); break;
    default: sb_str(line, "fn urldecode_path "); sb_str(line, DCFG[c % 16]); sb_put(line, " ", 1); sb_hex(line, d, n); break;
    }
}

#ifndef FUZZ_DUMP
int LLVMFuzzerTestOneInput(const uint8_t *data, size_t size) {
    static int init;
    if (!init) { init = 1; if (!getenv("FUZZ_SHOW")) freopen("/dev/null", "w", stdout); }
    sb_t line = { 0 };
    build(data, size, &line);
    char *tok[MAXTOK]; int nt = 0; char *p = line.s;
    while (*p && nt < MAXTOK) { tok[nt++] = p; while (*p && *p != ' ') p++; if (*p) *p++ = 0; }
    if (nt >= 1) {
        if (!strcmp(tok[0], "fn")) op_fn(nt - 1, tok + 1);
        else if (!strcmp(tok[0], "urlenc")) op_urlenc(nt - 1, tok + 1);
        else if (!strcmp(tok[0], "mpart")) op_mpart(nt - 1, tok + 1);
    }
    free(line.s);
    return 0;
}
#else
int main(int argc, char **argv) {
    for (int i = 1; i < argc; i++) {
        FILE *f = fopen(argv[i], "rb"); if (!f) continue;
        static uint8_t buf[1 << 20]; size_t n = fread(buf, 1, sizeof buf, f); fclose(f);
        sb_t line = { 0 };
        build(buf, n, &line);
        printf("[\"%s\"]\n", line.s);
        free(line.s);
    }
    return 0;
}
#endif
