/* cfgspec -> htp_cfg_t through the PUBLIC setters only (the configuration lattice the
 * properties quantify over). Keys as in lean/HtpModel/Cfg.lean. */
#include "corr.h"

static int personality_by_name(const char *n) {
    if (!strcmp(n, "MINIMAL")) return HTP_SERVER_MINIMAL;
    if (!strcmp(n, "GENERIC")) return HTP_SERVER_GENERIC;
    if (!strcmp(n, "IDS")) return HTP_SERVER_IDS;
    if (!strcmp(n, "IIS_5_1")) return HTP_SERVER_IIS_5_1;
    if (!strcmp(n, "IIS_6_0")) return HTP_SERVER_IIS_6_0;
    if (!strcmp(n, "IIS_7_0")) return HTP_SERVER_IIS_7_0;
    if (!strcmp(n, "IIS_7_5")) return HTP_SERVER_IIS_7_5;
    if (!strcmp(n, "APACHE_2")) return HTP_SERVER_APACHE_2;
    return -1;
}

htp_cfg_t *cfg_from_spec(const char *spec0) {
    htp_cfg_t *cfg = htp_config_create();
    if (!cfg) return NULL;
    if (!strcmp(spec0, "-")) return cfg;
    char *spec = strdup(spec0);
    int ctx = HTP_DECODER_URL_PATH;
    char *save = NULL;
    for (char *kv = strtok_r(spec, ",", &save); kv; kv = strtok_r(NULL, ",", &save)) {
        char *eq = strchr(kv, '=');
        if (!eq) goto bad;
        *eq = 0;
        const char *k = kv, *vs = eq + 1;
        if (!strcmp(k, "p")) {
            int p = personality_by_name(vs);
            if (p < 0 || htp_config_set_server_personality(cfg, p) != HTP_OK) goto bad;
            continue;
        }
        char *end;
        unsigned long v = strtoul(vs, &end, 10);
        if (*end || end == vs) goto bad;
        if (!strcmp(k, "ctx")) { if (v >= 3) goto bad; ctx = (int) v; }
        else if (!strcmp(k, "bs")) htp_config_set_backslash_convert_slashes(cfg, ctx, (int) v);
        else if (!strcmp(k, "lc")) htp_config_set_convert_lowercase(cfg, ctx, (int) v);
        else if (!strcmp(k, "comp")) htp_config_set_path_separators_compress(cfg, ctx, (int) v);
        else if (!strcmp(k, "sepdec")) htp_config_set_path_separators_decode(cfg, ctx, (int) v);
        else if (!strcmp(k, "plus")) htp_config_set_plusspace_decode(cfg, ctx, (int) v);
        else if (!strcmp(k, "sepunw")) htp_config_set_path_separators_encoded_unwanted(cfg, ctx, v);
        else if (!strcmp(k, "nrt")) htp_config_set_nul_raw_terminates(cfg, ctx, (int) v);
        else if (!strcmp(k, "nru")) htp_config_set_nul_raw_unwanted(cfg, ctx, v);
        else if (!strcmp(k, "udec")) htp_config_set_u_encoding_decode(cfg, ctx, (int) v);
        else if (!strcmp(k, "uunw")) htp_config_set_u_encoding_unwanted(cfg, ctx, v);
        else if (!strcmp(k, "inv")) { if (v >= 3) goto bad; htp_config_set_url_encoding_invalid_handling(cfg, ctx, v); }
        else if (!strcmp(k, "invunw")) htp_config_set_url_encoding_invalid_unwanted(cfg, ctx, v);
        else if (!strcmp(k, "net")) htp_config_set_nul_encoded_terminates(cfg, ctx, (int) v);
        else if (!strcmp(k, "neu")) htp_config_set_nul_encoded_unwanted(cfg, ctx, v);
        else if (!strcmp(k, "u8unw")) htp_config_set_utf8_invalid_unwanted(cfg, ctx, v);
        else if (!strcmp(k, "u8best")) htp_config_set_utf8_convert_bestfit(cfg, ctx, (int) v);
        else if (!strcmp(k, "repl")) { if (v >= 256) goto bad; htp_config_set_bestfit_replacement_byte(cfg, ctx, (int) v); }
        else if (!strcmp(k, "hard")) htp_config_set_field_limits(cfg, cfg->field_limit_soft, v);
        else if (!strcmp(k, "soft")) htp_config_set_field_limits(cfg, v, cfg->field_limit_hard);
        else if (!strcmp(k, "maxtx")) htp_config_set_max_tx(cfg, (uint32_t) v);
        else if (!strcmp(k, "autodestroy")) htp_config_set_tx_auto_destroy(cfg, (int) v);
        else if (!strcmp(k, "cookies")) htp_config_set_parse_request_cookies(cfg, (int) v);
        else if (!strcmp(k, "auth")) htp_config_set_parse_request_auth(cfg, (int) v);
        else if (!strcmp(k, "respdecomp")) htp_config_set_response_decompression(cfg, (int) v);
        else if (!strcmp(k, "reqdecomp")) htp_config_set_request_decompression(cfg, (int) v);
        else if (!strcmp(k, "layers")) htp_config_set_response_decompression_layer_limit(cfg, (int) v);
        else if (!strcmp(k, "lzmalayers")) htp_config_set_lzma_layers(cfg, (int) v);
        else if (!strcmp(k, "bomb")) htp_config_set_compression_bomb_limit(cfg, v);
        else if (!strcmp(k, "ztime")) htp_config_set_compression_time_limit(cfg, v);
        else if (!strcmp(k, "spaceuri")) htp_config_set_allow_space_uri(cfg, (int) v);
        else if (!strcmp(k, "lws")) htp_config_set_requestline_leading_whitespace_unwanted(cfg, HTP_DECODER_DEFAULTS, v);
        else if (!strcmp(k, "log")) htp_config_set_log_level(cfg, (enum htp_log_level_t) v);
        else if (!strcmp(k, "urlenc")) { if (v) htp_config_register_urlencoded_parser(cfg); }
        else if (!strcmp(k, "mpart")) { if (v) htp_config_register_multipart_parser(cfg); }
        else goto bad;
    }
    free(spec);
    return cfg;
bad:
    free(spec);
    htp_config_destroy(cfg);
    return NULL;
}
