/* `cfun <name> <args>`: the real C leaf functions that extract/ctrans.py translates into Lean terms (HtpModel/Gen/CFuns.lean).
   The driver evaluates the translated term on the same arguments: this is the check of the TRANSLATOR (and of HtpModel/CSem.lean),
   independent of the hand-written model. Byte arguments are exact-size heap copies (hex_parse), so an out-of-bounds read is an ASan report. */
#include "corr.h"
#include <ctype.h>

/* `cfun list <capacity> <op>,<op>,...`: p<v> push, o pop, s shift, g<i> get, r<i>:<v> replace, z size, c clear.
   prints every return value, then first last max_size current_size and the used slots in logical order */
static int cfun_list(char **t) {
    size_t cap = strtoul(t[1], NULL, 10);
    if (cap == 0) return 0;
    htp_list_array_t *l = htp_list_array_create(cap);
    if (l == NULL) return 0;
    char *ops = t[2], *save = NULL;
    for (char *o = strtok_r(ops, ",", &save); o; o = strtok_r(NULL, ",", &save)) {
        switch (o[0]) {
            case 'p': printf("%d,", htp_list_array_push(l, (void *) (uintptr_t) strtoul(o + 1, NULL, 10))); break;
            case 'o': printf("%lu,", (unsigned long) (uintptr_t) htp_list_array_pop(l)); break;
            case 's': printf("%lu,", (unsigned long) (uintptr_t) htp_list_array_shift(l)); break;
            case 'g': printf("%lu,", (unsigned long) (uintptr_t) htp_list_array_get(l, strtoul(o + 1, NULL, 10))); break;
            case 'r': { char *c = strchr(o, ':'); if (!c) { htp_list_array_destroy(l); return 0; }
                        printf("%d,", htp_list_array_replace(l, strtoul(o + 1, NULL, 10), (void *) (uintptr_t) strtoul(c + 1, NULL, 10))); break; }
            case 'z': printf("%zu,", htp_list_array_size(l)); break;
            case 'c': htp_list_array_clear(l); printf("0,"); break;
            default: htp_list_array_destroy(l); return 0;
        }
    }
    printf(" %zu %zu %zu %zu [", l->first, l->last, l->max_size, l->current_size);
    for (size_t i = 0; i < l->current_size; i++) printf("%s%lu", i ? " " : "", (unsigned long) (uintptr_t) l->elements[(l->first + i) % l->max_size]);
    printf("]");
    htp_list_array_destroy(l);
    return 1;
}

int op_cfun(int n, char **t) {
    if (n < 2) return 0;
    const char *f = t[0];
    if (n == 3 && !strcmp(f, "list")) return cfun_list(t);
    if (n == 2 && (!strcmp(f, "htp_is_lws") || !strcmp(f, "htp_is_text") || !strcmp(f, "htp_is_folding_char")
                   || !strcmp(f, "htp_is_space") || !strcmp(f, "htp_is_separator") || !strcmp(f, "htp_is_token"))) {
        int c = (int) strtol(t[1], NULL, 10);
        int r = !strcmp(f, "htp_is_lws") ? htp_is_lws(c) : !strcmp(f, "htp_is_text") ? htp_is_text(c)
              : !strcmp(f, "htp_is_space") ? htp_is_space(c) : !strcmp(f, "htp_is_separator") ? htp_is_separator(c)
              : !strcmp(f, "htp_is_token") ? htp_is_token(c) : htp_is_folding_char(c);
        printf("%d", r); return 1;
    }
    if (n == 2 && !strcmp(f, "htp_connp_is_line_folded")) {
        unsigned char *a; long al = hex_parse(t[1], &a); if (al < 0) return 0;
        printf("%d", htp_connp_is_line_folded(a, al)); free(a); return 1;
    }
    if (n == 4 && !strcmp(f, "htp_utf8_decode_allow_overlong")) {
        uint32_t st = (uint32_t) strtoul(t[1], NULL, 10), cp = (uint32_t) strtoul(t[2], NULL, 10);
        uint32_t r = htp_utf8_decode_allow_overlong(&st, &cp, (uint32_t) strtoul(t[3], NULL, 10));
        printf("%u %u %u", r, st, cp); return 1;
    }
    if ((n == 2 || n == 3) && (!strcmp(f, "bstr_char_at") || !strcmp(f, "bstr_char_at_end") || !strcmp(f, "bstr_chr") || !strcmp(f, "bstr_rchr")
                               || !strcmp(f, "bstr_chop") || !strcmp(f, "bstr_to_lowercase")
                               || !strcmp(f, "bstr_begins_with_mem") || !strcmp(f, "bstr_begins_with_mem_nocase"))) {
        unsigned char *a; long al = hex_parse(t[1], &a); if (al < 0) return 0;
        bstr *b = bstr_dup_mem(a, al);
        if (!strcmp(f, "bstr_chop") && n == 2) { bstr_chop(b); hex_print(stdout, bstr_ptr(b), bstr_len(b)); }
        else if (!strcmp(f, "bstr_to_lowercase") && n == 2) { bstr_to_lowercase(b); hex_print(stdout, bstr_ptr(b), bstr_len(b)); }
        else if (n == 3 && (!strcmp(f, "bstr_begins_with_mem") || !strcmp(f, "bstr_begins_with_mem_nocase"))) {
            unsigned char *c; long cl = hex_parse(t[2], &c); if (cl < 0) { bstr_free(b); free(a); return 0; }
            printf("%d", !strcmp(f, "bstr_begins_with_mem") ? bstr_begins_with_mem(b, c, cl) : bstr_begins_with_mem_nocase(b, c, cl)); free(c);
        } else if (n == 3) {
            unsigned long k = strtoul(t[2], NULL, 10);
            int r = !strcmp(f, "bstr_char_at") ? bstr_char_at(b, k) : !strcmp(f, "bstr_char_at_end") ? bstr_char_at_end(b, k)
                  : !strcmp(f, "bstr_chr") ? bstr_chr(b, (int) k) : bstr_rchr(b, (int) k);
            printf("%d", r);
        } else { bstr_free(b); free(a); return 0; }
        bstr_free(b); free(a); return 1;
    }
    if (n == 2 && !strcmp(f, "htp_normalize_uri_path_inplace")) {
        unsigned char *a; long al = hex_parse(t[1], &a); if (al < 0) return 0;
        bstr *b = bstr_dup_mem(a, al);
        htp_normalize_uri_path_inplace(b);
        hex_print(stdout, bstr_ptr(b), bstr_len(b)); bstr_free(b); free(a); return 1;
    }
    if (n == 2 && !strcmp(f, "htp_treat_response_line_as_body")) {
        unsigned char *a; long al = hex_parse(t[1], &a); if (al < 0) return 0;
        printf("%d", htp_treat_response_line_as_body(a, al)); free(a); return 1;
    }
    if (n == 2 && !strcmp(f, "htp_parse_chunked_length")) {
        unsigned char *a; long al = hex_parse(t[1], &a); if (al < 0) return 0;
        int ext = 0;
        int64_t r = htp_parse_chunked_length(a, al, &ext);
        printf("%lld %d", (long long) r, ext); free(a); return 1;
    }
    if (n == 2 && (!strcmp(f, "htp_is_line_empty") || !strcmp(f, "htp_is_line_whitespace") || !strcmp(f, "htp_chomp"))) {
        unsigned char *a; long al = hex_parse(t[1], &a); if (al < 0) return 0;
        if (!strcmp(f, "htp_chomp")) { size_t l = (size_t) al; int r = htp_chomp(a, &l); printf("%d %zu", r, l); }
        else printf("%d", !strcmp(f, "htp_is_line_empty") ? htp_is_line_empty(a, al) : htp_is_line_whitespace(a, al));
        free(a); return 1;
    }
    if (n == 3 && (!strcmp(f, "bstr_util_cmp_mem_nocasenorzero") || !strcmp(f, "bstr_util_mem_index_of_mem_nocase")
                   || !strcmp(f, "bstr_util_mem_index_of_mem_nocasenorzero"))) {
        unsigned char *a, *b; long al = hex_parse(t[1], &a); if (al < 0) return 0;
        long bl = hex_parse(t[2], &b); if (bl < 0) { free(a); return 0; }
        int r = !strcmp(f, "bstr_util_cmp_mem_nocasenorzero") ? bstr_util_cmp_mem_nocasenorzero(a, al, b, bl)
              : !strcmp(f, "bstr_util_mem_index_of_mem_nocase") ? bstr_util_mem_index_of_mem_nocase(a, al, b, bl)
              : bstr_util_mem_index_of_mem_nocasenorzero(a, al, b, bl);
        printf("%d", r); free(a); free(b); return 1;
    }
    if (n == 3 && (!strcmp(f, "bstr_util_cmp_mem") || !strcmp(f, "bstr_util_cmp_mem_nocase") || !strcmp(f, "bstr_util_mem_index_of_mem"))) {
        unsigned char *a, *b; long al = hex_parse(t[1], &a); if (al < 0) return 0;
        long bl = hex_parse(t[2], &b); if (bl < 0) { free(a); return 0; }
        int r = !strcmp(f, "bstr_util_cmp_mem") ? bstr_util_cmp_mem(a, al, b, bl)
              : !strcmp(f, "bstr_util_cmp_mem_nocase") ? bstr_util_cmp_mem_nocase(a, al, b, bl) : bstr_util_mem_index_of_mem(a, al, b, bl);
        printf("%d", r); free(a); free(b); return 1;
    }
    if (n == 3 && !strcmp(f, "bstr_util_mem_to_pint")) {
        unsigned char *a; long al = hex_parse(t[2], &a); if (al < 0) return 0;
        size_t last = 0;
        int64_t r = bstr_util_mem_to_pint(a, al, (int) strtol(t[1], NULL, 10), &last);
        printf("%lld %zu", (long long) r, last); free(a); return 1;
    }
    if (n == 3 && !strcmp(f, "htp_parse_positive_integer_whitespace")) {
        unsigned char *a; long al = hex_parse(t[2], &a); if (al < 0) return 0;
        printf("%lld", (long long) htp_parse_positive_integer_whitespace(a, al, (int) strtol(t[1], NULL, 10))); free(a); return 1;
    }
    return 0;
}
