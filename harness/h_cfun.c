/* `cfun <name> <args>`: the real C leaf functions that extract/ctrans.py translates into Lean terms (HtpModel/Gen/CFuns.lean).
   The driver evaluates the translated term on the same arguments: this is the check of the TRANSLATOR (and of HtpModel/CSem.lean),
   independent of the hand-written model. Byte arguments are exact-size heap copies (hex_parse), so an out-of-bounds read is an ASan report. */
#include "corr.h"
#include <ctype.h>

int op_cfun(int n, char **t) {
    if (n < 2) return 0;
    const char *f = t[0];
    if (n == 2 && (!strcmp(f, "htp_is_lws") || !strcmp(f, "htp_is_text") || !strcmp(f, "htp_is_folding_char")
                   || !strcmp(f, "htp_is_space") || !strcmp(f, "htp_is_separator") || !strcmp(f, "htp_is_token"))) {
        int c = (int) strtol(t[1], NULL, 10);
        int r = !strcmp(f, "htp_is_lws") ? htp_is_lws(c) : !strcmp(f, "htp_is_text") ? htp_is_text(c)
              : !strcmp(f, "htp_is_space") ? htp_is_space(c) : !strcmp(f, "htp_is_separator") ? htp_is_separator(c)
              : !strcmp(f, "htp_is_token") ? htp_is_token(c) : htp_is_folding_char(c);
        printf("%d", r); return 1;
    }
    if (n == 2 && !strcmp(f, "htp_normalize_uri_path_inplace")) {
        unsigned char *a; long al = hex_parse(t[1], &a); if (al < 0) return 0;
        bstr *b = bstr_dup_mem(a, al);
        htp_normalize_uri_path_inplace(b);
        hex_print(stdout, bstr_ptr(b), bstr_len(b)); bstr_free(b); free(a); return 1;
    }
    if (n == 2 && !strcmp(f, "htp_treat_response_line_as_body")) {
        unsigned char *a; long al = hex_parse(t[1], &a); if (al < 0) return 0;
        printf("%d", htp_treat_response_line_as_body(a, al)); free(a); return 1;
    }
    if (n == 2 && !strcmp(f, "htp_parse_chunked_length")) {
        unsigned char *a; long al = hex_parse(t[1], &a); if (al < 0) return 0;
        int ext = 0;
        int64_t r = htp_parse_chunked_length(a, al, &ext);
        printf("%lld %d", (long long) r, ext); free(a); return 1;
    }
    if (n == 2 && (!strcmp(f, "htp_is_line_empty") || !strcmp(f, "htp_is_line_whitespace") || !strcmp(f, "htp_chomp"))) {
        unsigned char *a; long al = hex_parse(t[1], &a); if (al < 0) return 0;
        if (!strcmp(f, "htp_chomp")) { size_t l = (size_t) al; int r = htp_chomp(a, &l); printf("%d %zu", r, l); }
        else printf("%d", !strcmp(f, "htp_is_line_empty") ? htp_is_line_empty(a, al) : htp_is_line_whitespace(a, al));
        free(a); return 1;
    }
    if (n == 3 && (!strcmp(f, "bstr_util_cmp_mem_nocasenorzero") || !strcmp(f, "bstr_util_mem_index_of_mem_nocase")
                   || !strcmp(f, "bstr_util_mem_index_of_mem_nocasenorzero"))) {
        unsigned char *a, *b; long al = hex_parse(t[1], &a); if (al < 0) return 0;
        long bl = hex_parse(t[2], &b); if (bl < 0) { free(a); return 0; }
        int r = !strcmp(f, "bstr_util_cmp_mem_nocasenorzero") ? bstr_util_cmp_mem_nocasenorzero(a, al, b, bl)
              : !strcmp(f, "bstr_util_mem_index_of_mem_nocase") ? bstr_util_mem_index_of_mem_nocase(a, al, b, bl)
              : bstr_util_mem_index_of_mem_nocasenorzero(a, al, b, bl);
        printf("%d", r); free(a); free(b); return 1;
    }
    if (n == 3 && (!strcmp(f, "bstr_util_cmp_mem") || !strcmp(f, "bstr_util_cmp_mem_nocase") || !strcmp(f, "bstr_util_mem_index_of_mem"))) {
        unsigned char *a, *b; long al = hex_parse(t[1], &a); if (al < 0) return 0;
        long bl = hex_parse(t[2], &b); if (bl < 0) { free(a); return 0; }
        int r = !strcmp(f, "bstr_util_cmp_mem") ? bstr_util_cmp_mem(a, al, b, bl)
              : !strcmp(f, "bstr_util_cmp_mem_nocase") ? bstr_util_cmp_mem_nocase(a, al, b, bl) : bstr_util_mem_index_of_mem(a, al, b, bl);
        printf("%d", r); free(a); free(b); return 1;
    }
    if (n == 3 && !strcmp(f, "bstr_util_mem_to_pint")) {
        unsigned char *a; long al = hex_parse(t[2], &a); if (al < 0) return 0;
        size_t last = 0;
        int64_t r = bstr_util_mem_to_pint(a, al, (int) strtol(t[1], NULL, 10), &last);
        printf("%lld %zu", (long long) r, last); free(a); return 1;
    }
    if (n == 3 && !strcmp(f, "htp_parse_positive_integer_whitespace")) {
        unsigned char *a; long al = hex_parse(t[2], &a); if (al < 0) return 0;
        printf("%lld", (long long) htp_parse_positive_integer_whitespace(a, al, (int) strtol(t[1], NULL, 10))); free(a); return 1;
    }
    return 0;
}
