/* conn[@k] ... : connection scripts on the real library. Callbacks log events and follow a policy table. */
#include "corr.h"
#include <sys/time.h>
#include <sanitizer/allocator_interface.h>

#define MAXCONN 16
#define MAXPOL 64

typedef struct {
    htp_cfg_t *cfg;
    htp_connp_t *connp;
    int npol;
    unsigned long pol_n[MAXPOL];
    int pol_act[MAXPOL];   /* 0 ok 1 declined 2 stop 3 error 4 destroy 5 reg */
    unsigned long cb_count;
    unsigned long next_uid;
    char *ev;              /* event text of the current call */
    size_t evlen, evcap;
} hconn_t;

/* C07: what zlib returned for every inflate() call of the decompression driver during one data call (hook in
 * htp_decompressors.c under LIBHTP_VERIF): "rc:consumed:produced-hex" items. The model of the driver is run against these. */
extern void (*htp_verif_inflate_cb)(int, unsigned int, unsigned int, unsigned int, unsigned int, const unsigned char *);
static char *g_zt; static size_t g_zt_len, g_zt_cap;
static void zt_cb(int rc, unsigned int ib, unsigned int ia, unsigned int ob, unsigned int oa, const unsigned char *o) {
    static const char *hxd = "0123456789abcdef";
    size_t produced = ob - oa;
    size_t need = g_zt_len + 64 + 2 * produced;
    if (need > g_zt_cap) { g_zt_cap = need * 2; g_zt = realloc(g_zt, g_zt_cap); }
    g_zt_len += (size_t) snprintf(g_zt + g_zt_len, 48, "%s%d:%u:", g_zt_len ? "," : "", rc, ib - ia);
    if (!produced) g_zt[g_zt_len++] = '-';
    for (size_t i = 0; i < produced; i++) { g_zt[g_zt_len++] = hxd[o[i] >> 4]; g_zt[g_zt_len++] = hxd[o[i] & 15]; }
    g_zt[g_zt_len] = 0;
}

/* builds without ASan (cov, plain) have no allocator statistics: the `mem` operation then reports 0 */
__attribute__((weak)) size_t __sanitizer_get_current_allocated_bytes(void) { return 0; }

static hconn_t g_conns[MAXCONN];
/* the chunk of the data call that is currently running, per direction (NULL when none) */
static const unsigned char *g_live_req, *g_live_res; static size_t g_live_req_len, g_live_res_len;
static hconn_t *g_cur;    /* connection whose call is running (callbacks find their state here) */

static void ev_append(hconn_t *h, const char *s, size_t n) {
    if (h->evlen + n + 1 > h->evcap) {
        h->evcap = (h->evlen + n + 1) * 2 + 256;
        h->ev = realloc(h->ev, h->evcap);
    }
    memcpy(h->ev + h->evlen, s, n);
    h->evlen += n;
    h->ev[h->evlen] = 0;
}

static long tx_uid(hconn_t *h, htp_tx_t *tx) {
    if (tx == NULL) return -1;
    uintptr_t u = (uintptr_t) htp_tx_get_user_data(tx);
    if (u == 0) { u = ++h->next_uid; htp_tx_set_user_data(tx, (void *) u); }
    return (long) (u - 1);
}

static int policy_action(hconn_t *h) {
    unsigned long n = h->cb_count++;
    for (int i = 0; i < h->npol; i++) if (h->pol_n[i] == n) return h->pol_act[i];
    return 0;
}

static int cb_tx_req_body(htp_tx_data_t *d);
static int cb_tx_res_body(htp_tx_data_t *d);

static int log_event(const char *name, htp_tx_t *tx, int is_data, const unsigned char *data, size_t len, int is_last) {
    hconn_t *h = g_cur;
    char head[160];
    int n = snprintf(head, sizeof head, "%s%s/%ld/%d/%d/", h->evlen ? " " : "", name, tx_uid(h, tx),
                     tx ? (int) tx->request_progress : 0, tx ? (int) tx->response_progress : 0);
    ev_append(h, head, n);
    /* raw header/trailer data always points into the caller's chunk: is that chunk's call still running? */
    int is_req_raw = !strcmp(name, "request_header_data") || !strcmp(name, "request_trailer_data");
    int is_res_raw = !strcmp(name, "response_header_data") || !strcmp(name, "response_trailer_data");
    int stale = 0;
    if (is_data && data != NULL && (is_req_raw || is_res_raw)) {
        const unsigned char *lv = is_req_raw ? g_live_req : g_live_res; size_t ll = is_req_raw ? g_live_req_len : g_live_res_len;
        if (lv == NULL || data < lv || data + len > lv + ll) stale = 1;
    }
    if (!is_data) ev_append(h, ".", 1);
    else if (stale) { char g[32]; int m = snprintf(g, sizeof g, "!%zu", len); ev_append(h, g, m); }
    else if (data == NULL) {
        if (len > 0) { char g[32]; int m = snprintf(g, sizeof g, "~%zu", len); ev_append(h, g, m); }
        else ev_append(h, "~", 1);
    } else if (len == 0) ev_append(h, "-", 1);
    else {
        static const char *hx = "0123456789abcdef";
        char *tmp = malloc(len * 2);
        for (size_t i = 0; i < len; i++) { tmp[2 * i] = hx[data[i] >> 4]; tmp[2 * i + 1] = hx[data[i] & 15]; }
        ev_append(h, tmp, len * 2);
        free(tmp);
    }
    ev_append(h, is_last ? "/1" : "/0", 2);
    int act = policy_action(h);
    switch (act) {
        case 0: return HTP_OK;
        case 1: return HTP_DECLINED;
        case 2: return HTP_STOP;
        case 3: return HTP_ERROR;
        case 4:
            /* only the TRANSACTION_COMPLETE callback destroys, and only when the library does not do it itself */
            if (tx && !strcmp(name, "transaction_complete") && !h->cfg->tx_auto_destroy) htp_tx_destroy(tx);
            return HTP_OK;
        case 5:
            if (tx) {
                htp_tx_register_request_body_data(tx, cb_tx_req_body);
                htp_tx_register_response_body_data(tx, cb_tx_res_body);
            }
            return HTP_OK;
    }
    return HTP_OK;
}

#define TXCB(fn, nm) static int fn(htp_tx_t *tx) { return log_event(nm, tx, 0, NULL, 0, 0); }
TXCB(cb_request_start, "request_start")
TXCB(cb_request_line, "request_line")
TXCB(cb_request_uri_normalize, "request_uri_normalize")
TXCB(cb_request_headers, "request_headers")
TXCB(cb_request_trailer, "request_trailer")
TXCB(cb_request_complete, "request_complete")
TXCB(cb_response_start, "response_start")
TXCB(cb_response_line, "response_line")
TXCB(cb_response_headers, "response_headers")
TXCB(cb_response_trailer, "response_trailer")
TXCB(cb_response_complete, "response_complete")
TXCB(cb_transaction_complete, "transaction_complete")

#define DATACB(fn, nm, last) static int fn(htp_tx_data_t *d) { return log_event(nm, d->tx, 1, d->data, d->len, last); }
DATACB(cb_request_header_data, "request_header_data", d->is_last)
DATACB(cb_request_trailer_data, "request_trailer_data", d->is_last)
DATACB(cb_request_body_data, "request_body_data", d->is_last)
DATACB(cb_response_header_data, "response_header_data", d->is_last)
DATACB(cb_response_trailer_data, "response_trailer_data", d->is_last)
DATACB(cb_response_body_data, "response_body_data", 0)
DATACB(cb_tx_req_body, "tx_request_body_data", d->is_last)
DATACB(cb_tx_res_body, "tx_response_body_data", 0)

static int cb_request_file_data(htp_file_data_t *fd) {
    return log_event("request_file_data", g_cur->connp->in_tx, 1, fd->data, fd->len, 0);
}

static int parse_policy(hconn_t *h, const char *s0) {
    h->npol = 0;
    if (!strcmp(s0, "-")) return 1;
    char *s = strdup(s0), *save = NULL;
    for (char *it = strtok_r(s, ",", &save); it; it = strtok_r(NULL, ",", &save)) {
        char *col = strchr(it, ':');
        if (!col || h->npol >= MAXPOL) { free(s); return 0; }
        *col = 0;
        h->pol_n[h->npol] = strtoul(it, NULL, 10);
        const char *a = col + 1;
        int act = !strcmp(a, "ok") ? 0 : !strcmp(a, "declined") ? 1 : !strcmp(a, "stop") ? 2 : !strcmp(a, "error") ? 3 :
                  !strcmp(a, "destroy") ? 4 : !strcmp(a, "reg") ? 5 : -1;
        if (act < 0) { free(s); return 0; }
        h->pol_act[h->npol++] = act;
    }
    free(s);
    return 1;
}

/* connections created with the same cfgspec SHARE one htp_cfg_t (C19): pool with reference counts */
#define MAXCFG 16
static struct { char *spec; htp_cfg_t *cfg; int refs; } g_cfgs[MAXCFG];

static void cfg_release(htp_cfg_t *cfg) {
    for (int i = 0; i < MAXCFG; i++) if (g_cfgs[i].cfg == cfg) {
        if (--g_cfgs[i].refs == 0) { htp_config_destroy(cfg); free(g_cfgs[i].spec); g_cfgs[i].spec = NULL; g_cfgs[i].cfg = NULL; }
        return;
    }
    htp_config_destroy(cfg);
}

static void hconn_free(hconn_t *h) {
    if (h->connp) htp_connp_destroy_all(h->connp);
    if (h->cfg) cfg_release(h->cfg);
    free(h->ev);
    memset(h, 0, sizeof *h);
}

void conn_cleanup(void) { for (int i = 0; i < MAXCONN; i++) hconn_free(&g_conns[i]); free(g_zt); g_zt = NULL; g_zt_len = g_zt_cap = 0; }

static void p_opt_len_raw(const void *p, size_t n) { if (p) printf("%zu", n); else printf("~"); }
static void p_opt_len_bstr(const bstr *b) { if (b) printf("%zu", bstr_len(b)); else printf("~"); }

static void p_headers(htp_table_t *t) {
    printf("[");
    if (t) for (size_t i = 0, n = htp_table_size(t); i < n; i++) {
        htp_header_t *h = htp_table_get_index(t, i, NULL);
        if (i) putchar(',');
        hex_print_bstr(stdout, h->name); putchar(':'); hex_print_bstr(stdout, h->value); printf(":%llu", (unsigned long long) h->flags);
    }
    printf("]");
}

static void p_tx(hconn_t *h, htp_tx_t *tx) {
    printf("tx{uid=%ld rp=%d sp=%d flags=%llu ", tx_uid(h, tx), (int) tx->request_progress, (int) tx->response_progress,
           (unsigned long long) tx->flags);
    printf("line="); hex_print_bstr(stdout, tx->request_line);
    printf(" m="); hex_print_bstr(stdout, tx->request_method);
    printf(" mn=%d uri=", (int) tx->request_method_number); hex_print_bstr(stdout, tx->request_uri);
    printf(" proto="); hex_print_bstr(stdout, tx->request_protocol);
    printf(" pn=%d h09=%d ", tx->request_protocol_number, tx->is_protocol_0_9 ? 1 : 0);
    htp_uri_t *r = tx->parsed_uri_raw;
    printf("raw=[");
    hex_print_bstr(stdout, r->scheme); putchar(' '); hex_print_bstr(stdout, r->username); putchar(' ');
    hex_print_bstr(stdout, r->password); putchar(' '); hex_print_bstr(stdout, r->hostname); putchar(' ');
    hex_print_bstr(stdout, r->port); printf(" %d ", r->port_number);
    hex_print_bstr(stdout, r->path); putchar(' '); hex_print_bstr(stdout, r->query); putchar(' '); hex_print_bstr(stdout, r->fragment);
    printf("] norm=");
    htp_uri_t *u = tx->parsed_uri;
    if (!u) printf("~");
    else {
        printf("[");
        hex_print_bstr(stdout, u->scheme); putchar(' '); hex_print_bstr(stdout, u->username); putchar(' ');
        hex_print_bstr(stdout, u->password); putchar(' '); hex_print_bstr(stdout, u->hostname); printf(" %d ", u->port_number);
        hex_print_bstr(stdout, u->path); putchar(' '); hex_print_bstr(stdout, u->query); putchar(' '); hex_print_bstr(stdout, u->fragment);
        printf("]");
    }
    printf(" rh="); p_headers(tx->request_headers);
    printf(" tc=%d cl=%lld ml=%lld el=%lld ct=", (int) tx->request_transfer_coding, (long long) tx->request_content_length,
           (long long) tx->request_message_len, (long long) tx->request_entity_len);
    hex_print_bstr(stdout, tx->request_content_type);
    printf(" host="); hex_print_bstr(stdout, tx->request_hostname);
    printf(" port=%d cookies=", tx->request_port_number);
    if (!tx->request_cookies) printf("~");
    else {
        printf("[");
        for (size_t i = 0, n = htp_table_size(tx->request_cookies); i < n; i++) {
            bstr *k = NULL; bstr *v = htp_table_get_index(tx->request_cookies, i, &k);
            if (i) putchar(',');
            hex_print_bstr(stdout, k); putchar('='); hex_print_bstr(stdout, v);
        }
        printf("]");
    }
    printf(" auth=%d:", (int) tx->request_auth_type); hex_print_bstr(stdout, tx->request_auth_username);
    putchar(':'); hex_print_bstr(stdout, tx->request_auth_password);
    printf(" params=[");
    for (size_t i = 0, n = htp_table_size(tx->request_params); i < n; i++) {
        htp_param_t *p = htp_table_get_index(tx->request_params, i, NULL);
        if (i) putchar(',');
        hex_print_bstr(stdout, p->name); putchar('='); hex_print_bstr(stdout, p->value); printf("@%d", (int) p->source);
    }
    printf("] mp=");
    if (tx->request_mpartp == NULL) printf("~");
    else {
        htp_multipart_t *m = htp_mpartp_get_multipart(tx->request_mpartp);
        printf("%llu:%d:%zu", (unsigned long long) m->flags, m->boundary_count, htp_list_size(m->parts));
    }
    printf(" rep=%u ign=%u exp=%d | ", (unsigned) tx->req_header_repetitions, (unsigned) tx->request_ignored_lines,
           tx->response_status_expected_number);
    printf("sline="); hex_print_bstr(stdout, tx->response_line);
    printf(" sproto="); hex_print_bstr(stdout, tx->response_protocol);
    printf(" spn=%d st=", tx->response_protocol_number); hex_print_bstr(stdout, tx->response_status);
    printf(" sn=%d msg=", tx->response_status_number); hex_print_bstr(stdout, tx->response_message);
    printf(" sh="); p_headers(tx->response_headers);
    printf(" stc=%d scl=%lld sml=%lld sel=%lld sct=", (int) tx->response_transfer_coding, (long long) tx->response_content_length,
           (long long) tx->response_message_len, (long long) tx->response_entity_len);
    hex_print_bstr(stdout, tx->response_content_type);
    printf(" ce=%d cep=%d s100=%d srep=%u sign=%u}", (int) tx->response_content_encoding, (int) tx->response_content_encoding_processing,
           (int) tx->seen_100continue, (unsigned) tx->res_header_repetitions, (unsigned) tx->response_ignored_lines);
}

static void p_uid_opt(hconn_t *h, htp_tx_t *tx) { if (tx) printf("%ld", tx_uid(h, tx)); else printf("-"); }

/* what a caller may do after any call: read the last error the parser recorded (it must never dangle) */
static void touch_last_error(htp_connp_t *cp) {
    htp_log_t *le = htp_connp_get_last_error(cp);
    if (le != NULL) { volatile int lv = (int) le->level; (void) lv; if (le->msg) { volatile size_t ml = strlen(le->msg); (void) ml; } }
}

int op_conn(int id, int n, char **t) {
    if (id < 0 || id >= MAXCONN || n < 1) return 0;
    hconn_t *h = &g_conns[id];
    if (!strcmp(t[0], "new") && n == 3) {
        hconn_free(h);
        int slot = -1;
        for (int i = 0; i < MAXCFG; i++) if (g_cfgs[i].spec && !strcmp(g_cfgs[i].spec, t[1])) slot = i;
        if (slot >= 0) {
            h->cfg = g_cfgs[slot].cfg; g_cfgs[slot].refs++;
            if (!parse_policy(h, t[2])) { hconn_free(h); return 0; }
            h->connp = htp_connp_create(h->cfg);
            printf("ok");
            return 1;
        }
        h->cfg = cfg_from_spec(t[1]);
        if (!h->cfg || !parse_policy(h, t[2])) { hconn_free(h); return 0; }
        for (int i = 0; i < MAXCFG; i++) if (!g_cfgs[i].spec) { g_cfgs[i].spec = strdup(t[1]); g_cfgs[i].cfg = h->cfg; g_cfgs[i].refs = 1; break; }
        htp_cfg_t *c = h->cfg;
        htp_config_register_request_start(c, cb_request_start);
        htp_config_register_request_line(c, cb_request_line);
        htp_config_register_request_uri_normalize(c, cb_request_uri_normalize);
        htp_config_register_request_header_data(c, cb_request_header_data);
        htp_config_register_request_headers(c, cb_request_headers);
        htp_config_register_request_body_data(c, cb_request_body_data);
        htp_config_register_request_file_data(c, cb_request_file_data);
        htp_config_register_request_trailer_data(c, cb_request_trailer_data);
        htp_config_register_request_trailer(c, cb_request_trailer);
        htp_config_register_request_complete(c, cb_request_complete);
        htp_config_register_response_start(c, cb_response_start);
        htp_config_register_response_line(c, cb_response_line);
        htp_config_register_response_header_data(c, cb_response_header_data);
        htp_config_register_response_headers(c, cb_response_headers);
        htp_config_register_response_body_data(c, cb_response_body_data);
        htp_config_register_response_trailer_data(c, cb_response_trailer_data);
        htp_config_register_response_trailer(c, cb_response_trailer);
        htp_config_register_response_complete(c, cb_response_complete);
        htp_config_register_transaction_complete(c, cb_transaction_complete);
        h->connp = htp_connp_create(c);
        printf("ok");
        return 1;
    }
    if (!h->connp) return 0;
    g_cur = h;
    h->evlen = 0;
    if (h->ev) h->ev[0] = 0;
    htp_connp_t *cp = h->connp;
    struct timeval tv = {1000000000, 0};
    if (!strcmp(t[0], "open") && n == 1) {
        htp_connp_open(cp, "127.0.0.1", 32768, "127.0.0.1", 80, &tv);
        printf("ok"); return 1;
    }
    if (!strcmp(t[0], "zon") && n == 1) { printf("ok"); return 1; }
    if ((!strcmp(t[0], "req") || !strcmp(t[0], "res")) && (n == 2 || n == 3)) {
        unsigned char *a; long al = hex_parse(t[1], &a); if (al < 0) return 0;
        /* exact-size heap copy so that ASan sees any read past the chunk */
        unsigned char *buf = malloc(al ? al : 1); memcpy(buf, a, al); free(a);
        int rc; size_t consumed;
        htp_verif_inflate_cb = zt_cb; g_zt_len = 0; if (g_zt) g_zt[0] = 0;
        if (t[0][2] == 'q') { g_live_req = buf; g_live_req_len = al; rc = htp_connp_req_data(cp, &tv, buf, al); consumed = htp_connp_req_data_consumed(cp); g_live_req = NULL; }
        else { g_live_res = buf; g_live_res_len = al; rc = htp_connp_res_data(cp, &tv, buf, al); consumed = htp_connp_res_data_consumed(cp); g_live_res = NULL; }
        touch_last_error(cp);
        printf("rc=%d consumed=%zu len=%ld ev=[%s]", rc, consumed, al, h->ev ? h->ev : "");
        if (n == 3) {
            /* replay run: the trace recorded earlier is supplied (the model runs against it); report whether zlib did the same again */
            const char *now = g_zt_len ? g_zt : "-";
            printf(" zleft=%s", strcmp(now, t[2]) ? "trace-differs" : "0");
        } else if (g_zt_len) printf(" zt=[%s]", g_zt);
        g_zt_len = 0;
        /* the library may keep pointers into the chunk only during the call */
        free(buf);
        return 1;
    }
    if ((!strcmp(t[0], "reqgap") || !strcmp(t[0], "resgap")) && n == 2) {
        size_t k = strtoul(t[1], NULL, 10);
        int rc; size_t consumed;
        if (t[0][2] == 'q') { rc = htp_connp_req_data(cp, &tv, NULL, k); consumed = htp_connp_req_data_consumed(cp); }
        else { rc = htp_connp_res_data(cp, &tv, NULL, k); consumed = htp_connp_res_data_consumed(cp); }
        printf("rc=%d consumed=%zu len=%zu ev=[%s]", rc, consumed, k, h->ev ? h->ev : "");
        return 1;
    }
    if (!strcmp(t[0], "close") && n == 1) {
        /* htp_connp_close returns nothing: report the two stream states it leaves behind */
        htp_connp_close(cp, &tv);
        printf("rc=%d,%d ev=[%s]", (int) cp->in_status, (int) cp->out_status, h->ev ? h->ev : "");
        return 1;
    }
    if (!strcmp(t[0], "reqclose") && n == 1) {
        htp_connp_req_close(cp, &tv);
        printf("rc=%d ev=[%s]", (int) cp->in_status, h->ev ? h->ev : "");
        return 1;
    }
    if ((!strcmp(t[0], "play") || !strcmp(t[0], "pump")) && n == 2) {
        /* play: the hand-over discipline of test/test.c (made total), see lean/Driver/Conn.lean playStep.
         * pump: the same feeding, then the documented hand-over protocol (docs/QUICK_START 2.2): keep alternating between the
         * directions that hold back data until nothing is held or a whole round consumes nothing (stall) */
        int pump = !strcmp(t[0], "pump");
        unsigned char *in_other = NULL, *out_other = NULL; size_t in_len = 0, out_len = 0;
        int first = 1;
        char *save = NULL;
        #define CALL(isreq, ptr, plen) do { \
            h->evlen = 0; if (h->ev) h->ev[0] = 0; \
            unsigned char *cb_ = malloc((plen) ? (plen) : 1); memcpy(cb_, (ptr), (plen)); \
            int rc_; size_t cons_; \
            if (isreq) { g_live_req = cb_; g_live_req_len = (plen); rc_ = htp_connp_req_data(cp, &tv, cb_, (plen)); cons_ = htp_connp_req_data_consumed(cp); g_live_req = NULL; } \
            else { g_live_res = cb_; g_live_res_len = (plen); rc_ = htp_connp_res_data(cp, &tv, cb_, (plen)); cons_ = htp_connp_res_data_consumed(cp); g_live_res = NULL; } \
            touch_last_error(cp); \
            printf("%s%s:rc=%d:consumed=%zu:len=%zu:ev=[%s]", first ? "" : " ;; ", (isreq) ? "req" : "res", rc_, cons_, (size_t) (plen), h->ev ? h->ev : ""); \
            first = 0; \
            unsigned char **oth_ = (isreq) ? &in_other : &out_other; size_t *ol_ = (isreq) ? &in_len : &out_len; \
            unsigned char *keep_ = NULL; size_t kl_ = 0; \
            if (rc_ == HTP_STREAM_DATA_OTHER) { kl_ = (plen) - cons_; keep_ = malloc(kl_ ? kl_ : 1); memcpy(keep_, cb_ + cons_, kl_); } \
            free(cb_); free(*oth_); *oth_ = keep_; *ol_ = kl_; \
        } while (0)
        for (char *it = strtok_r(t[1], ",", &save); it; it = strtok_r(NULL, ",", &save)) {
            if (it[0] == 'g' && (it[1] == '>' || it[1] == '<')) {
                size_t k = strtoul(it + 2, NULL, 10);
                h->evlen = 0; if (h->ev) h->ev[0] = 0;
                int rc_; size_t cons_;
                if (it[1] == '>') { rc_ = htp_connp_req_data(cp, &tv, NULL, k); cons_ = htp_connp_req_data_consumed(cp); }
                else { rc_ = htp_connp_res_data(cp, &tv, NULL, k); cons_ = htp_connp_res_data_consumed(cp); }
                printf("%s%s:rc=%d:consumed=%zu:len=%zu:ev=[%s]", first ? "" : " ;; ", it[1] == '>' ? "reqgap" : "resgap", rc_, cons_, k, h->ev ? h->ev : "");
                first = 0;
                continue;
            }
            unsigned char *a; long al = hex_parse(it + 1, &a);
            if (al < 0 || (it[0] != '>' && it[0] != '<')) { free(in_other); free(out_other); return 0; }
            if (it[0] == '>') {
                if (in_other) { in_other = realloc(in_other, in_len + al + 1); memcpy(in_other + in_len, a, al); in_len += al; }
                else CALL(1, a, (size_t) al);
            } else {
                if (out_other) { unsigned char *hd = out_other; size_t hl = out_len; out_other = NULL; out_len = 0; CALL(0, hd, hl); free(hd); }
                if (out_other) { out_other = realloc(out_other, out_len + al + 1); memcpy(out_other + out_len, a, al); out_len += al; }
                else CALL(0, a, (size_t) al);
                if (in_other) { unsigned char *hd = in_other; size_t hl = in_len; in_other = NULL; in_len = 0; CALL(1, hd, hl); free(hd); }
            }
            free(a);
        }
        if (pump) {
            int stall = 0;
            for (int round = 0; round < 16 && (in_other || out_other); round++) {
                long bi = in_other ? (long) in_len : -1, bo = out_other ? (long) out_len : -1;
                if (out_other) { unsigned char *hd = out_other; size_t hl = out_len; out_other = NULL; out_len = 0; CALL(0, hd, hl); free(hd); }
                if (in_other) { unsigned char *hd = in_other; size_t hl = in_len; in_other = NULL; in_len = 0; CALL(1, hd, hl); free(hd); }
                long ai = in_other ? (long) in_len : -1, ao = out_other ? (long) out_len : -1;
                if (ai == bi && ao == bo) { stall = 1; break; }
            }
            printf("%send:in=%ld:out=%ld:stall=%d", first ? "" : " ;; ", in_other ? (long) in_len : -1, out_other ? (long) out_len : -1, stall);
            free(in_other); free(out_other);
            return 1;
        }
        if (out_other) { unsigned char *hd = out_other; size_t hl = out_len; out_other = NULL; out_len = 0; CALL(0, hd, hl); free(hd); }
        if (in_other) { unsigned char *hd = in_other; size_t hl = in_len; in_other = NULL; in_len = 0; CALL(1, hd, hl); free(hd); }
        free(in_other); free(out_other);
        return 1;
    }
    if (!strcmp(t[0], "mem") && n == 1) {
        /* live heap bytes (harness-only observation for C10's steady-state clause; the model prints nothing comparable) */
        printf("mem=%zu", (size_t) __sanitizer_get_current_allocated_bytes());
        return 1;
    }
    if (!strcmp(t[0], "txfreed") && n == 1) { printf("%zu", htp_connp_tx_freed(cp)); return 1; }
    if (!strcmp(t[0], "dump") && n == 1) {
        htp_conn_t *conn = cp->conn;
        size_t ntx = htp_list_size(conn->transactions);
        printf("ntx=%zu in_tx=", ntx); p_uid_opt(h, cp->in_tx);
        printf(" out_tx="); p_uid_opt(h, cp->out_tx);
        printf(" in_state=%s out_state=%s in_status=%d out_status=%d conn_flags=%u in_ctr=%lld out_ctr=%lld in_buf=",
               htp_connp_in_state_as_string(cp), htp_connp_out_state_as_string(cp), (int) cp->in_status, (int) cp->out_status,
               (unsigned) conn->flags, (long long) conn->in_data_counter, (long long) conn->out_data_counter);
        p_opt_len_raw(cp->in_buf, cp->in_buf_size);
        printf(" out_buf="); p_opt_len_raw(cp->out_buf, cp->out_buf_size);
        printf(" in_hdr="); p_opt_len_bstr(cp->in_header);
        printf(" out_hdr="); p_opt_len_bstr(cp->out_header);
        printf(" next_idx=%lld dec=[", (long long) cp->out_next_tx_index);
        for (htp_decompressor_t *dc = cp->out_decompressor; dc; dc = dc->next)
            printf("%s%d:%d", dc == cp->out_decompressor ? "" : ",", ((htp_decompressor_gzip_t *) dc)->zlib_initialized, (int) dc->passthrough);
        printf("] :: ");
        for (size_t i = 0; i < ntx; i++) {
            htp_tx_t *tx = htp_list_get(conn->transactions, i);
            if (i) printf(" | ");
            if (tx) p_tx(h, tx); else printf("~");
        }
        return 1;
    }
    if (!strcmp(t[0], "destroy") && n == 1) { hconn_free(h); printf("ok"); return 1; }
    return 0;
}
