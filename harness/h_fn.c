/* fn <name> ... : the pure transforms, called on the real library */
#include "corr.h"
#include <arpa/inet.h>

htp_cfg_t *cfg_from_spec(const char *spec);

static void p_uri_raw(htp_uri_t *u) {
    printf("scheme="); hex_print_bstr(stdout, u->scheme);
    printf(" user="); hex_print_bstr(stdout, u->username);
    printf(" pass="); hex_print_bstr(stdout, u->password);
    printf(" host="); hex_print_bstr(stdout, u->hostname);
    printf(" port="); hex_print_bstr(stdout, u->port);
    printf(" path="); hex_print_bstr(stdout, u->path);
    printf(" query="); hex_print_bstr(stdout, u->query);
    printf(" frag="); hex_print_bstr(stdout, u->fragment);
}

static void p_uri_norm(htp_uri_t *u) {
    printf("scheme="); hex_print_bstr(stdout, u->scheme);
    printf(" user="); hex_print_bstr(stdout, u->username);
    printf(" pass="); hex_print_bstr(stdout, u->password);
    printf(" host="); hex_print_bstr(stdout, u->hostname);
    printf(" pn=%d", u->port_number);
    printf(" path="); hex_print_bstr(stdout, u->path);
    printf(" query="); hex_print_bstr(stdout, u->query);
    printf(" frag="); hex_print_bstr(stdout, u->fragment);
}

int op_fn(int n, char **t) {
    if (n < 2) return 0;
    const char *fn = t[0];
    if (n == 2) {
        unsigned char *a; long al = hex_parse(t[1], &a); if (al < 0) return 0;
        int done = 1;
        if (!strcmp(fn, "parse_uri")) {
            bstr *in = bstr_dup_mem(a, al);
            htp_uri_t *u = NULL;
            if (htp_parse_uri(in, &u) != HTP_OK) printf("error"); else p_uri_raw(u);
            htp_uri_free(u); bstr_free(in);
        } else if (!strcmp(fn, "hostport")) {
            bstr *in = bstr_dup_mem(a, al);
            bstr *host = NULL, *port = NULL; int pn = 0, inv = 0;
            if (htp_parse_hostport(in, &host, &port, &pn, &inv) != HTP_OK) printf("error");
            else { printf("host="); hex_print_bstr(stdout, host); printf(" port="); hex_print_bstr(stdout, port); printf(" pn=%d invalid=%d", pn, inv); }
            bstr_free(host); bstr_free(port); bstr_free(in);
        } else if (!strcmp(fn, "validate_hostname")) {
            bstr *in = bstr_dup_mem(a, al);
            printf("%d", htp_validate_hostname(in) ? 1 : 0);
            bstr_free(in);
        } else if (!strcmp(fn, "inet6")) {
            char *s = malloc(al + 1); memcpy(s, a, al); s[al] = 0;
            unsigned char dst[16];
            printf("%d", inet_pton(AF_INET6, s, dst) == 1 ? 1 : 0);
            free(s);
        } else if (!strcmp(fn, "normalize")) {
            bstr *in = bstr_dup_mem(a, al);
            htp_normalize_uri_path_inplace(in);
            hex_print_bstr(stdout, in); bstr_free(in);
        } else if (!strcmp(fn, "utf8_validate")) {
            htp_cfg_t *cfg = htp_config_create();
            htp_connp_t *connp = htp_connp_create(cfg);
            htp_tx_t *tx = htp_connp_tx_create(connp);
            bstr *in = bstr_dup_mem(a, al);
            htp_utf8_validate_path(tx, in);
            printf("%llu", (unsigned long long) tx->flags);
            bstr_free(in); htp_connp_destroy_all(connp); htp_config_destroy(cfg);
        } else done = 0;
        free(a); return done;
    }
    if (n == 3) {
        htp_cfg_t *cfg = cfg_from_spec(t[1]);
        if (!cfg) return 0;
        unsigned char *a; long al = hex_parse(t[2], &a);
        if (al < 0) { htp_config_destroy(cfg); return 0; }
        htp_connp_t *connp = htp_connp_create(cfg);
        htp_tx_t *tx = htp_connp_tx_create(connp);
        bstr *in = bstr_dup_mem(a, al);
        int done = 1;
        if (!strcmp(fn, "decode_path")) {
            htp_decode_path_inplace(tx, in);
            hex_print_bstr(stdout, in); printf(" %llu %d", (unsigned long long) tx->flags, tx->response_status_expected_number);
        } else if (!strcmp(fn, "urldecode_path") || !strcmp(fn, "urldecode")) {
            uint64_t flags = 0; int st = 0;
            htp_urldecode_inplace_ex(cfg, !strcmp(fn, "urldecode") ? HTP_DECODER_URLENCODED : HTP_DECODER_URL_PATH, in, &flags, &st);
            hex_print_bstr(stdout, in); printf(" %llu %d", (unsigned long long) flags, st);
        } else if (!strcmp(fn, "utf8_decode")) {
            htp_utf8_decode_path_inplace(cfg, tx, in);
            hex_print_bstr(stdout, in); printf(" %llu %d", (unsigned long long) tx->flags, tx->response_status_expected_number);
        } else if (!strcmp(fn, "pipeline")) {
            htp_uri_t raw; memset(&raw, 0, sizeof raw); raw.path = in; raw.port_number = -1;
            htp_uri_t *norm = htp_uri_alloc();
            htp_normalize_parsed_uri(tx, &raw, norm);
            hex_print_bstr(stdout, norm->path); printf(" %llu %d", (unsigned long long) tx->flags, tx->response_status_expected_number);
            htp_uri_free(norm);
        } else if (!strcmp(fn, "norm_uri")) {
            htp_uri_t *raw = NULL;
            htp_parse_uri(in, &raw);
            htp_uri_t *norm = htp_uri_alloc();
            htp_normalize_parsed_uri(tx, raw, norm);
            p_uri_norm(norm); printf(" flags=%llu status=%d", (unsigned long long) tx->flags, tx->response_status_expected_number);
            htp_uri_free(norm); htp_uri_free(raw);
        } else done = 0;
        bstr_free(in); free(a);
        htp_connp_destroy_all(connp); htp_config_destroy(cfg);
        return done;
    }
    return 0;
}
