/* mpart family: multipart/form-data parser (htp_multipart.c) driven chunk by chunk.
 *   mpart <hex content-type value> <chunks> [<hex byte placed right after every chunk buffer>]
 * Without the third token every chunk is handed to htp_mpartp_parse from its own exact-size heap buffer, so that ASan
 * sees any read of data[len] (finding F3, repaired in /repo).  With it the buffer is one byte longer and holds that byte:
 * the parse must not depend on it (the model ignores it), so a dependence on memory behind the chunk is a disagreement. */
#include "corr.h"
#include "htp_multipart_private.h"

/* parse "hex|hex|..." ("!" = none) into arrays; returns count or -1 */
static int parse_chunks(char *s, unsigned char ***bufs, size_t **lens) {
    if (!strcmp(s, "!")) { *bufs = NULL; *lens = NULL; return 0; }
    int n = 1;
    for (char *p = s; *p; p++) if (*p == '|') n++;
    *bufs = calloc(n, sizeof **bufs); *lens = calloc(n, sizeof **lens);
    int i = 0;
    char *save = NULL;
    char *dup = s;
    for (char *t = strtok_r(dup, "|", &save); t; t = strtok_r(NULL, "|", &save)) {
        long l = hex_parse(t, &(*bufs)[i]);
        if (l < 0) return -1;
        (*lens)[i] = (size_t) l; i++;
    }
    return i;
}

/* FILE_DATA hook events, recorded as text */
static htp_mpartp_t *cur_parser;
static char *ev_buf;
static size_t ev_len, ev_cap;

static void ev_put(const char *s, size_t n) {
    if (ev_len + n + 1 > ev_cap) {
        ev_cap = (ev_len + n + 1) * 2 + 64;
        ev_buf = realloc(ev_buf, ev_cap);
    }
    memcpy(ev_buf + ev_len, s, n);
    ev_len += n;
    ev_buf[ev_len] = 0;
}

static int file_data_cb(htp_file_data_t *d) {
    static const char *hx = "0123456789abcdef";
    long idx = -1;
    htp_multipart_t *m = htp_mpartp_get_multipart(cur_parser);
    for (size_t i = 0, n = htp_list_size(m->parts); i < n; i++) {
        htp_multipart_part_t *pt = htp_list_get(m->parts, i);
        if (pt->file != NULL && pt->file == d->file) idx = (long) i;
    }
    char tmp[32];
    int k = snprintf(tmp, sizeof tmp, "%s%ld:", ev_len ? " " : "", idx);
    ev_put(tmp, (size_t) k);
    if (d->data == NULL) ev_put("~", 1);
    else if (d->len == 0) ev_put("-", 1);
    else for (size_t i = 0; i < d->len; i++) { char c[2] = { hx[d->data[i] >> 4], hx[d->data[i] & 15] }; ev_put(c, 2); }
    return HTP_OK;
}

int op_mpart(int n, char **t) {
    if (n != 2 && n != 3) return 0;
    unsigned char *ct = NULL;
    long ctlen = hex_parse(t[0], &ct);
    if (ctlen < 0) return 0;
    unsigned char oob = 0;
    int exact = (n == 2);
    if (n == 3) {
        unsigned char *ob = NULL;
        long ol = hex_parse(t[2], &ob);
        if (ol != 1) { if (ol >= 0) free(ob); free(ct); return 0; }
        oob = ob[0];
        free(ob);
    }
    unsigned char **bufs; size_t *lens;
    int nc = parse_chunks(t[1], &bufs, &lens);
    if (nc < 0) { free(ct); return 0; }

    bstr *ctb = bstr_dup_mem(ct, (size_t) ctlen);
    bstr *boundary = NULL;
    uint64_t flags = 0;
    htp_status_t rc = htp_mpartp_find_boundary(ctb, &boundary, &flags);
    if (rc != HTP_OK || boundary == NULL) {
        printf("boundary=~ flags=%llu parts=[] events=[]", (unsigned long long) flags);
    } else {
        htp_cfg_t *cfg = htp_config_create();
        htp_config_register_request_file_data(cfg, file_data_cb);
        printf("boundary="); hex_print_bstr(stdout, boundary);
        htp_mpartp_t *parser = htp_mpartp_create(cfg, boundary, flags);   /* takes ownership of boundary */
        cur_parser = parser;
        ev_len = 0;
        if (ev_buf) ev_buf[0] = 0;
        for (int i = 0; i < nc; i++) {
            unsigned char *b = malloc(exact ? (lens[i] ? lens[i] : 1) : lens[i] + 1);
            memcpy(b, bufs[i], lens[i]);
            if (!exact) b[lens[i]] = oob;
            htp_mpartp_parse(parser, b, lens[i]);
            free(b);
        }
        htp_mpartp_finalize(parser);
        htp_multipart_t *m = htp_mpartp_get_multipart(parser);
        printf(" mb="); hex_print(stdout, (unsigned char *) m->boundary, m->boundary_len);
        printf(" flags=%llu bc=%d parts=[", (unsigned long long) m->flags, m->boundary_count);
        for (size_t i = 0, np = htp_list_size(m->parts); i < np; i++) {
            htp_multipart_part_t *pt = htp_list_get(m->parts, i);
            if (i) printf(" | ");
            printf("type=%d;len=%zu;name=", (int) pt->type, pt->len);
            hex_print_bstr(stdout, pt->name);
            printf(";file=");
            if (pt->file) hex_print_bstr(stdout, pt->file->filename); else putchar('~');
            if (pt->file) printf(";flen=%lld", (long long) pt->file->len); else printf(";flen=~");
            printf(";ct="); hex_print_bstr(stdout, pt->content_type);
            printf(";value="); hex_print_bstr(stdout, pt->value);
            printf(";headers=");
            for (size_t j = 0, nh = htp_table_size(pt->headers); j < nh; j++) {
                htp_header_t *h = htp_table_get_index(pt->headers, j, NULL);
                if (j) putchar(',');
                hex_print_bstr(stdout, h->name); putchar(':');
                hex_print_bstr(stdout, h->value);
                printf(":%llu", (unsigned long long) h->flags);
            }
        }
        printf("] events=[%s]", ev_len ? ev_buf : "");
        htp_mpartp_destroy(parser);
        cur_parser = NULL;
        htp_config_destroy(cfg);
    }
    bstr_free(ctb);
    free(ct);
    for (int i = 0; i < nc; i++) free(bufs[i]);
    free(bufs); free(lens);
    return 1;
}

void mpart_cleanup(void) {
    free(ev_buf);
    ev_buf = NULL; ev_len = ev_cap = 0;
}
