/* ring / table / bstr / num operation families (C17) */
#include "corr.h"

static htp_list_t *g_ring;
static htp_table_t *g_table;
/* keys handed to addk stay owned by the harness */
static bstr **g_refkeys; static size_t g_nref, g_capref;

static void keep_ref(bstr *k) {
    if (g_nref == g_capref) { g_capref = g_capref ? g_capref * 2 : 16; g_refkeys = realloc(g_refkeys, g_capref * sizeof *g_refkeys); }
    g_refkeys[g_nref++] = k;
}
static void free_refs(void) { for (size_t i = 0; i < g_nref; i++) bstr_free(g_refkeys[i]); g_nref = 0; }

static void pv(void *p) { if (p == NULL) printf("null"); else printf("%lu", (unsigned long) (uintptr_t) p); }

void prim_cleanup_bb(void);
void prim_cleanup(void) {
    prim_cleanup_bb();
    if (g_ring) { htp_list_destroy(g_ring); g_ring = NULL; }
    if (g_table) { htp_table_destroy(g_table); g_table = NULL; }
    free_refs();
    free(g_refkeys); g_refkeys = NULL; g_capref = 0;
}

int op_ring(int n, char **t) {
    if (n < 1) return 0;
    if (!strcmp(t[0], "new") && n == 2) {
        size_t k = strtoul(t[1], NULL, 10);
        if (k == 0) return 0;
        if (g_ring) htp_list_destroy(g_ring);
        g_ring = htp_list_create(k);
        printf("ok"); return 1;
    }
    if (!g_ring) g_ring = htp_list_create(1);
    if (!strcmp(t[0], "push") && n == 2) {
        int rc = htp_list_push(g_ring, (void *) (uintptr_t) strtoul(t[1], NULL, 10));
        printf(rc == HTP_OK ? "ok" : "error"); return 1;
    }
    if (!strcmp(t[0], "pop") && n == 1) { pv(htp_list_pop(g_ring)); return 1; }
    if (!strcmp(t[0], "shift") && n == 1) { pv(htp_list_shift(g_ring)); return 1; }
    if (!strcmp(t[0], "get") && n == 2) { pv(htp_list_get(g_ring, strtoul(t[1], NULL, 10))); return 1; }
    if (!strcmp(t[0], "replace") && n == 3) {
        int rc = htp_list_replace(g_ring, strtoul(t[1], NULL, 10), (void *) (uintptr_t) strtoul(t[2], NULL, 10));
        printf(rc == HTP_OK ? "ok" : rc == HTP_DECLINED ? "declined" : "error"); return 1;
    }
    if (!strcmp(t[0], "clear") && n == 1) { htp_list_clear(g_ring); printf("ok"); return 1; }
    if (!strcmp(t[0], "size") && n == 1) { printf("%zu", htp_list_size(g_ring)); return 1; }
    if (!strcmp(t[0], "dump") && n == 1) {
        size_t sz = htp_list_size(g_ring);
        printf("size=%zu [", sz);
        for (size_t i = 0; i < sz; i++) { if (i) putchar(' '); pv(htp_list_get(g_ring, i)); }
        printf("]"); return 1;
    }
    return 0;
}

int op_table(int n, char **t) {
    if (n < 1) return 0;
    if (!strcmp(t[0], "new") && n == 2) {
        size_t k = strtoul(t[1], NULL, 10);
        if (k == 0) return 0;
        if (g_table) htp_table_destroy(g_table);
        free_refs();
        g_table = htp_table_create(k);
        printf("ok"); return 1;
    }
    if (!g_table) g_table = htp_table_create(1);
    if ((!strcmp(t[0], "add") || !strcmp(t[0], "addn") || !strcmp(t[0], "addk")) && n == 3) {
        unsigned char *kb; long kl = hex_parse(t[1], &kb);
        if (kl < 0) return 0;
        bstr *key = bstr_dup_mem(kb, kl); free(kb);
        void *v = (void *) (uintptr_t) strtoul(t[2], NULL, 10);
        int rc;
        if (!strcmp(t[0], "add")) { rc = htp_table_add(g_table, key, v); bstr_free(key); }
        else if (!strcmp(t[0], "addn")) { rc = htp_table_addn(g_table, key, v); if (rc != HTP_OK) bstr_free(key); }
        else { rc = htp_table_addk(g_table, key, v); keep_ref(key); }
        printf(rc == HTP_OK ? "ok" : "error"); return 1;
    }
    if ((!strcmp(t[0], "get") || !strcmp(t[0], "getmem") || !strcmp(t[0], "getc")) && n == 2) {
        unsigned char *kb; long kl = hex_parse(t[1], &kb);
        if (kl < 0) return 0;
        if (!strcmp(t[0], "get")) { bstr *key = bstr_dup_mem(kb, kl); pv(htp_table_get(g_table, key)); bstr_free(key); }
        else if (!strcmp(t[0], "getmem")) pv(htp_table_get_mem(g_table, kb, kl));
        else {
            if (memchr(kb, 0, kl)) { free(kb); return 0; }
            char *c = malloc(kl + 1); memcpy(c, kb, kl); c[kl] = 0;
            pv(htp_table_get_c(g_table, c)); free(c);
        }
        free(kb); return 1;
    }
    if (!strcmp(t[0], "getindex") && n == 2) {
        bstr *key = NULL;
        void *v = htp_table_get_index(g_table, strtoul(t[1], NULL, 10), &key);
        hex_print_bstr(stdout, key); putchar(' '); pv(v); return 1;
    }
    if (!strcmp(t[0], "size") && n == 1) { printf("%zu", htp_table_size(g_table)); return 1; }
    if (!strcmp(t[0], "cost") && n == 1) {
        /* key comparisons made by lookups since the last `cost` (hook counter in htp_table.c under LIBHTP_VERIF) */
        extern unsigned long htp_verif_table_cmp;
        printf("%lu", htp_verif_table_cmp); htp_verif_table_cmp = 0; return 1;
    }
    if (!strcmp(t[0], "clear") && n == 1) { htp_table_clear(g_table); free_refs(); printf("ok"); return 1; }
    if (!strcmp(t[0], "dump") && n == 1) {
        size_t sz = htp_table_size(g_table);
        printf("size=%zu [", sz);
        for (size_t i = 0; i < sz; i++) {
            bstr *key = NULL; void *v = htp_table_get_index(g_table, i, &key);
            if (i) putchar(' ');
            hex_print_bstr(stdout, key); putchar('='); pv(v);
        }
        printf("]"); return 1;
    }
    return 0;
}

/* the thin wrappers of bstr.c (bstr/bstr, bstr/C-string and bstr_util_* variants): each is called as such, the model states what it
 * must equal in terms of the *_mem function it delegates to. C-string arguments are the bytes of <b> up to the first NUL. */
static int op_bstr_wrapper(int n, char **t) {
    const char *fn = t[1];
    if (n == 5 && !strcmp(fn, "dup_ex")) {
        unsigned char *a; long al = hex_parse(t[2], &a); if (al < 0) return 0;
        size_t off = strtoul(t[3], NULL, 10), len = strtoul(t[4], NULL, 10);
        if (off + len > (size_t) al) { free(a); return 0; }
        bstr *x = bstr_dup_mem(a, al), *r = bstr_dup_ex(x, off, len);
        hex_print_bstr(stdout, r); bstr_free(r); bstr_free(x); free(a); return 1;
    }
    if (n == 3) {
        unsigned char *a; long al = hex_parse(t[2], &a); if (al < 0) return 0;
        char *ac = malloc(al + 1); memcpy(ac, a, al); ac[al] = 0;
        bstr *x = bstr_dup_mem(a, al);
        int done = 1;
        if (!strcmp(fn, "dup")) { bstr *r = bstr_dup(x); hex_print_bstr(stdout, r); printf(" %zu %zu", bstr_len(r), bstr_size(r)); bstr_free(r); }
        else if (!strcmp(fn, "dup_c")) { bstr *r = bstr_dup_c(ac); hex_print_bstr(stdout, r); bstr_free(r); }
        else if (!strcmp(fn, "dup_lower")) { bstr *r = bstr_dup_lower(x); hex_print_bstr(stdout, r); bstr_free(r); }
        else if (!strcmp(fn, "memdup_to_c")) { char *r = bstr_util_memdup_to_c(a, al); hex_print(stdout, (unsigned char *) r, strlen(r)); free(r); }
        else if (!strcmp(fn, "strdup_to_c")) { char *r = bstr_util_strdup_to_c(x); hex_print(stdout, (unsigned char *) r, strlen(r)); free(r); }
        else if (!strcmp(fn, "wrap_c")) { bstr *r = bstr_wrap_c(ac); hex_print_bstr(stdout, r); printf(" %zu", bstr_len(r)); bstr_free(r); }
        else if (!strcmp(fn, "wrap_mem")) { bstr *r = bstr_wrap_mem(a, al); hex_print_bstr(stdout, r); printf(" %zu", bstr_len(r));
                                            bstr *e = bstr_expand(r, al + 8); printf(" %s", e ? "expanded" : "refused"); bstr_free(e ? e : r); }
        else done = 0;
        bstr_free(x); free(ac); free(a); return done;
    }
    if (n != 4) return 0;
    unsigned char *a, *b; long al = hex_parse(t[2], &a), bl = hex_parse(t[3], &b);
    if (al < 0 || bl < 0) return 0;
    char *bc = malloc(bl + 1); memcpy(bc, b, bl); bc[bl] = 0;
    bstr *x = bstr_dup_mem(a, al), *y = bstr_dup_mem(b, bl);
    int done = 1;
    if (!strcmp(fn, "cmp")) printf("%d", bstr_cmp(x, y));
    else if (!strcmp(fn, "cmp_nocase")) printf("%d", bstr_cmp_nocase(x, y));
    else if (!strcmp(fn, "cmp_c")) printf("%d", bstr_cmp_c(x, bc));
    else if (!strcmp(fn, "cmp_c_nocase")) printf("%d", bstr_cmp_c_nocase(x, bc));
    else if (!strcmp(fn, "cmp_c_nocasenorzero")) printf("%d", bstr_cmp_c_nocasenorzero(x, bc));
    else if (!strcmp(fn, "util_cmp_mem")) printf("%d", bstr_util_cmp_mem(a, al, b, bl));
    else if (!strcmp(fn, "util_cmp_mem_nocase")) printf("%d", bstr_util_cmp_mem_nocase(a, al, b, bl));
    else if (!strcmp(fn, "begins_with")) printf("%d", bstr_begins_with(x, y));
    else if (!strcmp(fn, "begins_with_nocase")) printf("%d", bstr_begins_with_nocase(x, y));
    else if (!strcmp(fn, "begins_with_c")) printf("%d", bstr_begins_with_c(x, bc));
    else if (!strcmp(fn, "begins_with_c_nocase")) printf("%d", bstr_begins_with_c_nocase(x, bc));
    else if (!strcmp(fn, "index_of")) printf("%d", bstr_index_of(x, y));
    else if (!strcmp(fn, "index_of_nocase")) printf("%d", bstr_index_of_nocase(x, y));
    else if (!strcmp(fn, "index_of_c")) printf("%d", bstr_index_of_c(x, bc));
    else if (!strcmp(fn, "index_of_c_nocase")) printf("%d", bstr_index_of_c_nocase(x, bc));
    else if (!strcmp(fn, "index_of_c_nocasenorzero")) printf("%d", bstr_index_of_c_nocasenorzero(x, bc));
    else if (!strcmp(fn, "util_mem_index_of_c")) printf("%d", bstr_util_mem_index_of_c(a, al, bc));
    else if (!strcmp(fn, "util_mem_index_of_c_nocase")) printf("%d", bstr_util_mem_index_of_c_nocase(a, al, bc));
    else if (!strcmp(fn, "util_mem_index_of_mem")) printf("%d", bstr_util_mem_index_of_mem(a, al, b, bl));
    else if (!strcmp(fn, "util_mem_index_of_mem_nocase")) printf("%d", bstr_util_mem_index_of_mem_nocase(a, al, b, bl));
    else if (!strcmp(fn, "add")) { bstr *r = bstr_add(x, y); if (r) { x = r; hex_print_bstr(stdout, x); } else printf("error"); }
    else if (!strcmp(fn, "add_c")) { bstr *r = bstr_add_c(x, bc); if (r) { x = r; hex_print_bstr(stdout, x); } else printf("error"); }
    else if (!strcmp(fn, "add_noex")) { bstr *d = bstr_alloc(al + 3); bstr_add_mem_noex(d, a, al); bstr_add_noex(d, y); hex_print_bstr(stdout, d); bstr_free(d); }
    else if (!strcmp(fn, "add_c_noex")) { bstr *d = bstr_alloc(al + 3); bstr_add_mem_noex(d, a, al); bstr_add_c_noex(d, bc); hex_print_bstr(stdout, d); bstr_free(d); }
    else done = 0;
    bstr_free(x); bstr_free(y); free(bc); free(a); free(b); return done;
}

/* the string builder (bstr_builder.c): bstr bb new | append <hex> | append_c <hex> | appendn <hex> | size | clear | tostr */
static bstr_builder_t *g_bb;
static int op_bb(int n, char **t) {
    const char *fn = t[1];
    if (!strcmp(fn, "new") && n == 2) { if (g_bb) bstr_builder_destroy(g_bb); g_bb = bstr_builder_create(); printf(g_bb ? "ok" : "error"); return 1; }
    if (!g_bb) return 0;
    if ((!strcmp(fn, "append") || !strcmp(fn, "append_c") || !strcmp(fn, "appendn")) && n == 3) {
        unsigned char *a; long al = hex_parse(t[2], &a); if (al < 0) return 0;
        htp_status_t rc;
        if (!strcmp(fn, "append")) rc = bstr_builder_append_mem(g_bb, a, al);
        else if (!strcmp(fn, "append_c")) { char *c = malloc(al + 1); memcpy(c, a, al); c[al] = 0; rc = bstr_builder_append_c(g_bb, c); free(c); }
        else { bstr *b = bstr_dup_mem(a, al); rc = bstr_builder_appendn(g_bb, b); if (rc != HTP_OK) bstr_free(b); }
        printf("%d %zu", (int) rc, bstr_builder_size(g_bb)); free(a); return 1;
    }
    if (!strcmp(fn, "size") && n == 2) { printf("%zu", bstr_builder_size(g_bb)); return 1; }
    if (!strcmp(fn, "clear") && n == 2) { bstr_builder_clear(g_bb); printf("%zu", bstr_builder_size(g_bb)); return 1; }
    if (!strcmp(fn, "tostr") && n == 2) { bstr *r = bstr_builder_to_str(g_bb); hex_print_bstr(stdout, r); if (r) printf(" %zu", bstr_len(r)); bstr_free(r); return 1; }
    return 0;
}

int op_bstr(int n, char **t) {
    if (n < 2) return 0;
    const char *fn = t[0];
    if (!strcmp(fn, "w")) return op_bstr_wrapper(n, t);
    if (!strcmp(fn, "bb")) return op_bb(n, t);
    if (!strcmp(fn, "add_noex") && n == 4) {
        size_t cap = strtoul(t[1], NULL, 10);
        unsigned char *a, *b; long al = hex_parse(t[2], &a), bl = hex_parse(t[3], &b);
        if (al < 0 || bl < 0 || cap < (size_t) al) return 0;
        bstr *d = bstr_alloc(cap); bstr_add_mem_noex(d, a, al);
        bstr_add_mem_noex(d, b, bl);
        hex_print_bstr(stdout, d); bstr_free(d); free(a); free(b); return 1;
    }
    if ((!strcmp(fn, "char_at") || !strcmp(fn, "char_at_end") || !strcmp(fn, "chr") || !strcmp(fn, "rchr")) && n == 3) {
        unsigned char *a; long al = hex_parse(t[1], &a); if (al < 0) return 0;
        unsigned long p = strtoul(t[2], NULL, 10);
        bstr *x = bstr_dup_mem(a, al);
        int r;
        if (!strcmp(fn, "char_at")) r = bstr_char_at(x, p);
        else if (!strcmp(fn, "char_at_end")) r = bstr_char_at_end(x, p);
        else if (p >= 256) { bstr_free(x); free(a); return 0; }
        else if (!strcmp(fn, "chr")) r = bstr_chr(x, (int) p);
        else r = bstr_rchr(x, (int) p);
        printf("%d", r); bstr_free(x); free(a); return 1;
    }
    if (n == 3) {
        unsigned char *a, *b; long al = hex_parse(t[1], &a), bl = hex_parse(t[2], &b);
        if (al < 0 || bl < 0) return 0;
        bstr *x = bstr_dup_mem(a, al);
        int done = 1;
        if (!strcmp(fn, "cmp")) printf("%d", bstr_cmp_mem(x, b, bl));
        else if (!strcmp(fn, "cmp_nocase")) printf("%d", bstr_cmp_mem_nocase(x, b, bl));
        else if (!strcmp(fn, "cmp_nocasenorzero")) printf("%d", bstr_util_cmp_mem_nocasenorzero(a, al, b, bl));
        else if (!strcmp(fn, "begins_with")) printf("%d", bstr_begins_with_mem(x, b, bl));
        else if (!strcmp(fn, "begins_with_nocase")) printf("%d", bstr_begins_with_mem_nocase(x, b, bl));
        else if (!strcmp(fn, "index_of")) printf("%d", bstr_index_of_mem(x, b, bl));
        else if (!strcmp(fn, "index_of_nocase")) printf("%d", bstr_index_of_mem_nocase(x, b, bl));
        else if (!strcmp(fn, "index_of_nocasenorzero")) printf("%d", bstr_util_mem_index_of_mem_nocasenorzero(a, al, b, bl));
        else if (!strcmp(fn, "add")) { bstr *r = bstr_add_mem(x, b, bl); if (r) { x = r; hex_print_bstr(stdout, x); } else printf("error"); }
        else done = 0;
        bstr_free(x); free(a); free(b); return done;
    }
    if (n == 2) {
        unsigned char *a; long al = hex_parse(t[1], &a); if (al < 0) return 0;
        int done = 1;
        if (!strcmp(fn, "to_lowercase")) { bstr *x = bstr_dup_mem(a, al); bstr_to_lowercase(x); hex_print_bstr(stdout, x); bstr_free(x); }
        else if (!strcmp(fn, "trim")) { unsigned char *d = a; size_t l = al; bstr_util_mem_trim(&d, &l); hex_print(stdout, d, l); }
        else if (!strcmp(fn, "chop")) { bstr *x = bstr_dup_mem(a, al); bstr_chop(x); hex_print_bstr(stdout, x); bstr_free(x); }
        else done = 0;
        free(a); return done;
    }
    return 0;
}

int op_num(int n, char **t) {
    if (n < 2) return 0;
    if (!strcmp(t[0], "pint") && n == 3) {
        unsigned char *a; long al = hex_parse(t[2], &a); if (al < 0) return 0;
        size_t last = 0;
        int64_t r = bstr_util_mem_to_pint(a, al, (int) strtoul(t[1], NULL, 10), &last);
        printf("%lld %zu", (long long) r, last); free(a); return 1;
    }
    if (!strcmp(t[0], "ppiw") && n == 3) {
        unsigned char *a; long al = hex_parse(t[2], &a); if (al < 0) return 0;
        printf("%lld", (long long) htp_parse_positive_integer_whitespace(a, al, (int) strtoul(t[1], NULL, 10))); free(a); return 1;
    }
    if (!strcmp(t[0], "cl") && n == 2) {
        unsigned char *a; long al = hex_parse(t[1], &a); if (al < 0) return 0;
        bstr *x = bstr_dup_mem(a, al);
        printf("%lld", (long long) htp_parse_content_length(x, NULL)); bstr_free(x); free(a); return 1;
    }
    if (!strcmp(t[0], "chunked") && n == 2) {
        unsigned char *a; long al = hex_parse(t[1], &a); if (al < 0) return 0;
        int ext = 0;
        int64_t r = htp_parse_chunked_length(a, al, &ext);
        printf("%lld %d", (long long) r, ext); free(a); return 1;
    }
    if (!strcmp(t[0], "status") && n == 2) {
        unsigned char *a; long al = hex_parse(t[1], &a); if (al < 0) return 0;
        bstr *x = bstr_dup_mem(a, al);
        printf("%d", htp_parse_status(x)); bstr_free(x); free(a); return 1;
    }
    if (!strcmp(t[0], "port") && n == 2) {
        /* htp_parse_port is static: reach it through htp_parse_hostport with a fixed host "h:" prefix
           is not byte-exact (trimming); the `fn hostport` family covers it. Here: the same arithmetic
           through the public entry used by URI normalisation. */
        unsigned char *a; long al = hex_parse(t[1], &a); if (al < 0) return 0;
        int port = -1, invalid = 0;
        if (al == 0) { port = -1; invalid = 1; }
        else {
            int64_t p = htp_parse_positive_integer_whitespace(a, al, 10);
            if (p < 0) { port = -1; invalid = 1; } else if (p > 0 && p < 65536) port = (int) p; else { port = -1; invalid = 1; }
        }
        printf("%d %d", port, invalid); free(a); return 1;
    }
    return 0;
}

void prim_cleanup_bb(void) { if (g_bb) { bstr_builder_destroy(g_bb); g_bb = NULL; } }
