/* urlenc / mpart families */
#include "corr.h"

/* parse "hex|hex|..." ("!" = none) into arrays; returns count or -1 */
static int parse_chunks(char *s, unsigned char ***bufs, size_t **lens) {
    if (!strcmp(s, "!")) { *bufs = NULL; *lens = NULL; return 0; }
    int n = 1;
    for (char *p = s; *p; p++) if (*p == '|') n++;
    *bufs = calloc(n, sizeof **bufs); *lens = calloc(n, sizeof **lens);
    int i = 0;
    char *save = NULL;
    char *dup = s;
    for (char *t = strtok_r(dup, "|", &save); t; t = strtok_r(NULL, "|", &save)) {
        long l = hex_parse(t, &(*bufs)[i]);
        if (l < 0) return -1;
        (*lens)[i] = (size_t) l; i++;
    }
    return i;
}

int op_urlenc(int n, char **t) {
    if (n != 2) return 0;
    htp_cfg_t *cfg = cfg_from_spec(t[0]);
    if (!cfg) return 0;
    unsigned char **bufs; size_t *lens;
    int nc = parse_chunks(t[1], &bufs, &lens);
    if (nc < 0) { htp_config_destroy(cfg); return 0; }
    htp_connp_t *connp = htp_connp_create(cfg);
    htp_tx_t *tx = htp_connp_tx_create(connp);
    htp_urlenp_t *u = htp_urlenp_create(tx);
    for (int i = 0; i < nc; i++) htp_urlenp_parse_partial(u, bufs[i], lens[i]);
    htp_urlenp_finalize(u);
    size_t np = htp_table_size(u->params);
    printf("n=%zu [", np);
    for (size_t i = 0; i < np; i++) {
        bstr *k = NULL; bstr *v = htp_table_get_index(u->params, i, &k);
        if (i) putchar(',');
        hex_print_bstr(stdout, k); putchar('='); hex_print_bstr(stdout, v);
    }
    printf("] flags=%llu status=%d", (unsigned long long) tx->flags, tx->response_status_expected_number);
    htp_urlenp_destroy(u);
    htp_connp_destroy_all(connp); htp_config_destroy(cfg);
    for (int i = 0; i < nc; i++) free(bufs[i]);
    free(bufs); free(lens);
    return 1;
}
