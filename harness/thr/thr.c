/* C19 search harness (not a proof): K connection parsers created from ONE configuration, driven at the same time from K threads,
 * built with -fsanitize=thread. Each stream is first parsed alone on the main thread; every threaded parse must produce the same
 * record (callback sequence + the fields of every transaction). A data race is reported by the sanitizer on stderr.
 *
 * usage: thr <cfgspec> <streams-file> <iterations> <seed>
 *   streams-file: one line per stream: <request hex | -> <response hex | ->
 * output: one line per stream "stream <k> runs <n> differ <m> [first: <solo record> || <threaded record>]", then "done". */
#include <pthread.h>
#include "../corr.h"

#define MAXS 16
#define RECMAX 16384

typedef struct { char buf[RECMAX]; size_t n; } rec_t;

static void radd(rec_t *r, const char *s, size_t len) {
    if (r->n + len + 1 >= RECMAX) return;
    memcpy(r->buf + r->n, s, len); r->n += len; r->buf[r->n] = 0;
}
static void rstr(rec_t *r, const char *s) { radd(r, s, strlen(s)); }
static void rb(rec_t *r, const char *tag, const bstr *b) {
    char t[64];
    rstr(r, tag);
    if (b == NULL) { rstr(r, "=NULL;"); return; }
    rstr(r, "=");
    for (size_t i = 0; i < bstr_len(b) && i < 200; i++) { snprintf(t, sizeof t, "%02x", bstr_ptr(b)[i]); rstr(r, t); }
    rstr(r, ";");
}
static void rnum(rec_t *r, const char *tag, long long v) { char t[96]; snprintf(t, sizeof t, "%s=%lld;", tag, v); rstr(r, t); }

static rec_t *rec_of(htp_tx_t *tx) { return (rec_t *) htp_connp_get_user_data(tx->connp); }

static void rtable(rec_t *r, const char *tag, const htp_table_t *t, int params) {
    if (t == NULL) { rstr(r, tag); rstr(r, "=NULL;"); return; }
    rnum(r, tag, (long long) htp_table_size(t));
    for (size_t i = 0; i < htp_table_size(t) && i < 40; i++) {
        bstr *k = NULL;
        void *v = htp_table_get_index(t, i, &k);
        rb(r, "k", k);
        if (params == 0) { htp_header_t *h = v; rb(r, "n", h->name); rb(r, "v", h->value); rnum(r, "f", (long long) h->flags); }
        else if (params == 1) { htp_param_t *p = v; rb(r, "n", p->name); rb(r, "v", p->value); rnum(r, "s", p->source); }
        else rb(r, "v", (bstr *) v);
    }
}

#define CB(name) static int cb_##name(htp_tx_t *tx) { rstr(rec_of(tx), #name ";"); return HTP_OK; }
CB(request_start) CB(request_line) CB(request_headers) CB(request_trailer) CB(response_start) CB(response_line) CB(response_headers)
CB(response_trailer)

static int cb_request_complete(htp_tx_t *tx) {
    rec_t *r = rec_of(tx);
    rstr(r, "request_complete{");
    rb(r, "m", tx->request_method); rb(r, "u", tx->request_uri); rb(r, "p", tx->request_protocol);
    if (tx->parsed_uri) {
        rb(r, "path", tx->parsed_uri->path); rb(r, "q", tx->parsed_uri->query); rb(r, "host", tx->parsed_uri->hostname);
        rb(r, "user", tx->parsed_uri->username); rb(r, "frag", tx->parsed_uri->fragment);
    }
    rb(r, "hn", tx->request_hostname); rnum(r, "port", tx->request_port_number);
    rnum(r, "at", tx->request_auth_type); rb(r, "au", tx->request_auth_username); rb(r, "ap", tx->request_auth_password);
    rtable(r, "rh", tx->request_headers, 0); rtable(r, "ck", tx->request_cookies, 2); rtable(r, "pa", tx->request_params, 1);
    rnum(r, "el", tx->request_entity_len); rnum(r, "ml", tx->request_message_len); rnum(r, "fl", (long long) tx->flags);
    rstr(r, "}");
    return HTP_OK;
}
static int cb_response_complete(htp_tx_t *tx) {
    rec_t *r = rec_of(tx);
    rstr(r, "response_complete{");
    rb(r, "sp", tx->response_protocol); rnum(r, "sn", tx->response_status_number); rb(r, "msg", tx->response_message);
    rtable(r, "sh", tx->response_headers, 0);
    rnum(r, "el", tx->response_entity_len); rnum(r, "ml", tx->response_message_len); rnum(r, "fl", (long long) tx->flags);
    rstr(r, "}");
    return HTP_OK;
}
static int cb_transaction_complete(htp_tx_t *tx) { rstr(rec_of(tx), "transaction_complete;"); return HTP_OK; }
static int cb_req_body(htp_tx_data_t *d) { rnum(rec_of(d->tx), "reqbody", (long long) d->len); return HTP_OK; }
static int cb_res_body(htp_tx_data_t *d) { rnum(rec_of(d->tx), "resbody", (long long) d->len); return HTP_OK; }
static int cb_log(htp_log_t *l) { rec_t *r = (rec_t *) htp_connp_get_user_data(l->connp); rstr(r, "log:"); rstr(r, l->msg ? l->msg : ""); rstr(r, ";"); return HTP_OK; }

typedef struct { unsigned char *req, *res; size_t reqn, resn; } stream_t;
static stream_t S[MAXS];
static int NS;
static htp_cfg_t *CFG;
static rec_t SOLO[MAXS];
static int ITER;
static unsigned SEED;
static long DIFF[MAXS];
static rec_t FIRSTDIFF[MAXS];
static pthread_barrier_t BAR;

static unsigned lcg(unsigned *s) { *s = *s * 1103515245u + 12345u; return (*s >> 16) & 0x7fff; }

static void feed(htp_connp_t *cp, int dir, const unsigned char *p, size_t n, unsigned *rs) {
    size_t off = 0;
    struct timeval tv = {0, 0};
    while (off < n) {
        size_t take = 1 + lcg(rs) % 97;
        if (take > n - off) take = n - off;
        int rc = dir == 0 ? htp_connp_req_data(cp, &tv, p + off, take) : htp_connp_res_data(cp, &tv, p + off, take);
        if (rc != HTP_STREAM_DATA) {
            /* DATA_OTHER, ERROR, STOP, TUNNEL: stop feeding this side (the record says where) */
            rnum((rec_t *) htp_connp_get_user_data(cp), dir == 0 ? "reqrc" : "resrc", rc);
            return;
        }
        off += take;
    }
}

static void parse_one(int k, rec_t *r, unsigned chunk_seed) {
    r->n = 0; r->buf[0] = 0;
    htp_connp_t *cp = htp_connp_create(CFG);
    if (!cp) { rstr(r, "connp-create-failed"); return; }
    htp_connp_set_user_data(cp, r);
    struct timeval tv = {0, 0};
    htp_connp_open(cp, "10.0.0.1", 1000 + k, "10.0.0.2", 80, &tv);
    unsigned rs = chunk_seed;   /* the same chunking for the solo and the threaded parse of a stream */
    feed(cp, 0, S[k].req, S[k].reqn, &rs);
    feed(cp, 1, S[k].res, S[k].resn, &rs);
    htp_connp_close(cp, &tv);
    htp_connp_destroy_all(cp);
}

static void *worker(void *arg) {
    int k = (int) (long) arg;
    rec_t *r = malloc(sizeof *r);
    pthread_barrier_wait(&BAR);
    for (int i = 0; i < ITER; i++) {
        parse_one(k, r, SEED + 7919u * (unsigned) k);
        if (r->n != SOLO[k].n || memcmp(r->buf, SOLO[k].buf, r->n) != 0) {
            if (DIFF[k]++ == 0) FIRSTDIFF[k] = *r;
        }
    }
    free(r);
    return NULL;
}

static unsigned char *unhex(const char *h, size_t *n) {
    if (!strcmp(h, "-")) { *n = 0; return (unsigned char *) strdup(""); }
    size_t l = strlen(h) / 2;
    unsigned char *o = malloc(l + 1);
    for (size_t i = 0; i < l; i++) { unsigned v; sscanf(h + 2 * i, "%2x", &v); o[i] = (unsigned char) v; }
    *n = l;
    return o;
}

static htp_cfg_t *make_cfg(const char *spec) {
    htp_cfg_t *c = cfg_from_spec(spec);
    if (!c) return NULL;
    htp_config_register_request_start(c, cb_request_start); htp_config_register_request_line(c, cb_request_line);
    htp_config_register_request_headers(c, cb_request_headers); htp_config_register_request_trailer(c, cb_request_trailer);
    htp_config_register_request_body_data(c, cb_req_body); htp_config_register_request_complete(c, cb_request_complete);
    htp_config_register_response_start(c, cb_response_start); htp_config_register_response_line(c, cb_response_line);
    htp_config_register_response_headers(c, cb_response_headers); htp_config_register_response_trailer(c, cb_response_trailer);
    htp_config_register_response_body_data(c, cb_res_body); htp_config_register_response_complete(c, cb_response_complete);
    htp_config_register_transaction_complete(c, cb_transaction_complete); htp_config_register_log(c, cb_log);
    return c;
}

int main(int argc, char **argv) {
    if (argc < 5) { fprintf(stderr, "usage: thr cfgspec streams iterations seed\n"); return 2; }
    CFG = make_cfg(argv[1]);
    if (!CFG) { printf("bad-cfg\n"); return 2; }
    ITER = atoi(argv[3]); SEED = (unsigned) strtoul(argv[4], NULL, 10);
    FILE *f = fopen(argv[2], "r");
    if (!f) { printf("no-streams-file\n"); return 2; }
    static char line[1 << 20];
    while (NS < MAXS && fgets(line, sizeof line, f)) {
        char *a = strtok(line, " \n"), *b = strtok(NULL, " \n");
        if (!a || !b) continue;
        S[NS].req = unhex(a, &S[NS].reqn); S[NS].res = unhex(b, &S[NS].resn);
        NS++;
    }
    fclose(f);
    /* "alone" means alone: every solo parse gets a configuration of its own, built from the same specification, so that anything one
     * parser leaves behind in the shared configuration cannot already be in its reference record */
    htp_cfg_t *shared = CFG;
    for (int k = 0; k < NS; k++) {
        CFG = make_cfg(argv[1]);
        parse_one(k, &SOLO[k], SEED + 7919u * (unsigned) k);
        htp_config_destroy(CFG);
    }
    CFG = shared;
    pthread_t th[MAXS];
    pthread_barrier_init(&BAR, NULL, (unsigned) NS);
    for (int k = 0; k < NS; k++) pthread_create(&th[k], NULL, worker, (void *) (long) k);
    for (int k = 0; k < NS; k++) pthread_join(th[k], NULL);
    for (int k = 0; k < NS; k++) {
        printf("stream %d runs %d differ %ld", k, ITER, DIFF[k]);
        if (DIFF[k]) printf(" first: %s || %s", SOLO[k].buf, FIRSTDIFF[k].buf);
        printf("\n");
    }
    printf("done\n");
    htp_config_destroy(CFG);
    return 0;
}
