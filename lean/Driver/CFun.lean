/- `cfun <name> <args>`: evaluate the TRANSLATED C function (HtpModel/Gen/CFuns.lean, regenerated from /repo by extract/ctrans.py) on the
   arguments; the harness calls the real function. `undef` = the term is undefined there (out-of-bounds read, out of fuel). -/
import HtpModel.Gen.CFuns
namespace Driver
open Htp Htp.Gen.C

def cfunFuel (ls : List Bytes) : Nat := 4 * (ls.foldl (fun a b => a + b.length) 0) + 16

def showOpt (r : Option String) : String := r.getD "undef"

/-- the fields of htp_list_array_t as the translated list functions take and return them -/
structure LSt where
  first : Int := 0
  last : Int := 0
  max : Int := 0
  cur : Int := 0
  elems : List Int := []

def listStep (l : LSt) (op : String) : Option (LSt × String) :=
  let arg := (op.drop 1).toString
  match op.front with
  | 'p' => arg.toNat?.bind fun v =>
      (htp_list_array_push 4 (l_elements := l.elems) (e := v) (l_last := l.last) (l_max_size := l.max) (l_current_size := l.cur) (l_first := l.first) (alloc_ok := 1)).map fun r =>
        ({ first := r.2.l_first, last := r.2.l_last, max := r.2.l_max_size, cur := r.2.l_current_size, elems := r.2.l_elements }, toString r.1)
  | 'o' => (htp_list_array_pop 4 (l_elements := l.elems) (l_current_size := l.cur) (l_first := l.first) (l_max_size := l.max) (l_last := l.last)).map fun r =>
      ({ l with last := r.2.l_last, cur := r.2.l_current_size }, toString r.1)
  | 's' => (htp_list_array_shift 4 (l_elements := l.elems) (l_current_size := l.cur) (l_first := l.first) (l_max_size := l.max)).map fun r =>
      ({ l with first := r.2.l_first, cur := r.2.l_current_size }, toString r.1)
  | 'g' => arg.toNat?.bind fun i => (htp_list_array_get 4 (l_elements := l.elems) (idx := i) (l_current_size := l.cur) (l_first := l.first) (l_max_size := l.max)).map fun r => (l, toString r.1)
  | 'r' => match arg.splitOn ":" with
    | [i, v] => i.toNat?.bind fun i => v.toNat?.bind fun v =>
        (htp_list_array_replace 4 (l_elements := l.elems) (idx := i) (e := v) (l_first := l.first) (l_max_size := l.max) (l_current_size := l.cur)).map fun r => ({ l with elems := r.2.l_elements }, toString r.1)
    | _ => none
  | 'z' => (htp_list_array_size 4 (l_current_size := l.cur)).map fun r => (l, toString r.1)
  | 'c' => (htp_list_array_clear 4 (l_first := l.first) (l_last := l.last) (l_current_size := l.cur)).map fun r =>
      ({ l with first := r.2.l_first, last := r.2.l_last, cur := r.2.l_current_size }, "0")
  | _ => none

def listRun (cap : Nat) (ops : List String) : String :=
  let rec go (l : LSt) (ops : List String) (acc : String) : String :=
    match ops with
    | [] =>
      let used := (List.range l.cur.toNat).map fun i => l.elems.getD ((l.first.toNat + i) % l.max.toNat) 0
      acc ++ s!" {l.first} {l.last} {l.max} {l.cur} [" ++ " ".intercalate (used.map toString) ++ "]"
    | o :: rest => match listStep l o with
      | some (l', out) => go l' rest (acc ++ out ++ ",")
      | none => acc ++ "undef"
  go { max := cap, elems := List.replicate cap 0 } ops ""

def cfunOp : List String → String
  | ["list", cap, ops] => match cap.toNat? with
    | some k => if k == 0 then "bad-op" else listRun k (ops.splitOn ",")
    | none => "bad-op"
  | ["htp_is_lws", c] => match c.toInt? with
    | some x => showOpt ((htp_is_lws 4 x).map fun r => toString r.1)
    | none => "bad-op"
  | ["htp_is_text", c] => match c.toInt? with
    | some x => showOpt ((htp_is_text 4 x).map fun r => toString r.1)
    | none => "bad-op"
  | ["htp_is_folding_char", c] => match c.toInt? with
    | some x => showOpt ((htp_is_folding_char 4 x).map fun r => toString r.1)
    | none => "bad-op"
  | ["htp_is_space", c] => match c.toInt? with
    | some x => showOpt ((htp_is_space 4 x).map fun r => toString r.1)
    | none => "bad-op"
  | ["htp_is_separator", c] => match c.toInt? with
    | some x => showOpt ((htp_is_separator 4 x).map fun r => toString r.1)
    | none => "bad-op"
  | ["htp_is_token", c] => match c.toInt? with
    | some x => showOpt ((htp_is_token 4 x).map fun r => toString r.1)
    | none => "bad-op"
  | ["htp_treat_response_line_as_body", a] => match bytesOfHex a with
    | some d => showOpt ((htp_treat_response_line_as_body (cfunFuel [d]) d d.length).map fun r => toString r.1)
    | none => "bad-op"
  | ["htp_parse_chunked_length", a] => match bytesOfHex a with
    | some d => showOpt ((htp_parse_chunked_length (cfunFuel [d]) d d.length 0).map fun r => s!"{r.1} {r.2.extension}")
    | none => "bad-op"
  | ["bstr_util_cmp_mem_nocasenorzero", a, b] => match bytesOfHex a, bytesOfHex b with
    | some x, some y => showOpt ((bstr_util_cmp_mem_nocasenorzero (cfunFuel [x, y]) x y x.length y.length).map fun r => toString r.1)
    | _, _ => "bad-op"
  | ["bstr_util_mem_index_of_mem_nocase", a, b] => match bytesOfHex a, bytesOfHex b with
    | some x, some y => showOpt ((bstr_util_mem_index_of_mem_nocase (cfunFuel [x, y]) x y x.length y.length).map fun r => toString r.1)
    | _, _ => "bad-op"
  | ["bstr_util_mem_index_of_mem_nocasenorzero", a, b] => match bytesOfHex a, bytesOfHex b with
    | some x, some y => showOpt ((bstr_util_mem_index_of_mem_nocasenorzero (cfunFuel [x, y]) x y x.length y.length).map fun r => toString r.1)
    | _, _ => "bad-op"
  | ["htp_connp_is_line_folded", a] => match bytesOfHex a with
    | some d => showOpt ((htp_connp_is_line_folded (cfunFuel [d]) d d.length).map fun r => toString r.1)
    | none => "bad-op"
  | ["htp_utf8_decode_allow_overlong", st, cp, b] => match st.toNat?, cp.toNat?, b.toNat? with
    | some s, some c, some x => showOpt ((htp_utf8_decode_allow_overlong 4 (state := s) (codep := c) (byte := x)).map fun r =>
        s!"{r.1} {r.2.state} {r.2.codep}")
    | _, _, _ => "bad-op"
  | ["bstr_chop", a] => match bytesOfHex a with
    | some d => showOpt ((bstr_chop (cfunFuel [d]) (b_mem := Htp.CSem.memOf d) (b_len := d.length)).map fun r =>
        hexOfBytes ((r.2.b_mem.take r.2.b_len.toNat).map fun v => UInt8.ofNat v.toNat))
    | none => "bad-op"
  | ["bstr_to_lowercase", a] => match bytesOfHex a with
    | some d => showOpt ((bstr_to_lowercase (cfunFuel [d]) (b_mem := Htp.CSem.memOf d) (b_len := d.length)).map fun r =>
        hexOfBytes ((r.2.b_mem.take r.2.b_len.toNat).map fun v => UInt8.ofNat v.toNat))
    | none => "bad-op"
  | ["bstr_char_at", a, k] => match bytesOfHex a, k.toNat? with
    | some d, some i => showOpt ((bstr_char_at (cfunFuel [d]) (b_mem := Htp.CSem.memOf d) (b_len := d.length) (pos := i)).map fun r => toString r.1)
    | _, _ => "bad-op"
  | ["bstr_char_at_end", a, k] => match bytesOfHex a, k.toNat? with
    | some d, some i => showOpt ((bstr_char_at_end (cfunFuel [d]) (b_mem := Htp.CSem.memOf d) (b_len := d.length) (pos := i)).map fun r => toString r.1)
    | _, _ => "bad-op"
  | ["bstr_chr", a, k] => match bytesOfHex a, k.toNat? with
    | some d, some i => showOpt ((bstr_chr (cfunFuel [d]) (b_mem := Htp.CSem.memOf d) (b_len := d.length) (c := i)).map fun r => toString r.1)
    | _, _ => "bad-op"
  | ["bstr_rchr", a, k] => match bytesOfHex a, k.toNat? with
    | some d, some i => showOpt ((bstr_rchr (cfunFuel [d]) (b_mem := Htp.CSem.memOf d) (b_len := d.length) (c := i)).map fun r => toString r.1)
    | _, _ => "bad-op"
  | ["bstr_begins_with_mem", a, b] => match bytesOfHex a, bytesOfHex b with
    | some h, some nd => showOpt ((bstr_begins_with_mem (cfunFuel [h, nd]) nd (haystack_mem := Htp.CSem.memOf h) (haystack_len := h.length)
        (len := nd.length)).map fun r => toString r.1)
    | _, _ => "bad-op"
  | ["bstr_begins_with_mem_nocase", a, b] => match bytesOfHex a, bytesOfHex b with
    | some h, some nd => showOpt ((bstr_begins_with_mem_nocase (cfunFuel [h, nd]) nd (haystack_mem := Htp.CSem.memOf h) (haystack_len := h.length)
        (len := nd.length)).map fun r => toString r.1)
    | _, _ => "bad-op"
  | ["htp_normalize_uri_path_inplace", a] => match bytesOfHex a with
    | some d => showOpt ((htp_normalize_uri_path_inplace (cfunFuel [d, d]) (Htp.CSem.memOf d) d.length).map fun r =>
        hexOfBytes ((r.2.s__mem.take r.2.s__len.toNat).map fun v => UInt8.ofNat v.toNat))
    | none => "bad-op"
  | ["htp_is_line_empty", a] => match bytesOfHex a with
    | some d => showOpt ((htp_is_line_empty (cfunFuel [d]) d d.length).map fun r => toString r.1)
    | none => "bad-op"
  | ["htp_is_line_whitespace", a] => match bytesOfHex a with
    | some d => showOpt ((htp_is_line_whitespace (cfunFuel [d]) d d.length).map fun r => toString r.1)
    | none => "bad-op"
  | ["htp_chomp", a] => match bytesOfHex a with
    | some d => showOpt ((htp_chomp (cfunFuel [d]) d d.length).map fun r => s!"{r.1} {r.2.len}")
    | none => "bad-op"
  | ["bstr_util_cmp_mem", a, b] => match bytesOfHex a, bytesOfHex b with
    | some x, some y => showOpt ((bstr_util_cmp_mem (cfunFuel [x, y]) x y x.length y.length).map fun r => toString r.1)
    | _, _ => "bad-op"
  | ["bstr_util_cmp_mem_nocase", a, b] => match bytesOfHex a, bytesOfHex b with
    | some x, some y => showOpt ((bstr_util_cmp_mem_nocase (cfunFuel [x, y]) x y x.length y.length).map fun r => toString r.1)
    | _, _ => "bad-op"
  | ["bstr_util_mem_index_of_mem", a, b] => match bytesOfHex a, bytesOfHex b with
    | some x, some y => showOpt ((bstr_util_mem_index_of_mem (cfunFuel [x, y]) x y x.length y.length).map fun r => toString r.1)
    | _, _ => "bad-op"
  | ["bstr_util_mem_to_pint", base, a] => match base.toInt?, bytesOfHex a with
    | some b, some d => showOpt ((bstr_util_mem_to_pint (cfunFuel [d]) d d.length b 0).map fun r => s!"{r.1} {r.2.lastlen}")
    | _, _ => "bad-op"
  | ["htp_parse_positive_integer_whitespace", base, a] => match base.toInt?, bytesOfHex a with
    | some b, some d => showOpt ((htp_parse_positive_integer_whitespace (cfunFuel [d]) d d.length b).map fun r => toString r.1)
    | _, _ => "bad-op"
  | ["htp_parse_port", a] => match bytesOfHex a with
    | some d => showOpt ((htp_parse_port (cfunFuel [d]) d d.length 0 0).map fun r => s!"{r.2.port} {r.2.invalid}")
    | none => "bad-op"
  | _ => "bad-op"

end Driver
