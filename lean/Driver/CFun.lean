/- `cfun <name> <args>`: evaluate the TRANSLATED C function (HtpModel/Gen/CFuns.lean, regenerated from /repo by extract/ctrans.py) on the
   arguments; the harness calls the real function. `undef` = the term is undefined there (out-of-bounds read, out of fuel). -/
import HtpModel.Gen.CFuns
namespace Driver
open Htp Htp.Gen.C

def cfunFuel (ls : List Bytes) : Nat := 4 * (ls.foldl (fun a b => a + b.length) 0) + 16

def showOpt (r : Option String) : String := r.getD "undef"

def cfunOp : List String → String
  | ["htp_is_lws", c] => match c.toInt? with
    | some x => showOpt ((htp_is_lws 4 x).map fun r => toString r.1)
    | none => "bad-op"
  | ["htp_is_text", c] => match c.toInt? with
    | some x => showOpt ((htp_is_text 4 x).map fun r => toString r.1)
    | none => "bad-op"
  | ["htp_is_folding_char", c] => match c.toInt? with
    | some x => showOpt ((htp_is_folding_char 4 x).map fun r => toString r.1)
    | none => "bad-op"
  | ["htp_is_space", c] => match c.toInt? with
    | some x => showOpt ((htp_is_space 4 x).map fun r => toString r.1)
    | none => "bad-op"
  | ["htp_is_separator", c] => match c.toInt? with
    | some x => showOpt ((htp_is_separator 4 x).map fun r => toString r.1)
    | none => "bad-op"
  | ["htp_is_token", c] => match c.toInt? with
    | some x => showOpt ((htp_is_token 4 x).map fun r => toString r.1)
    | none => "bad-op"
  | ["htp_treat_response_line_as_body", a] => match bytesOfHex a with
    | some d => showOpt ((htp_treat_response_line_as_body (cfunFuel [d]) d d.length).map fun r => toString r.1)
    | none => "bad-op"
  | ["htp_parse_chunked_length", a] => match bytesOfHex a with
    | some d => showOpt ((htp_parse_chunked_length (cfunFuel [d]) d d.length 0).map fun r => s!"{r.1} {r.2.extension}")
    | none => "bad-op"
  | ["bstr_util_cmp_mem_nocasenorzero", a, b] => match bytesOfHex a, bytesOfHex b with
    | some x, some y => showOpt ((bstr_util_cmp_mem_nocasenorzero (cfunFuel [x, y]) x y x.length y.length).map fun r => toString r.1)
    | _, _ => "bad-op"
  | ["bstr_util_mem_index_of_mem_nocase", a, b] => match bytesOfHex a, bytesOfHex b with
    | some x, some y => showOpt ((bstr_util_mem_index_of_mem_nocase (cfunFuel [x, y]) x y x.length y.length).map fun r => toString r.1)
    | _, _ => "bad-op"
  | ["bstr_util_mem_index_of_mem_nocasenorzero", a, b] => match bytesOfHex a, bytesOfHex b with
    | some x, some y => showOpt ((bstr_util_mem_index_of_mem_nocasenorzero (cfunFuel [x, y]) x y x.length y.length).map fun r => toString r.1)
    | _, _ => "bad-op"
  | ["htp_normalize_uri_path_inplace", a] => match bytesOfHex a with
    | some d => showOpt ((htp_normalize_uri_path_inplace (cfunFuel [d, d]) (Htp.CSem.memOf d) d.length).map fun r =>
        hexOfBytes ((r.2.s__mem.take r.2.s__len.toNat).map fun v => UInt8.ofNat v.toNat))
    | none => "bad-op"
  | ["htp_is_line_empty", a] => match bytesOfHex a with
    | some d => showOpt ((htp_is_line_empty (cfunFuel [d]) d d.length).map fun r => toString r.1)
    | none => "bad-op"
  | ["htp_is_line_whitespace", a] => match bytesOfHex a with
    | some d => showOpt ((htp_is_line_whitespace (cfunFuel [d]) d d.length).map fun r => toString r.1)
    | none => "bad-op"
  | ["htp_chomp", a] => match bytesOfHex a with
    | some d => showOpt ((htp_chomp (cfunFuel [d]) d d.length).map fun r => s!"{r.1} {r.2.len}")
    | none => "bad-op"
  | ["bstr_util_cmp_mem", a, b] => match bytesOfHex a, bytesOfHex b with
    | some x, some y => showOpt ((bstr_util_cmp_mem (cfunFuel [x, y]) x y x.length y.length).map fun r => toString r.1)
    | _, _ => "bad-op"
  | ["bstr_util_cmp_mem_nocase", a, b] => match bytesOfHex a, bytesOfHex b with
    | some x, some y => showOpt ((bstr_util_cmp_mem_nocase (cfunFuel [x, y]) x y x.length y.length).map fun r => toString r.1)
    | _, _ => "bad-op"
  | ["bstr_util_mem_index_of_mem", a, b] => match bytesOfHex a, bytesOfHex b with
    | some x, some y => showOpt ((bstr_util_mem_index_of_mem (cfunFuel [x, y]) x y x.length y.length).map fun r => toString r.1)
    | _, _ => "bad-op"
  | ["bstr_util_mem_to_pint", base, a] => match base.toInt?, bytesOfHex a with
    | some b, some d => showOpt ((bstr_util_mem_to_pint (cfunFuel [d]) d d.length b 0).map fun r => s!"{r.1} {r.2.lastlen}")
    | _, _ => "bad-op"
  | ["htp_parse_positive_integer_whitespace", base, a] => match base.toInt?, bytesOfHex a with
    | some b, some d => showOpt ((htp_parse_positive_integer_whitespace (cfunFuel [d]) d d.length b).map fun r => toString r.1)
    | _, _ => "bad-op"
  | ["htp_parse_port", a] => match bytesOfHex a with
    | some d => showOpt ((htp_parse_port (cfunFuel [d]) d d.length 0 0).map fun r => s!"{r.2.port} {r.2.invalid}")
    | none => "bad-op"
  | _ => "bad-op"

end Driver
