/- Line-protocol handlers for the connection scripts (`conn[@k] …`). -/
import HtpModel.Conn.Res

namespace Driver
open Htp Htp.Conn Htp.Gen

structure ConnSlot where
  cfg : Cfg
  conn : Htp.Conn.Conn

def parseAction : String → Option CbAction
  | "ok" => some .ok | "declined" => some .declined | "stop" => some .stop | "error" => some .error
  | "destroy" => some .destroyTx | "reg" => some .regTxHooks
  | _ => none

def parsePolicy (s : String) : Option (List (Nat × CbAction)) :=
  if s == "-" then some [] else
  (s.splitOn ",").mapM fun item =>
    match item.splitOn ":" with
    | [n, a] => match n.toNat?, parseAction a with
      | some k, some act => some (k, act)
      | _, _ => none
    | _ => none

def showData (e : Event) : String :=
  if e.stale then s!"!{(e.data.map (·.length)).getD 0}" else
  match e.data with
  | some d => hexOfBytes d
  | none => if e.gapLen > 0 then s!"~{e.gapLen}" else "~"

def isDataHook : Hook → Bool
  | .requestHeaderData | .requestBodyData | .requestFileData | .requestTrailerData
  | .responseHeaderData | .responseBodyData | .responseTrailerData | .txRequestBodyData | .txResponseBodyData => true
  | _ => false

def showEvent (e : Event) : String :=
  let d := if isDataHook e.hook then showData e else "."
  s!"{e.hook.name}/{e.tx}/{e.reqProgress}/{e.resProgress}/{d}/{if e.isLast then 1 else 0}"

def showEvents (evs : List Event) : String := " ".intercalate (evs.reverse.map showEvent)

def reqStateName : ReqState → String
  | .idle => "REQ_IDLE" | .line => "REQ_LINE" | .protocol => "REQ_PROTOCOL" | .headers => "REQ_HEADERS"
  | .connectCheck => "REQ_CONNECT_CHECK" | .connectWaitResponse => "REQ_CONNECT_WAIT_RESPONSE"
  | .connectProbeData => "UNKNOWN" | .bodyDetermine => "REQ_BODY_DETERMINE" | .bodyIdentity => "REQ_BODY_IDENTITY"
  | .bodyChunkedLength => "REQ_BODY_CHUNKED_LENGTH" | .bodyChunkedData => "REQ_BODY_CHUNKED_DATA"
  | .bodyChunkedDataEnd => "REQ_BODY_CHUNKED_DATA_END" | .finalize => "REQ_FINALIZE"
  | .ignoreDataAfter09 => "REQ_IGNORE_DATA_AFTER_HTTP_0_9"

def resStateName : ResState → String
  | .idle => "RES_IDLE" | .line => "RES_LINE" | .headers => "RES_HEADERS" | .bodyDetermine => "RES_BODY_DETERMINE"
  | .bodyIdentityClKnown => "RES_BODY_IDENTITY_CL_KNOWN" | .bodyIdentityStreamClose => "RES_BODY_IDENTITY_STREAM_CLOSE"
  | .bodyChunkedLength => "RES_BODY_CHUNKED_LENGTH" | .bodyChunkedData => "RES_BODY_CHUNKED_DATA"
  | .bodyChunkedDataEnd => "RES_BODY_CHUNKED_DATA_END" | .finalize => "RES_BODY_FINALIZE"

def showHeaders (hs : List Parse.Header) : String :=
  ",".intercalate (hs.map fun h => s!"{hexOfBytes h.name}:{hexOfBytes h.value}:{h.flags}")

def showOptLen : Option Bytes → String
  | some b => toString b.length
  | none => "~"

def showOptUid : Option Nat → String
  | some u => toString u
  | none => "-"

def showTx (t : Tx) : String :=
  let raw := t.uriRaw
  let norm := match t.uriNorm with
    | some n => s!"[{hexOfOpt n.scheme} {hexOfOpt n.username} {hexOfOpt n.password} {hexOfOpt n.hostname} {n.portNumber} {hexOfOpt n.path} {hexOfOpt n.query} {hexOfOpt n.fragment}]"
    | none => "~"
  let cookies := match t.cookies with
    | some cs => "[" ++ ",".intercalate (cs.map fun (n, v) => s!"{hexOfBytes n}={hexOfBytes v}") ++ "]"
    | none => "~"
  let params := ",".intercalate (t.params.map fun p => s!"{hexOfBytes p.name}={hexOfOpt p.value}@{p.source}")
  let mp := match t.mpart with
    | some m => s!"{m.flags}:{m.boundaryCount}:{m.done.length + m.cur.toList.length}"
    | none => "~"
  "tx{" ++ s!"uid={t.uid} rp={t.reqProgress} sp={t.resProgress} flags={t.flags} " ++
  s!"line={hexOfOpt t.reqLine} m={hexOfOpt t.method} mn={t.methodNumber} uri={hexOfOpt t.uri} proto={hexOfOpt t.protocol} pn={t.protocolNumber} h09={if t.is09 then 1 else 0} " ++
  s!"raw=[{hexOfOpt raw.scheme} {hexOfOpt raw.username} {hexOfOpt raw.password} {hexOfOpt raw.hostname} {hexOfOpt raw.port} {raw.portNumber} {hexOfOpt raw.path} {hexOfOpt raw.query} {hexOfOpt raw.fragment}] norm={norm} " ++
  s!"rh=[{showHeaders t.reqHeaders}] tc={t.reqTransferCoding} cl={t.reqContentLength} ml={t.reqMessageLen} el={t.reqEntityLen} ct={hexOfOpt t.reqContentType} " ++
  s!"host={hexOfOpt t.hostname} port={t.portNumber} cookies={cookies} auth={t.authType}:{hexOfOpt t.authUser}:{hexOfOpt t.authPass} params=[{params}] mp={mp} " ++
  s!"rep={t.reqHeaderRepetitions} ign={t.reqIgnoredLines} exp={t.expectedStatus} | " ++
  s!"sline={hexOfOpt t.resLine} sproto={hexOfOpt t.resProtocol} spn={t.resProtocolNumber} st={hexOfOpt t.resStatus} sn={t.resStatusNumber} msg={hexOfOpt t.resMessage} " ++
  s!"sh=[{showHeaders t.resHeaders}] stc={t.resTransferCoding} scl={t.resContentLength} sml={t.resMessageLen} sel={t.resEntityLen} sct={hexOfOpt t.resContentType} " ++
  s!"ce={t.resContentEncoding} cep={t.resContentEncodingProcessing} s100={t.seen100} srep={t.resHeaderRepetitions} sign={t.resIgnoredLines}" ++ "}"

def showDump (c : Htp.Conn.Conn) : String :=
  let txs := " | ".intercalate (c.txs.map fun o => match o with | some t => showTx t | none => "~")
  s!"ntx={c.txs.length} in_tx={showOptUid c.inn.tx} out_tx={showOptUid c.out.tx} in_state={reqStateName c.inState} out_state={resStateName c.outState} " ++
  s!"in_status={c.inn.status} out_status={c.out.status} conn_flags={c.connFlags} in_ctr={c.inDataCounter} out_ctr={c.outDataCounter} " ++
  s!"in_buf={showOptLen c.inn.buf} out_buf={showOptLen c.out.buf} in_hdr={showOptLen c.inn.header} out_hdr={showOptLen c.out.header} next_idx={c.outNextTxIndex} dec=[{",".intercalate (c.outDecs.map fun d => s!"{d.kind}:{if d.passthrough then 1 else 0}")}] :: {txs}"

def unsupportedMark (c : Htp.Conn.Conn) : String := if c.unsupported then " UNSUPPORTED" else ""

/-- "rc:consumed:hex,rc:consumed:hex,..." ("-" = no inflate call) -/
def parseZTrace (t : String) : Option (List ZRes) :=
  if t == "-" then some [] else
  (t.splitOn ",").mapM fun item =>
    match item.splitOn ":" with
    | [rc, consumed, hx] =>
      match rc.toInt?, consumed.toNat?, bytesOfHex hx with
      | some r, some k, some b => some ({ rc := r, consumed := k, produced := b } : ZRes)
      | _, _, _ => none
    | _ => none

/-- one item of a `play` list -/
inductive PlayItem where
  | req (b : Bytes) | res (b : Bytes) | reqGap (n : Nat) | resGap (n : Nat)

def parsePlayItem (s : String) : Option PlayItem :=
  if s.startsWith "g>" then (s.drop 2).toString.toNat?.map .reqGap
  else if s.startsWith "g<" then (s.drop 2).toString.toNat?.map .resGap
  else if s.startsWith ">" then (bytesOfHex (s.drop 1).toString).map .req
  else if s.startsWith "<" then (bytesOfHex (s.drop 1).toString).map .res
  else none

structure PlaySt where
  conn : Htp.Conn.Conn
  inOther : Option Bytes := none
  outOther : Option Bytes := none
  log : List String := []     -- newest first

def callReq (cfg : Cfg) (b : Bytes) (p : PlaySt) : PlaySt :=
  let c := { p.conn with events := [] }
  let (c, rc) := reqData cfg (some b) b.length c
  let line := s!"req:rc={rc}:consumed={c.inn.read}:len={b.length}:ev=[{showEvents c.events}]"
  let other := if rc == STREAM_DATA_OTHER then some (b.drop c.inn.read.toNat) else none
  { p with conn := c, inOther := other, log := line :: p.log }

def callRes (cfg : Cfg) (b : Bytes) (p : PlaySt) : PlaySt :=
  let c := { p.conn with events := [] }
  let (c, rc) := resData cfg (some b) b.length c
  let line := s!"res:rc={rc}:consumed={c.out.read}:len={b.length}:ev=[{showEvents c.events}]"
  let other := if rc == STREAM_DATA_OTHER then some (b.drop c.out.read.toNat) else none
  { p with conn := c, outOther := other, log := line :: p.log }

/-- the hand-over discipline of the repository's own test driver (test/test.c), made total:
    a request chunk that arrives while request data is still held back is appended to the held data -/
def playStep (cfg : Cfg) (p : PlaySt) : PlayItem → PlaySt
  | .req b =>
    match p.inOther with
    | some held => { p with inOther := some (held ++ b) }
    | none => callReq cfg b p
  | .res b =>
    let p := match p.outOther with
      | some held => callRes cfg held { p with outOther := none }
      | none => p
    -- if the held response data is still not accepted, the new chunk is appended to what is held
    let p := match p.outOther with
      | some held => { p with outOther := some (held ++ b) }
      | none => callRes cfg b p
    match p.inOther with
    | some held => callReq cfg held { p with inOther := none }
    | none => p
  | .reqGap n =>
    let c := { p.conn with events := [] }
    let (c, rc) := reqData cfg none n c
    { p with conn := c, log := s!"reqgap:rc={rc}:consumed={c.inn.read}:len={n}:ev=[{showEvents c.events}]" :: p.log }
  | .resGap n =>
    let c := { p.conn with events := [] }
    let (c, rc) := resData cfg none n c
    { p with conn := c, log := s!"resgap:rc={rc}:consumed={c.out.read}:len={n}:ev=[{showEvents c.events}]" :: p.log }

def heldLen : Option Bytes → Int
  | some b => b.length
  | none => -1

/-- the documented hand-over protocol (docs/QUICK_START 2.2): alternate between the directions that hold back data until
    nothing is held or a whole round consumes nothing (`stall`) -/
def pumpDrain (cfg : Cfg) : Nat → PlaySt → PlaySt × Bool
  | 0, p => (p, false)
  | fuel + 1, p =>
    if p.inOther.isNone && p.outOther.isNone then (p, false) else
    let bi := heldLen p.inOther
    let bo := heldLen p.outOther
    let p := match p.outOther with
      | some held => callRes cfg held { p with outOther := none }
      | none => p
    let p := match p.inOther with
      | some held => callReq cfg held { p with inOther := none }
      | none => p
    if heldLen p.inOther == bi && heldLen p.outOther == bo then (p, true) else pumpDrain cfg fuel p

def pumpAll (cfg : Cfg) (c : Htp.Conn.Conn) (items : List PlayItem) : Htp.Conn.Conn × String :=
  let p := items.foldl (playStep cfg) { conn := c }
  let (p, stall) := pumpDrain cfg 16 p
  let tail := s!"end:in={heldLen p.inOther}:out={heldLen p.outOther}:stall={if stall then 1 else 0}"
  (p.conn, " ;; ".intercalate (p.log.reverse ++ [tail]))

def playAll (cfg : Cfg) (c : Htp.Conn.Conn) (items : List PlayItem) : Htp.Conn.Conn × String :=
  let p := items.foldl (playStep cfg) { conn := c }
  -- final flush as the test driver does for the response side (and symmetrically for the request side)
  let p := match p.outOther with
    | some held => callRes cfg held { p with outOther := none }
    | none => p
  let p := match p.inOther with
    | some held => callReq cfg held { p with inOther := none }
    | none => p
  (p.conn, " ;; ".intercalate p.log.reverse)

def connOp (slot : Option ConnSlot) : List String → Option ConnSlot × String
  | ["new", spec, pol] =>
    match cfgOfSpec spec, parsePolicy pol with
    | some cfg, some p => (some { cfg := cfg, conn := { policy := p, allowCbDestroy := !cfg.txAutoDestroy, bombLimit := cfg.bombLimit.toNat } }, "ok")
    | _, _ => (slot, "bad-op")
  | op =>
    match slot with
    | none => (slot, "bad-op")
    | some s =>
      let c := { s.conn with events := [] }
      match op with
      | ["open"] => (some { s with conn := connOpen c }, "ok")
      | ["req", h] => match bytesOfHex h with
        | some b =>
          let (c, rc) := reqData s.cfg (some b) b.length c
          (some { s with conn := c }, s!"rc={rc} consumed={c.inn.read} len={b.length} ev=[{showEvents c.events}]{unsupportedMark c}")
        | none => (slot, "bad-op")
      | ["res", h] => match bytesOfHex h with
        | some b =>
          let (c, rc) := resData s.cfg (some b) b.length c
          (some { s with conn := c }, s!"rc={rc} consumed={c.out.read} len={b.length} ev=[{showEvents c.events}]{unsupportedMark c}")
        | none => (slot, "bad-op")
      | ["zon"] => (some { s with conn := { c with zused := true } }, "ok")
      | ["res", h, zt] => match bytesOfHex h, parseZTrace zt with
        | some b, some zs =>
          -- the results of the inflate() calls of this data call, recorded from the implementation (C07)
          let (c, rc) := resData s.cfg (some b) b.length { c with zoracle := zs, zused := true }
          let left := c.zoracle.length
          (some { s with conn := { c with zoracle := [] } },
           s!"rc={rc} consumed={c.out.read} len={b.length} ev=[{showEvents c.events}] zleft={left}{unsupportedMark c}")
        | _, _ => (slot, "bad-op")
      | ["req", h, zt] => match bytesOfHex h, parseZTrace zt with
        | some b, some zs =>
          -- request decompression: the recorded inflate() results of this data call
          let (c, rc) := reqData s.cfg (some b) b.length { c with zoracle := zs, zused := true }
          let left := c.zoracle.length
          (some { s with conn := { c with zoracle := [] } },
           s!"rc={rc} consumed={c.inn.read} len={b.length} ev=[{showEvents c.events}] zleft={left}{unsupportedMark c}")
        | _, _ => (slot, "bad-op")
      | ["reqgap", n] => match n.toNat? with
        | some k =>
          let (c, rc) := reqData s.cfg none k c
          (some { s with conn := c }, s!"rc={rc} consumed={c.inn.read} len={k} ev=[{showEvents c.events}]{unsupportedMark c}")
        | none => (slot, "bad-op")
      | ["resgap", n] => match n.toNat? with
        | some k =>
          let (c, rc) := resData s.cfg none k c
          (some { s with conn := c }, s!"rc={rc} consumed={c.out.read} len={k} ev=[{showEvents c.events}]{unsupportedMark c}")
        | none => (slot, "bad-op")
      | ["close"] =>
        let (c, _, _) := connClose s.cfg c
        (some { s with conn := c }, s!"rc={c.inn.status},{c.out.status} ev=[{showEvents c.events}]{unsupportedMark c}")
      | ["reqclose"] =>
        let (c, _) := reqClose s.cfg c
        (some { s with conn := c }, s!"rc={c.inn.status} ev=[{showEvents c.events}]{unsupportedMark c}")
      | ["play", items] =>
        match (items.splitOn ",").mapM parsePlayItem with
        | some its =>
          let (c, out) := playAll s.cfg c its
          (some { s with conn := c }, out ++ unsupportedMark c)
        | none => (slot, "bad-op")
      | ["pump", items] =>
        match (items.splitOn ",").mapM parsePlayItem with
        | some its =>
          let (c, out) := pumpAll s.cfg c its
          (some { s with conn := c }, out ++ unsupportedMark c)
        | none => (slot, "bad-op")
      | ["txfreed"] =>
        let (c, n) := txFreed c
        (some { s with conn := c }, toString n)
      | ["dump"] => (some { s with conn := c }, showDump c ++ unsupportedMark c)
      | ["destroy"] => (none, "ok")
      | _ => (slot, "bad-op")

end Driver
