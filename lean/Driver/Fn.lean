/- Line-protocol handlers for the pure transforms (`fn <name> …`). -/
import HtpModel.Cfg
import HtpModel.Util.Uri
import HtpModel.Util.Decode

namespace Driver
open Htp

def showTriple (r : Bytes × Nat × Int) : String := s!"{hexOfBytes r.1} {r.2.1} {r.2.2}"

def showUriRaw (u : Uri.UriRaw) : String :=
  s!"scheme={hexOfOpt u.scheme} user={hexOfOpt u.username} pass={hexOfOpt u.password} host={hexOfOpt u.hostname} port={hexOfOpt u.port} path={hexOfOpt u.path} query={hexOfOpt u.query} frag={hexOfOpt u.fragment}"

def showUriNorm (u : Uri.UriNorm) : String :=
  s!"scheme={hexOfOpt u.scheme} user={hexOfOpt u.username} pass={hexOfOpt u.password} host={hexOfOpt u.hostname} pn={u.portNumber} path={hexOfOpt u.path} query={hexOfOpt u.query} frag={hexOfOpt u.fragment}"

def fnOp : List String → String
  | ["parse_uri", h] => match bytesOfHex h with
    | some b => showUriRaw (Uri.parseUri b)
    | none => "bad-op"
  | ["hostport", h] => match bytesOfHex h with
    | some b =>
      let r := Uri.parseHostport b
      s!"host={hexOfOpt r.hostname} port={hexOfOpt r.port} pn={r.portNumber} invalid={if r.invalid then 1 else 0}"
    | none => "bad-op"
  | ["validate_hostname", h] => match bytesOfHex h with
    | some b => if Uri.validateHostname Uri.ipv6Valid b then "1" else "0"
    | none => "bad-op"
  | ["inet6", h] => match bytesOfHex h with
    | some b => if Uri.ipv6Valid b then "1" else "0"
    | none => "bad-op"
  | ["normalize", h] => match bytesOfHex h with
    | some b => hexOfBytes (Decode.normalizePath b)
    | none => "bad-op"
  | ["utf8_validate", h] => match bytesOfHex h with
    | some b => toString (Decode.utf8ValidatePath b 0)
    | none => "bad-op"
  | [fn, spec, h] =>
    match cfgOfSpec spec, bytesOfHex h with
    | some cfg, some b =>
      match fn with
      | "decode_path" => showTriple (Decode.decodePath cfg.pathCfg b 0 0)
      | "urldecode_path" => showTriple (Decode.urldecodeEx cfg.pathCfg b 0 0)
      | "urldecode" => showTriple (Decode.urldecodeEx cfg.urlencCfg b 0 0)
      | "utf8_decode" => showTriple (Decode.utf8DecodePath cfg.pathCfg b 0 0)
      | "pipeline" => showTriple (Decode.pipeline cfg.pathCfg b 0 0)
      | "norm_uri" =>
        let raw := Uri.parseUri b
        let (n, f, s) := Uri.normalizeParsedUri cfg.pathCfg raw 0 0
        s!"{showUriNorm n} flags={f} status={s}"
      | _ => "bad-op"
    | _, _ => "bad-op"
  | _ => "bad-op"

end Driver
