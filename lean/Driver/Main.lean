/- htpdrv: one operation per input line, one canonical result line per operation. -/
import Driver.Prim
import Driver.Fn
import Driver.Stream
import Driver.Conn
import Driver.Mpart
import Driver.Own
import Driver.CFun

namespace Driver

structure St where
  prim : PrimState := {}
  conns : List (Nat × ConnSlot) := []

def St.getConn (s : St) (k : Nat) : Option ConnSlot := (s.conns.find? (·.1 == k)).map (·.2)
def St.setConn (s : St) (k : Nat) (o : Option ConnSlot) : St :=
  let rest := s.conns.filter (·.1 != k)
  match o with
  | some x => { s with conns := (k, x) :: rest }
  | none => { s with conns := rest }

/-- "conn" or "conn@k" -/
def connId (w : String) : Option Nat :=
  if w == "conn" then some 0
  else match w.splitOn "@" with
    | ["conn", k] => k.toNat?
    | _ => none

def step (s : St) (line : String) : St × String :=
  match line.trimAscii.toString.splitOn " " with
  | "ring" :: rest => let (p, o) := ringOp s.prim rest; ({ s with prim := p }, o)
  | "table" :: rest => let (p, o) := tableOp s.prim rest; ({ s with prim := p }, o)
  | "bstr" :: "bb" :: rest => let (p, o) := bbOp s.prim rest; ({ s with prim := p }, o)
  | "bstr" :: rest => (s, bstrOp rest)
  | "num" :: rest => (s, numOp rest)
  | "fn" :: rest => (s, fnOp rest)
  | "cfun" :: rest => (s, cfunOp rest)
  | "urlenc" :: rest => (s, urlencOp rest)
  | "mpart" :: rest => (s, mpartOp rest)
  | "own" :: rest => (s, ownOp rest)
  | w :: rest =>
    match connId w with
    | some k => let (o, out) := connOp (s.getConn k) rest; (s.setConn k o, out)
    | none => (s, "bad-op")
  | _ => (s, "bad-op")

partial def loop (h : IO.FS.Stream) (out : IO.FS.Stream) (s : St) : IO Unit := do
  let line ← h.getLine
  if line.isEmpty then return ()
  let (s', o) := step s line
  out.putStrLn o
  loop h out s'

end Driver

def main : IO Unit := do
  let stdin ← IO.getStdin
  let stdout ← IO.getStdout
  Driver.loop stdin stdout {}
