/- htpdrv: one operation per input line, one canonical result line per operation. -/
import Driver.Prim
import Driver.Fn
import Driver.Stream

namespace Driver

structure St where
  prim : PrimState := {}

def step (s : St) (line : String) : St × String :=
  match line.trimAscii.toString.splitOn " " with
  | "ring" :: rest => let (p, o) := ringOp s.prim rest; ({ s with prim := p }, o)
  | "table" :: rest => let (p, o) := tableOp s.prim rest; ({ s with prim := p }, o)
  | "bstr" :: rest => (s, bstrOp rest)
  | "num" :: rest => (s, numOp rest)
  | "fn" :: rest => (s, fnOp rest)
  | "urlenc" :: rest => (s, urlencOp rest)
  | _ => (s, "bad-op")

partial def loop (h : IO.FS.Stream) (out : IO.FS.Stream) (s : St) : IO Unit := do
  let line ← h.getLine
  if line.isEmpty then return ()
  let (s', o) := step s line
  out.putStrLn o
  loop h out s'

end Driver

def main : IO Unit := do
  let stdin ← IO.getStdin
  let stdout ← IO.getStdout
  Driver.loop stdin stdout {}
