/- Line-protocol handler for the multipart/form-data model.
   `mpart <hex content-type> <chunks> [<hex byte placed after every chunk buffer by the harness; ignored here>]` -/
import HtpModel.Multipart
import Driver.Stream

namespace Driver
open Htp Htp.Multipart

def mpShowHeader (h : Header) : String := s!"{hexOfBytes h.name}:{hexOfBytes h.value}:{h.flags}"

def mpShowPart (pt : Part) : String :=
  let file := hexOfOpt (pt.file.map (·.filename))
  let flen := match pt.file with | some f => toString f.len | none => "~"
  s!"type={pt.type};len={pt.len};name={hexOfOpt pt.name};file={file};flen={flen};ct={hexOfOpt pt.contentType};" ++
  s!"value={hexOfOpt pt.value};headers={",".intercalate (pt.headers.map mpShowHeader)}"

def mpShowEvent (e : Nat × Option Bytes) : String := s!"{e.1}:{hexOfOpt e.2}"

def mpShowResult (r : Result) : String :=
  match r.boundary with
  | none => s!"boundary=~ flags={r.flags} parts=[] events=[]"
  | some b =>
    s!"boundary={hexOfBytes b} mb={hexOfOpt r.stored} flags={r.flags} bc={r.boundaryCount} " ++
    s!"parts=[{" | ".intercalate (r.parts.map mpShowPart)}] events=[{" ".intercalate (r.events.map mpShowEvent)}]" ++
    (if r.stuck then " STUCK" else "")

def mpartRun (ct chunks : String) : String :=
  match bytesOfHex ct, chunksOfString chunks with
  | some ct, some cs => mpShowResult (Multipart.run ct cs)
  | _, _ => "bad-op"

/-- the optional third token tells the harness what to put behind each chunk buffer (nothing, or one byte);
    the parse must not depend on it, so the model ignores it -/
def mpartOp : List String → String
  | [ct, chunks] => mpartRun ct chunks
  | [ct, chunks, _] => mpartRun ct chunks
  | _ => "bad-op"

end Driver
