/- Line-protocol handler for the ownership model: `own <fn> <k>` -/
import HtpModel.Own

namespace Driver
open Htp.Own

def showEv : Ev → String
  | .alloc i => s!"A{i}"
  | .fail => "X"
  | .realloc o n => s!"R{o}>{n}"
  | .free i => s!"F{i}"

def showOwn (r : H × Nat) : String :=
  s!"rc={r.2} live={r.1.live.length} trace={" ".intercalate (r.1.trace.reverse.map showEv)}"

def ownOp : List String → String
  | [fn, k] =>
    match k.toNat? with
    | none => "bad-op"
    | some k =>
      match fn with
      | "list" => showOwn (listScenario 2 3 k)
      | "table" => showOwn (tableScenario 3 k)
      | "bstr" => showOwn (bstrScenario k)
      | "conn" => showOwn (connScenario true k)
      | "builder" => showOwn (builderScenario k)
      | _ => "bad-op"
  | _ => "bad-op"

end Driver
