/- Line-protocol handlers for the primitives (C17). -/
import HtpModel.Prim.Builder
import HtpModel.Prim.Ring
import HtpModel.Prim.Table
import HtpModel.Prim.Bstr
import HtpModel.Prim.Num
import HtpModel.Conn.Parsers

namespace Driver
open Htp

structure PrimState where
  ring : Ring.Ring Nat := Ring.create 1
  table : Table.Table := Table.create 1
  tableCmp : Nat := 0            -- key comparisons since the last `table cost`
  bb : Option Builder.Builder := none

def showOptNat : Option Nat → String
  | some 0 => "null"   -- a stored NULL pointer and "no element" are indistinguishable in C
  | some n => toString n
  | none => "null"

def showIdx : Option Nat → String
  | some n => toString n
  | none => "-1"

def boolInt (b : Bool) : String := if b then "1" else "0"

def ringOp (s : PrimState) : List String → PrimState × String
  | ["new", n] => match n.toNat? with
    | some k => if k = 0 then (s, "bad-op") else ({ s with ring := Ring.create k }, "ok")
    | none => (s, "bad-op")
  | ["push", n] => match n.toNat? with
    | some k => ({ s with ring := Ring.push s.ring k }, "ok")
    | none => (s, "bad-op")
  | ["pop"] => let (r, v) := Ring.pop s.ring; ({ s with ring := r }, showOptNat v)
  | ["shift"] => let (r, v) := Ring.shift s.ring; ({ s with ring := r }, showOptNat v)
  | ["get", i] => match i.toNat? with
    | some k => (s, showOptNat (Ring.get s.ring k))
    | none => (s, "bad-op")
  | ["replace", i, n] => match i.toNat?, n.toNat? with
    | some k, some v => let (r, ok) := Ring.replace s.ring k v; ({ s with ring := r }, if ok then "ok" else "declined")
    | _, _ => (s, "bad-op")
  | ["clear"] => ({ s with ring := Ring.clear s.ring }, "ok")
  | ["size"] => (s, toString (Ring.size s.ring))
  | ["dump"] =>
    let n := Ring.size s.ring
    let es := (List.range n).map (fun i => showOptNat (Ring.get s.ring i))
    (s, s!"size={n} [{" ".intercalate es}]")
  | _ => (s, "bad-op")

def tableOp (s : PrimState) : List String → PrimState × String
  | ["new", n] => match n.toNat? with
    | some k => if k = 0 then (s, "bad-op") else ({ s with table := Table.create k }, "ok")
    | none => (s, "bad-op")
  | [op, k, v] =>
    match bytesOfHex k, v.toNat? with
    | some key, some val =>
      let f := match op with
        | "add" => some Table.add | "addn" => some Table.addn | "addk" => some Table.addk | _ => none
      match f with
      | some f => let (t, ok) := f s.table key val; ({ s with table := t }, if ok then "ok" else "error")
      | none => (s, "bad-op")
    | _, _ => (s, "bad-op")
  | ["get", k] => match bytesOfHex k with
    | some key => ({ s with tableCmp := s.tableCmp + Table.getCost s.table key }, showOptNat (Table.get s.table key))
    | none => (s, "bad-op")
  | ["getmem", k] => match bytesOfHex k with
    | some key => ({ s with tableCmp := s.tableCmp + Table.getCost s.table key }, showOptNat (Table.get s.table key))
    | none => (s, "bad-op")
  | ["getc", k] => match bytesOfHex k with
    | some key => ({ s with tableCmp := s.tableCmp + Table.getCCost s.table key }, showOptNat (Table.getC s.table key))
    | none => (s, "bad-op")
  | ["cost"] => ({ s with tableCmp := 0 }, toString s.tableCmp)
  | ["getindex", i] => match i.toNat? with
    | some idx => let (k, v) := Table.getIndex s.table idx; (s, s!"{hexOfOpt k} {showOptNat v}")
    | none => (s, "bad-op")
  | ["size"] => (s, toString (Table.size s.table))
  | ["clear"] => ({ s with table := Table.clear s.table }, "ok")
  | ["dump"] =>
    let n := Table.size s.table
    let es := (List.range n).map (fun i => let (k, v) := Table.getIndex s.table i; s!"{hexOfOpt k}={showOptNat v}")
    (s, s!"size={n} [{" ".intercalate es}]")
  | _ => (s, "bad-op")

/-- the bytes a C-string argument denotes: up to the first NUL -/
def cStr (b : Bytes) : Bytes := b.takeWhile (· != 0)

/-- what each thin wrapper of bstr.c must equal, in terms of the *_mem function it delegates to -/
def bstrWrapper : List String → String
  | ["dup_ex", a, off, len] => match bytesOfHex a, off.toNat?, len.toNat? with
    | some x, some o, some l => if o + l > x.length then "bad-op" else hexOfBytes ((x.drop o).take l)
    | _, _, _ => "bad-op"
  | [fn, a] =>
    match bytesOfHex a with
    | some x =>
      match fn with
      | "dup" => s!"{hexOfBytes x} {x.length} {x.length}"
      | "dup_c" => hexOfBytes (cStr x)
      | "dup_lower" => hexOfBytes (Bstr.toLowercase x)
      | "memdup_to_c" => hexOfBytes (x.flatMap (fun c => if c == 0 then [0x5c, 0x30] else [c]))
      | "strdup_to_c" => hexOfBytes (x.flatMap (fun c => if c == 0 then [0x5c, 0x30] else [c]))
      | "wrap_c" => s!"{hexOfBytes (cStr x)} {(cStr x).length}"
      | "wrap_mem" => s!"{hexOfBytes x} {x.length} refused"
      | _ => "bad-op"
    | none => "bad-op"
  | [fn, a, b] =>
    match bytesOfHex a, bytesOfHex b with
    | some x, some y =>
      let yc := cStr y
      match fn with
      | "cmp" => toString (Bstr.cmpMem x y)
      | "cmp_nocase" => toString (Bstr.cmpMemNocase x y)
      | "cmp_c" => toString (Bstr.cmpMem x yc)
      | "cmp_c_nocase" => toString (Bstr.cmpMemNocase x yc)
      | "cmp_c_nocasenorzero" => toString (Bstr.cmpMemNocaseNorzero x yc)
      | "util_cmp_mem" => toString (Bstr.cmpMem x y)
      | "util_cmp_mem_nocase" => toString (Bstr.cmpMemNocase x y)
      | "begins_with" => boolInt (Bstr.beginsWithMem x y)
      | "begins_with_nocase" => boolInt (Bstr.beginsWithMemNocase x y)
      | "begins_with_c" => boolInt (Bstr.beginsWithMem x yc)
      | "begins_with_c_nocase" => boolInt (Bstr.beginsWithMemNocase x yc)
      | "index_of" => showIdx (Bstr.indexOfMem x y)
      | "index_of_nocase" => showIdx (Bstr.indexOfMemNocase x y)
      | "index_of_c" => showIdx (Bstr.indexOfMem x yc)
      | "index_of_c_nocase" => showIdx (Bstr.indexOfMemNocase x yc)
      | "index_of_c_nocasenorzero" => showIdx (Bstr.indexOfMemNocaseNorzero x yc)
      | "util_mem_index_of_c" => showIdx (Bstr.indexOfMem x yc)
      | "util_mem_index_of_c_nocase" => showIdx (Bstr.indexOfMemNocase x yc)
      | "util_mem_index_of_mem" => showIdx (Bstr.indexOfMem x y)
      | "util_mem_index_of_mem_nocase" => showIdx (Bstr.indexOfMemNocase x y)
      | "add" => hexOfBytes (x ++ y)
      | "add_c" => hexOfBytes (x ++ yc)
      | "add_noex" => hexOfBytes (Bstr.addMemNoex (x.length + 3) x y)
      | "add_c_noex" => hexOfBytes (Bstr.addMemNoex (x.length + 3) x yc)
      | _ => "bad-op"
    | _, _ => "bad-op"
  | _ => "bad-op"

/-- the string builder: bstr bb new | append <hex> | append_c <hex> | appendn <hex> | size | clear | tostr -/
def bbOp (s : PrimState) : List String → PrimState × String
  | ["new"] => ({ s with bb := some Builder.create }, "ok")
  | [fn, a] =>
    match s.bb, bytesOfHex a with
    | some b, some x =>
      match fn with
      | "append" => let b := Builder.append b x; ({ s with bb := some b }, s!"1 {Builder.size b}")
      | "appendn" => let b := Builder.append b x; ({ s with bb := some b }, s!"1 {Builder.size b}")
      | "append_c" => let b := Builder.appendC b x; ({ s with bb := some b }, s!"1 {Builder.size b}")
      | _ => (s, "bad-op")
    | _, _ => (s, "bad-op")
  | [fn] =>
    match s.bb with
    | some b =>
      match fn with
      | "size" => (s, toString (Builder.size b))
      | "clear" => let b := Builder.clear b; ({ s with bb := some b }, toString (Builder.size b))
      | "tostr" => let r := Builder.toStr b; (s, s!"{hexOfBytes r} {r.length}")
      | _ => (s, "bad-op")
    | none => (s, "bad-op")
  | _ => (s, "bad-op")

def bstrOp : List String → String
  | "w" :: rest => bstrWrapper rest
  | ["char_at", a, p] => match bytesOfHex a, p.toNat? with
    | some x, some i => (match Bstr.charAt x i with | some c => toString c.toNat | none => "-1")
    | _, _ => "bad-op"
  | ["char_at_end", a, p] => match bytesOfHex a, p.toNat? with
    | some x, some i => (match Bstr.charAtEnd x i with | some c => toString c.toNat | none => "-1")
    | _, _ => "bad-op"
  | ["chr", a, c] => match bytesOfHex a, c.toNat? with
    | some x, some ch => if ch < 256 then showIdx (Bstr.chr x (UInt8.ofNat ch)) else "bad-op"
    | _, _ => "bad-op"
  | ["rchr", a, c] => match bytesOfHex a, c.toNat? with
    | some x, some ch => if ch < 256 then showIdx (Bstr.rchr x (UInt8.ofNat ch)) else "bad-op"
    | _, _ => "bad-op"
  | [fn, a, b] =>
    match bytesOfHex a, bytesOfHex b with
    | some x, some y =>
      match fn with
      | "cmp" => toString (Bstr.cmpMem x y)
      | "cmp_nocase" => toString (Bstr.cmpMemNocase x y)
      | "cmp_nocasenorzero" => toString (Bstr.cmpMemNocaseNorzero x y)
      | "begins_with" => boolInt (Bstr.beginsWithMem x y)
      | "begins_with_nocase" => boolInt (Bstr.beginsWithMemNocase x y)
      | "index_of" => showIdx (Bstr.indexOfMem x y)
      | "index_of_nocase" => showIdx (Bstr.indexOfMemNocase x y)
      | "index_of_nocasenorzero" => showIdx (Bstr.indexOfMemNocaseNorzero x y)
      | "add" => hexOfBytes (x ++ y)
      | _ => "bad-op"
    | _, _ => "bad-op"
  | ["add_noex", cap, a, b] =>
    match cap.toNat?, bytesOfHex a, bytesOfHex b with
    | some c, some x, some y => if c < x.length then "bad-op" else hexOfBytes (Bstr.addMemNoex c x y)
    | _, _, _ => "bad-op"
  | [fn, a] =>
    match bytesOfHex a with
    | some x =>
      match fn with
      | "to_lowercase" => hexOfBytes (Bstr.toLowercase x)
      | "trim" => hexOfBytes (Bstr.memTrim x)
      | "chop" => hexOfBytes (Bstr.chop x)
      | _ => "bad-op"
    | none => "bad-op"
  | _ => "bad-op"

def numOp : List String → String
  | ["pint", base, a] => match base.toNat?, bytesOfHex a with
    | some b, some x => let (r, l) := Bstr.memToPint x b; s!"{r} {l}"
    | _, _ => "bad-op"
  | ["ppiw", base, a] => match base.toNat?, bytesOfHex a with
    | some b, some x => toString (Num.parsePositiveIntegerWhitespace x b)
    | _, _ => "bad-op"
  | ["cl", a] => match bytesOfHex a with
    | some x => toString (Num.parseContentLength x)
    | none => "bad-op"
  | ["chunked", a] => match bytesOfHex a with
    | some x => let (r, e) := Num.parseChunkedLength x; s!"{r} {boolInt e}"
    | none => "bad-op"
  | ["status", a] => match bytesOfHex a with
    | some x => toString (Htp.Parse.parseStatus x)
    | none => "bad-op"
  | ["port", a] => match bytesOfHex a with
    | some x => let (p, i) := Num.parsePort x; s!"{p} {boolInt i}"
    | none => "bad-op"
  | _ => "bad-op"

end Driver
