/- Line-protocol handlers for the secondary streaming parsers (urlenc, mpart). -/
import HtpModel.Urlenc

namespace Driver
open Htp

/-- chunk list syntax: `!` = no chunk at all; otherwise hex chunks separated by `|` ("-" = empty chunk) -/
def chunksOfString (s : String) : Option (List Bytes) :=
  if s == "!" then some [] else
  (s.splitOn "|").mapM bytesOfHex

def showPairs (ps : List (Bytes × Bytes)) : String :=
  ",".intercalate (ps.map fun (n, v) => s!"{hexOfBytes n}={hexOfBytes v}")

def urlencOp : List String → String
  | [spec, chunks] =>
    match cfgOfSpec spec, chunksOfString chunks with
    | some cfg, some cs =>
      let (ps, f, st) := Urlenc.run cfg.urlencCfg cs
      s!"n={ps.length} [{showPairs ps}] flags={f} status={st}"
    | _, _ => "bad-op"
  | _ => "bad-op"

end Driver
