import HtpModel.Basic
import HtpModel.Prim.Ring
import HtpModel.Prim.Bstr
import HtpModel.Prim.Table
import HtpModel.Prim.Num
import HtpModel.Lemmas.Ring
