/- Basic vocabulary shared by every model file. Core Lean only (the driver links this). -/
import HtpModel.Gen.Tables

namespace Htp

abbrev Bytes := List UInt8

/-- C `int` view of an optional byte: `-1` when absent (IN_PEEK_NEXT & friends). -/
abbrev Peek := Option UInt8

def CR : UInt8 := 13
def LF : UInt8 := 10

@[inline] def hasFlag (flags bit : Nat) : Bool := flags &&& bit != 0
@[inline] def setFlag (flags bit : Nat) : Nat := flags ||| bit

def hexDigit (n : Nat) : Char :=
  if n < 10 then Char.ofNat (48 + n) else Char.ofNat (87 + n)

def hexOfBytes (b : Bytes) : String :=
  if b.isEmpty then "-" else
  String.ofList (b.foldr (fun c acc => hexDigit (c.toNat / 16) :: hexDigit (c.toNat % 16) :: acc) [])

def hexOfOpt : Option Bytes → String
  | none => "~"
  | some b => hexOfBytes b

def hexVal (c : Char) : Option Nat :=
  if '0' ≤ c ∧ c ≤ '9' then some (c.toNat - 48)
  else if 'a' ≤ c ∧ c ≤ 'f' then some (c.toNat - 87)
  else if 'A' ≤ c ∧ c ≤ 'F' then some (c.toNat - 55)
  else none

def bytesOfHexAux : List Char → Bytes → Option Bytes
  | [], acc => some acc.reverse
  | [_], _ => none
  | a :: b :: rest, acc =>
    match hexVal a, hexVal b with
    | some x, some y => bytesOfHexAux rest (UInt8.ofNat (x * 16 + y) :: acc)
    | _, _ => none

/-- "-" is the empty string; otherwise an even number of hex digits. -/
def bytesOfHex (s : String) : Option Bytes :=
  if s == "-" then some [] else bytesOfHexAux s.toList []

/-- "~" is NULL. -/
def optBytesOfHex (s : String) : Option (Option Bytes) :=
  if s == "~" then some none else (bytesOfHex s).map some

def strBytes (s : String) : Bytes := s.toUTF8.toList

open Lean in
/-- `b!"abc"` : the bytes of a string literal as a literal `List UInt8` (kernel-reducible, unlike `strBytes`) -/
macro "b!" s:str : term => do
  let bytes := s.getString.toUTF8.toList
  let elems : Array (TSyntax `term) ← bytes.toArray.mapM (fun b => `(($(quote b.toNat) : UInt8)))
  `(([$elems,*] : List UInt8))

/-- quantifier lifting used by the `decide`-style table lemmas (pattern P5) -/
theorem forall_uint8_of_lt (P : UInt8 → Prop) (h : ∀ n, n < 256 → P (UInt8.ofNat n)) : ∀ c, P c := by
  intro c
  have := h c.toNat (UInt8.toNat_lt c)
  simpa using this

end Htp
