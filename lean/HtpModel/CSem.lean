/- A small semantics for the C subset that the control-flow translator (extract/ctrans.py) understands. The translator prints each selected
   C function of the CURRENT /repo sources as a term built from these combinators (`HtpModel/Gen/CFuns.lean`, regenerated on every run);
   `Lemmas/CFuns*.lean` then proves each translated function equal to the hand-written model / its specification for ALL inputs, so a
   change to one of those functions in /repo changes the term and breaks a named proof.

   Conventions
   * every integer is an `Int`; a store into a variable of C type T (initialisation, assignment, increment, decrement, compound assignment, an explicit
     or implicit integral cast, a return) goes through the wrap function of T (two's complement, as gcc/clang define the conversion), so
     a value that does not fit shows up as a wrong result and not as an unbounded number
   * a read `p[i]` outside the array the caller handed in is `none` (undefined behaviour); so is running out of loop fuel; a theorem
     `f ... = some v` therefore also says: no out-of-bounds read, and the loops finish within the fuel given
   * byte arrays handed in are immutable (`Bytes`); `p + k` handed to a callee is `p.drop k`
   * `&&`, `||` and `?:` evaluate lazily (the right operand of `i < len && p[i] == c` is not read when the left one is false) -/
import HtpModel.Basic
namespace Htp.CSem
open Htp.Gen

/-- how a statement ends -/
inductive Ctl (σ : Type) where
  | next (s : σ)
  | brk (s : σ)
  | cont (s : σ)
  | ret (s : σ) (r : Int)

abbrev Stmt (σ : Type) := σ → Option (Ctl σ)

/-- `p[i]` for a byte pointer: `none` outside the array -/
def rd (d : Bytes) (i : Int) : Option Int :=
  if i < 0 then none else (d[i.toNat]?).map (fun b => (b.toNat : Int))

/-- a mutable array (the content of a buffer the function writes to): read and write, `none` outside it -/
def rdM (m : List Int) (i : Int) : Option Int :=
  if i < 0 then none else m[i.toNat]?
def wrM (m : List Int) (i v : Int) : Option (List Int) :=
  if i < 0 then none else if i.toNat < m.length then some (m.set i.toNat v) else none

/-- `realloc(m, n * sizeof T)` when it succeeds: the first min(|m|, n) elements are kept, new ones are indeterminate (0 here; the
    translated functions never read them before writing) -/
def resizeM (m : List Int) (n : Nat) : List Int := m.take n ++ List.replicate (n - m.length) 0
/-- `memcpy(dst + doff, src + soff, n * sizeof T)` between two different blocks: `none` when either range leaves its block -/
def memcpyM (dst : List Int) (doff : Int) (src : List Int) (soff n : Int) : Option (List Int) :=
  if doff < 0 ∨ soff < 0 ∨ n < 0 then none
  else if soff.toNat + n.toNat ≤ src.length ∧ doff.toNat + n.toNat ≤ dst.length then
    some (dst.take doff.toNat ++ (src.drop soff.toNat).take n.toNat ++ dst.drop (doff.toNat + n.toNat))
  else none

/-- a read of a file-scope constant table of the library (the table itself is tabulated and pinned, Gen/Tables.lean) -/
def rdT (t : List Nat) (i : Int) : Option Int :=
  if i < 0 then none else (t[i.toNat]?).map (fun v => (v : Int))

/-- bit operators on non-negative values (the translated functions apply them to unsigned operands only) -/
def bandI (a b : Int) : Int := ((a.toNat &&& b.toNat : Nat) : Int)
def borI (a b : Int) : Int := ((a.toNat ||| b.toNat : Nat) : Int)
def shlI (a k : Int) : Int := ((a.toNat <<< k.toNat : Nat) : Int)
def shrI (a k : Int) : Int := ((a.toNat >>> k.toNat : Nat) : Int)

/-- `memcpy(dst + doff, src + soff, n)` from an immutable byte array into a buffer the function owns -/
def memcpyB (dst : List Int) (doff : Int) (src : Bytes) (soff n : Int) : Option (List Int) :=
  if doff < 0 ∨ soff < 0 ∨ n < 0 then none
  else if soff.toNat + n.toNat ≤ src.length ∧ doff.toNat + n.toNat ≤ dst.length then
    some (dst.take doff.toNat ++ ((src.drop soff.toNat).take n.toNat).map (fun b => (b.toNat : Int)) ++ dst.drop (doff.toNat + n.toNat))
  else none

/-- the bytes of a buffer as the values a C program reads -/
def memOf (b : Bytes) : List Int := b.map (fun x => (x.toNat : Int))

/-! conversions to the C integer types (two's complement) -/
def u8 (v : Int) : Int := v % 256
def u32 (v : Int) : Int := v % 4294967296
def u64 (v : Int) : Int := v % 18446744073709551616
def i32 (v : Int) : Int := (v + 2147483648) % 4294967296 - 2147483648
def i64 (v : Int) : Int := (v + 9223372036854775808) % 18446744073709551616 - 9223372036854775808

theorem u64_id {v : Int} (h0 : 0 ≤ v) (h1 : v < 18446744073709551616) : u64 v = v := by unfold u64; omega
theorem u32_id {v : Int} (h0 : 0 ≤ v) (h1 : v < 4294967296) : u32 v = v := by unfold u32; omega
theorem u8_id {v : Int} (h0 : 0 ≤ v) (h1 : v < 256) : u8 v = v := by unfold u8; omega
theorem i32_id {v : Int} (h0 : -2147483648 ≤ v) (h1 : v < 2147483648) : i32 v = v := by unfold i32; omega
theorem i64_id {v : Int} (h0 : -9223372036854775808 ≤ v) (h1 : v < 9223372036854775808) : i64 v = v := by unfold i64; omega

/-- C truth value of a comparison -/
def b2i (b : Bool) : Int := if b then 1 else 0

/-- lazy `&&` / `||` over possibly undefined operands -/
def andL (a b : Option Bool) : Option Bool :=
  match a with
  | some true => b
  | some false => some false
  | none => none
def orL (a b : Option Bool) : Option Bool :=
  match a with
  | some true => some true
  | some false => b
  | none => none

/-- libc character functions on the `int` value of an unsigned char (the "C" locale tables the translator tabulates) -/
def tolowerI (x : Int) : Int := ((cTolower (UInt8.ofNat x.toNat)).toNat : Int)
def toupperI (x : Int) : Int := ((cToupper (UInt8.ofNat x.toNat)).toNat : Int)
def isspaceI (x : Int) : Int := b2i (cIsspace (UInt8.ofNat x.toNat))
def isdigitI (x : Int) : Int := b2i (cIsdigit (UInt8.ofNat x.toNat))

/-! statements -/
def skipS {σ : Type} : Stmt σ := fun s => some (.next s)
def seqS {σ : Type} (a b : Stmt σ) : Stmt σ := fun s =>
  match a s with
  | some (.next s') => b s'
  | r => r
def iteS {σ : Type} (c : σ → Option Bool) (a b : Stmt σ) : Stmt σ := fun s =>
  match c s with
  | some true => a s
  | some false => b s
  | none => none
def assignS {σ : Type} (f : σ → Option σ) : Stmt σ := fun s => (f s).map Ctl.next
def retS {σ : Type} (e : σ → Option Int) : Stmt σ := fun s => (e s).map (Ctl.ret s)
def brkS {σ : Type} : Stmt σ := fun s => some (.brk s)
def contS {σ : Type} : Stmt σ := fun s => some (.cont s)

/-- `while (c) body` / `for (;c;incr) body`: `incr` also runs after `continue` -/
def whileF {σ : Type} (c : σ → Option Bool) (body incr : Stmt σ) : Nat → Stmt σ
  | 0 => fun _ => none
  | fuel + 1 => fun s =>
    match c s with
    | none => none
    | some false => some (.next s)
    | some true =>
      match body s with
      | some (.next s') | some (.cont s') =>
        (match incr s' with
         | some (.next s'') => whileF c body incr fuel s''
         | r => r)
      | some (.brk s') => some (.next s')
      | r => r

/-- a function body: the value returned and the final state (out-parameters live in the state) -/
def run {σ : Type} (body : Stmt σ) (s : σ) : Option (Int × σ) :=
  match body s with
  | some (.ret s' r) => some (r, s')
  | _ => none

theorem whileF_succ {σ : Type} (c : σ → Option Bool) (body incr : Stmt σ) (fuel : Nat) (s : σ) :
    whileF c body incr (fuel + 1) s =
      (match c s with
       | none => none
       | some false => some (.next s)
       | some true =>
         match body s with
         | some (.next s') | some (.cont s') =>
           (match incr s' with
            | some (.next s'') => whileF c body incr fuel s''
            | r => r)
         | some (.brk s') => some (.next s')
         | r => r) := rfl

/-- the value a statement returns (`none`: it does not return, or is undefined) -/
def retVal {σ : Type} (r : Option (Ctl σ)) : Option Int :=
  match r with
  | some (.ret _ v) => some v
  | _ => none

theorem run_val {σ : Type} (body : Stmt σ) (s : σ) : (run body s).map (·.1) = retVal (body s) := by
  unfold run retVal
  split <;> simp_all

/-! one turn of a loop, by how the body ends -/
theorem whileF_exit {σ : Type} {c : σ → Option Bool} {body incr : Stmt σ} {s : σ} (n : Nat) (hc : c s = some false) :
    whileF c body incr (n + 1) s = some (.next s) := by rw [whileF_succ, hc]
theorem whileF_next {σ : Type} {c : σ → Option Bool} {body incr : Stmt σ} {s s1 s2 : σ} (n : Nat) (hc : c s = some true)
    (hb : body s = some (.next s1)) (hi : incr s1 = some (.next s2)) :
    whileF c body incr (n + 1) s = whileF c body incr n s2 := by rw [whileF_succ, hc]; simp only [hb, hi]
theorem whileF_cont {σ : Type} {c : σ → Option Bool} {body incr : Stmt σ} {s s1 s2 : σ} (n : Nat) (hc : c s = some true)
    (hb : body s = some (.cont s1)) (hi : incr s1 = some (.next s2)) :
    whileF c body incr (n + 1) s = whileF c body incr n s2 := by rw [whileF_succ, hc]; simp only [hb, hi]
theorem whileF_brk {σ : Type} {c : σ → Option Bool} {body incr : Stmt σ} {s s1 : σ} (n : Nat) (hc : c s = some true)
    (hb : body s = some (.brk s1)) :
    whileF c body incr (n + 1) s = some (.next s1) := by rw [whileF_succ, hc]; simp only [hb]
theorem whileF_ret {σ : Type} {c : σ → Option Bool} {body incr : Stmt σ} {s s1 : σ} {r : Int} (n : Nat) (hc : c s = some true)
    (hb : body s = some (.ret s1 r)) :
    whileF c body incr (n + 1) s = some (.ret s1 r) := by rw [whileF_succ, hc]; simp only [hb]

theorem seqS_next {σ : Type} {a b : Stmt σ} {s s1 : σ} (h : a s = some (.next s1)) : seqS a b s = b s1 := by
  unfold seqS; rw [h]
theorem seqS_ret {σ : Type} {a b : Stmt σ} {s s1 : σ} {r : Int} (h : a s = some (.ret s1 r)) : seqS a b s = some (.ret s1 r) := by
  unfold seqS; rw [h]
theorem seqS_brk {σ : Type} {a b : Stmt σ} {s s1 : σ} (h : a s = some (.brk s1)) : seqS a b s = some (.brk s1) := by
  unfold seqS; rw [h]

theorem seqS_congr {σ : Type} {a a' b : Stmt σ} {s s' : σ} (h : a s = a' s') : seqS a b s = seqS a' b s' := by
  unfold seqS; rw [h]

end Htp.CSem
