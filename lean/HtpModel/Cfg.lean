/- The configuration record the model takes as an argument (never a result: C19), and the
   parser for the `cfgspec` strings of the line protocol. -/
import HtpModel.Basic

namespace Htp
open Htp.Gen

structure Cfg where
  personality : Nat := 0
  decoders : List DecoderCfg := personality_MINIMAL
  reqLineNulTerminates : Bool := false     -- apache_2_2 request-line parser
  fieldLimitHard : Nat := FIELD_LIMIT_HARD
  fieldLimitSoft : Nat := FIELD_LIMIT_SOFT
  maxTx : Nat := 0
  txAutoDestroy : Bool := false
  parseRequestCookies : Bool := true
  parseRequestAuth : Bool := true
  responseDecompression : Bool := true
  requestDecompression : Bool := false
  layerLimit : Int := 2
  lzmaLayerLimit : Int := 1
  bombLimit : Int := 1048576
  allowSpaceUri : Bool := false
  lwsUnwanted : Nat := 0                   -- requestline_leading_whitespace_unwanted
  urlencParsers : Bool := false            -- htp_config_register_urlencoded_parser
  multipartParser : Bool := false          -- htp_config_register_multipart_parser
  deriving Repr, Inhabited

def Cfg.dec (c : Cfg) (ctx : Nat) : DecoderCfg := c.decoders.getD ctx {}

def Cfg.pathCfg (c : Cfg) : DecoderCfg := c.dec DECODER_URL_PATH
def Cfg.urlencCfg (c : Cfg) : DecoderCfg := c.dec DECODER_URLENCODED

def personalityByName : String → Option (Nat × List DecoderCfg × Nat × Nat)
  | "MINIMAL" => some (personalityId_MINIMAL, personality_MINIMAL, personality_MINIMAL_reqline, personality_MINIMAL_lws)
  | "GENERIC" => some (personalityId_GENERIC, personality_GENERIC, personality_GENERIC_reqline, personality_GENERIC_lws)
  | "IDS" => some (personalityId_IDS, personality_IDS, personality_IDS_reqline, personality_IDS_lws)
  | "IIS_5_1" => some (personalityId_IIS_5_1, personality_IIS_5_1, personality_IIS_5_1_reqline, personality_IIS_5_1_lws)
  | "IIS_6_0" => some (personalityId_IIS_6_0, personality_IIS_6_0, personality_IIS_6_0_reqline, personality_IIS_6_0_lws)
  | "IIS_7_0" => some (personalityId_IIS_7_0, personality_IIS_7_0, personality_IIS_7_0_reqline, personality_IIS_7_0_lws)
  | "IIS_7_5" => some (personalityId_IIS_7_5, personality_IIS_7_5, personality_IIS_7_5_reqline, personality_IIS_7_5_lws)
  | "APACHE_2" => some (personalityId_APACHE_2, personality_APACHE_2, personality_APACHE_2_reqline, personality_APACHE_2_lws)
  | _ => none

def modifyDec (c : Cfg) (ctx : Nat) (f : DecoderCfg → DecoderCfg) : Cfg :=
  { c with decoders := c.decoders.mapIdx (fun i d => if i = ctx then f d else d) }

/-- apply one `key=value`; `ctx` is the decoder context the decoder keys address -/
def applyKey (c : Cfg) (ctx : Nat) (k : String) (v : Nat) : Option Cfg :=
  let b := v != 0
  match k with
  | "bs" => some (modifyDec c ctx fun d => { d with backslashConvertSlashes := b })
  | "lc" => some (modifyDec c ctx fun d => { d with convertLowercase := b })
  | "comp" => some (modifyDec c ctx fun d => { d with pathSeparatorsCompress := b })
  | "sepdec" => some (modifyDec c ctx fun d => { d with pathSeparatorsDecode := b })
  | "plus" => some (modifyDec c ctx fun d => { d with plusspaceDecode := b })
  | "sepunw" => some (modifyDec c ctx fun d => { d with pathSeparatorsEncodedUnwanted := v })
  | "nrt" => some (modifyDec c ctx fun d => { d with nulRawTerminates := b })
  | "nru" => some (modifyDec c ctx fun d => { d with nulRawUnwanted := v })
  | "udec" => some (modifyDec c ctx fun d => { d with uEncodingDecode := b })
  | "uunw" => some (modifyDec c ctx fun d => { d with uEncodingUnwanted := v })
  | "inv" => if v < 3 then some (modifyDec c ctx fun d => { d with urlEncodingInvalidHandling := v }) else none
  | "invunw" => some (modifyDec c ctx fun d => { d with urlEncodingInvalidUnwanted := v })
  | "net" => some (modifyDec c ctx fun d => { d with nulEncodedTerminates := b })
  | "neu" => some (modifyDec c ctx fun d => { d with nulEncodedUnwanted := v })
  | "u8unw" => some (modifyDec c ctx fun d => { d with utf8InvalidUnwanted := v })
  | "u8best" => some (modifyDec c ctx fun d => { d with utf8ConvertBestfit := b })
  | "repl" => if v < 256 then some (modifyDec c ctx fun d => { d with bestfitReplacementByte := v }) else none
  | "hard" => some { c with fieldLimitHard := v }
  | "soft" => some { c with fieldLimitSoft := v }
  | "maxtx" => some { c with maxTx := v }
  | "autodestroy" => some { c with txAutoDestroy := b }
  | "cookies" => some { c with parseRequestCookies := b }
  | "auth" => some { c with parseRequestAuth := b }
  | "respdecomp" => some { c with responseDecompression := b }
  | "reqdecomp" => some { c with requestDecompression := b }
  | "layers" => some { c with layerLimit := v }
  | "lzmalayers" => some { c with lzmaLayerLimit := v }
  | "bomb" => some { c with bombLimit := v }
  | "ztime" => some c                      -- compression time limit: the time-based check is outside the model
  | "spaceuri" => some { c with allowSpaceUri := b }
  | "lws" => some { c with lwsUnwanted := v }
  | "log" => some c                        -- log level: no effect on anything the model reports
  | "urlenc" => some { c with urlencParsers := b }
  | "mpart" => some { c with multipartParser := b }
  | _ => none

/-- `p=IDS,ctx=2,bs=1,…` ; "-" = all defaults. Keys are applied left to right. -/
def cfgOfSpec (spec : String) : Option Cfg := Id.run do
  if spec == "-" then return some {}
  let mut c : Cfg := {}
  let mut ctx : Nat := DECODER_URL_PATH
  for kv in spec.splitOn "," do
    match kv.splitOn "=" with
    | ["p", name] =>
      match personalityByName name with
      | some (pid, decs, rl, lws) =>
        c := { c with personality := pid, decoders := decs, reqLineNulTerminates := rl == 1, lwsUnwanted := lws }
      | none => return none
    | ["ctx", n] =>
      match n.toNat? with
      | some k => if k < 3 then ctx := k else return none
      | none => return none
    | [k, v] =>
      match v.toNat? with
      | some n =>
        match applyKey c ctx k n with
        | some c' => c := c'
        | none => return none
      | none => return none
    | _ => return none
  return some c

end Htp
