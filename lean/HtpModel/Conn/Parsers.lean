/- Line-level parsers used by the two connection state machines: chomp, line predicates, request line,
   header lines, status line, protocol/status numbers, token search, content type, cookies, credentials. -/
import HtpModel.Cfg
import HtpModel.Prim.Num
import HtpModel.Prim.Bstr
import HtpModel.Util.Uri

namespace Htp.Parse
open Htp.Gen

/-- htp_chomp: (new data, return value 0/1/2) -/
def chompLoop : Nat → Bytes → Nat → Bytes × Nat
  | 0, rev, r => (rev, r)
  | fuel + 1, rev, r =>
    match rev with
    | [] => (rev, r)
    | c :: rest =>
      if c == LF then
        match rest with
        | [] => ([], 1)
        | d :: rest2 => if d == CR then chompLoop fuel rest2 2 else chompLoop fuel rest 1
      else if c == CR then chompLoop fuel rest 1
      else (rev, r)

def chomp (data : Bytes) : Bytes × Nat :=
  let (rev, r) := chompLoop (data.length + 1) data.reverse 0
  (rev.reverse, r)

/-- htp_is_line_empty -/
def isLineEmpty (d : Bytes) : Bool := d == [CR] || d == [LF] || d == [CR, LF]

/-- htp_is_line_whitespace -/
def isLineWhitespace (d : Bytes) : Bool := d.all cIsspace

/-- htp_connp_is_line_terminator -/
def isLineTerminator (cfg : Cfg) (d : Bytes) (nextNoLf : Bool) : Bool :=
  if cfg.personality == personalityId_IIS_5_1 && isLineWhitespace d then true
  else if isLineEmpty d then true
  else match d with
    | [a, b] => if isLws a && b == LF then nextNoLf else false
    | _ => false

def isLineIgnorable (cfg : Cfg) (d : Bytes) : Bool := isLineTerminator cfg d false

/-- htp_connp_is_line_folded: -1 (none) for empty, else folding-char test of the first byte -/
def isLineFolded (d : Bytes) : Option Bool :=
  match d with
  | [] => none
  | c :: _ => some (isFoldingChar c)

/-- htp_convert_method_to_number over the generated method table -/
def methodNumber (m : Bytes) : Nat :=
  match methodTableBytes.find? (fun (n, _) => n == m) with
  | some (_, k) => k
  | none => methodUnknown

/-- htp_parse_protocol -/
def parseProtocol (p : Bytes) : Int :=
  match p with
  | [0x48, 0x54, 0x54, 0x50, 0x2f, a, 0x2e, b] =>
    if a == 0x30 then (if b == 0x39 then PROTOCOL_0_9 else PROTOCOL_INVALID)
    else if a == 0x31 then (if b == 0x30 then PROTOCOL_1_0 else if b == 0x31 then PROTOCOL_1_1 else PROTOCOL_INVALID)
    else PROTOCOL_INVALID
  | _ => PROTOCOL_INVALID

/-- htp_parse_status: HTP_STATUS_INVALID = -1 -/
def parseStatus (s : Bytes) : Int :=
  let r := Num.parsePositiveIntegerWhitespace s 10
  if r ≥ VALID_STATUS_MIN ∧ r ≤ VALID_STATUS_MAX then r else -1

structure ReqLine where
  method : Bytes := []
  methodNumber : Nat := 0
  uri : Option Bytes := none
  protocol : Option Bytes := none
  protocolNumber : Int := PROTOCOL_UNKNOWN
  is09 : Bool := false
  expectedStatus : Option Int := none     -- set when leading whitespace is unwanted
  deriving Repr, DecidableEq, Inhabited

/-- index of the first position ≥ `from` in `d` whose byte satisfies `p` (or d.length) -/
def scanFwd (p : UInt8 → Bool) (d : Bytes) (frm : Nat) : Nat :=
  frm + ((d.drop frm).takeWhile (fun c => !p c)).length

/-- `while (pos > start && p data[pos]) pos--` -/
def scanBack (p : UInt8 → Bool) (d : Bytes) (start : Nat) : Nat → Nat
  | 0 => 0
  | pos + 1 => if pos + 1 > start && p (d.getD (pos + 1) 0) then scanBack p d start pos else pos + 1

/-- htp_parse_request_line_generic_ex -/
def parseRequestLine (cfg : Cfg) (line : Bytes) : ReqLine :=
  let data := if cfg.reqLineNulTerminates then line.takeWhile (· != 0) else line
  let len := data.length
  let pos := scanFwd (fun c => !isSpace c) data 0
  let (mstart, expSt) : Nat × Option Int :=
    if pos != 0 then
      if cfg.lwsUnwanted != UNWANTED_IGNORE then (0, some (cfg.lwsUnwanted : Int)) else (pos, none)
    else (0, none)
  let pos := scanFwd isSpace data pos
  let method := (data.drop mstart).take (pos - mstart)
  let mnum := methodNumber method
  let pos := scanFwd (fun c => !cIsspace c) data pos
  let r : ReqLine := { method := method, methodNumber := mnum, expectedStatus := expSt }
  if pos == len then { r with is09 := true, protocolNumber := PROTOCOL_0_9 } else
  let start := pos
  let uriEnd : Nat :=
    if cfg.allowSpaceUri then
      let p1 := scanBack isSpace data start (len - 1)
      -- "The URI ends with the last whitespace": walk back to a 0x20, noting other whitespace
      let p2 := scanBack (fun c => c != 0x20) data start p1
      let badDelim := ((data.drop (p2 + 1)).take (p1 - p2)).any (fun c => isSpace c)
      let badDelim := badDelim && p2 < p1
      if badDelim && p2 == start then
        let p3 := scanBack (fun c => !isSpace c) data start (len - 1)
        p3
      else
        let bad2 := ((data.drop start).take (p2 - start)).any (fun c => c != 0x20 && isSpace c)
        if bad2 then p2 else if p2 == start then len else p2
    else
      let p1 := scanFwd (fun c => c == 0x20) data pos
      let badDelim := ((data.drop pos).take (p1 - pos)).any isSpace
      if badDelim && p1 == len then scanFwd isSpace data start else p1
  let uri := (data.drop start).take (uriEnd - start)
  let pos := scanFwd (fun c => !isSpace c) data uriEnd
  let r := { r with uri := some uri }
  if pos == len then { r with is09 := true, protocolNumber := PROTOCOL_0_9 } else
  let proto := data.drop pos
  { r with protocol := some proto, protocolNumber := parseProtocol proto }

structure Header where
  name : Bytes
  value : Bytes
  flags : Nat := 0
  deriving Repr, DecidableEq, Inhabited

/-- `while (prev > lo && p data[prev-1]) prev--` : number of trailing bytes of data[lo..hi) satisfying p -/
def trailCount (p : UInt8 → Bool) (d : Bytes) (lo hi : Nat) : Nat :=
  (((d.take hi).drop lo).reverse.takeWhile p).length

/-- htp_parse_request_header_generic: (header, tx flags to OR in) -/
def parseRequestHeader (data0 : Bytes) : Header × Nat :=
  let data := (chomp data0).1
  let len := data.length
  let colon := (data.takeWhile (fun c => c != 0 && c != 0x3a)).length
  if colon == len || data.getD colon 0 == 0 then
    ({ name := [], value := data, flags := FIELD_UNPARSEABLE }, FIELD_UNPARSEABLE)
  else
    let hf := if colon == 0 then FIELD_INVALID else 0
    let t := trailCount isLws data 0 colon
    let nameEnd := colon - t
    let hf := if t > 0 then setFlag hf FIELD_INVALID else hf
    let vstart0 := if colon < len then colon + 1 else colon
    let vstart := scanFwd (fun c => !isLws c) data vstart0
    -- prev = value_end - 1; while (prev > value_start && lws(data[prev])) : never removes data[value_start]
    let tv := if len - 1 > vstart then
        (((data.take len).drop (vstart + 1)).reverse.takeWhile isLws).length else 0
    let vend := len - tv
    let name := data.take nameEnd
    let hf := if name.all isToken then hf else setFlag hf FIELD_INVALID
    ({ name := name, value := (data.take vend).drop vstart, flags := hf }, hf)

/-- htp_parse_response_header_generic: (header, tx flags to OR in). `len = 0` makes the C code read
    data[SIZE_MAX] (finding S11); the model returns the value the code computes when that byte is not LWS. -/
def parseResponseHeader (data0 : Bytes) : Header × Nat :=
  let data := (chomp data0).1
  let len := data.length
  let colon := (data.takeWhile (fun c => c != 0x3a)).length
  let (nameEnd, vstart0, hf) : Nat × Nat × Nat :=
    if colon == len then (0, 0, FIELD_UNPARSEABLE ||| FIELD_INVALID)
    else
      let hf := if colon == 0 then FIELD_INVALID else 0
      let t := trailCount isSpace data 0 colon
      (colon - t, colon + 1, if t > 0 then setFlag hf FIELD_INVALID else hf)
  let vstart := scanFwd (fun c => !isLws c) data vstart0
  let name := data.take nameEnd
  let hf := if name.all isToken then hf else setFlag hf FIELD_INVALID
  let tv := if len - 1 > vstart then
      (((data.take len).drop (vstart + 1)).reverse.takeWhile isLws).length else 0
  let vend := len - tv
  ({ name := name, value := (data.take vend).drop vstart, flags := hf }, hf)

structure ResLine where
  protocol : Option Bytes := none
  protocolNumber : Int := PROTOCOL_INVALID
  status : Option Bytes := none
  statusNumber : Int := -1
  message : Option Bytes := none
  deriving Repr, DecidableEq, Inhabited

/-- htp_parse_response_line_generic -/
def parseResponseLine (data : Bytes) : ResLine :=
  let len := data.length
  let p0 := scanFwd (fun c => !isSpace c) data 0
  let p1 := scanFwd isSpace data p0
  if p1 - p0 == 0 then {} else
  let proto := (data.drop p0).take (p1 - p0)
  let r : ResLine := { protocol := some proto, protocolNumber := parseProtocol proto }
  let p2 := scanFwd (fun c => !isSpace c) data p1
  if p2 == len then r else
  let p3 := scanFwd isSpace data p2
  if p3 - p2 == 0 then r else
  let st := (data.drop p2).take (p3 - p2)
  let r := { r with status := some st, statusNumber := parseStatus st }
  let p4 := scanFwd (fun c => !cIsspace c) data p3
  if p4 == len then r else { r with message := some (data.drop p4) }

/-- htp_treat_response_line_as_body (data non-NULL) -/
def treatResponseLineAsBody (data : Bytes) : Bool :=
  let rest := data.dropWhile (fun c => isSpace c || c == 0)
  match rest with
  | a :: b :: c :: d :: _ =>
    !((a == 0x48 || a == 0x68) && (b == 0x54 || b == 0x74) && (c == 0x54 || c == 0x74) && (d == 0x50 || d == 0x70))
  | _ => true

/-- htp_header_has_token: state machine over the header value; `tok` lower-case, non-empty -/
def hasTokenLoop (tok : Bytes) : Bytes → (state : Nat) → (voff : Nat) → Bool
  | [], state, _ => state == 2
  | c :: rest, state, voff =>
    let wait (c : UInt8) : Bool := hasTokenLoop tok rest (if c == 0x2c then 0 else 1) 0
    match state with
    | 0 =>
      if voff == 0 && isSpace c then hasTokenLoop tok rest 0 0
      else if some (cTolower c) == tok[voff]? then
        if voff + 1 == tok.length then hasTokenLoop tok rest 2 (voff + 1)
        else hasTokenLoop tok rest 0 (voff + 1)
      else wait c
    | 1 => wait c
    | _ =>
      if c == 0x2c then true
      else if !isSpace c then hasTokenLoop tok rest 1 0
      else hasTokenLoop tok rest 2 voff

def headerHasToken (value tok : Bytes) : Bool := hasTokenLoop tok value 0 0

/-- htp_parse_ct_header -/
def parseCtHeader (v : Bytes) : Bytes :=
  Bstr.toLowercase (v.takeWhile (fun c => c != 0x3b && c != 0x2c && c != 0x20))

/-- htp_parse_cookies_v0 on the Cookie header value: (name, value) pairs in order -/
def cookiesLoop : Nat → Bytes → List (Bytes × Bytes) → List (Bytes × Bytes)
  | 0, _, acc => acc.reverse
  | fuel + 1, d, acc =>
    let d := d.dropWhile cIsspace
    match d with
    | [] => acc.reverse
    | _ =>
      let item := d.takeWhile (· != 0x3b)
      let rest := (d.drop item.length).drop 1
      let name := item.takeWhile (· != 0x3d)
      let acc := if name.length == 0 then acc
                 else (name, (item.drop name.length).drop 1) :: acc
      cookiesLoop fuel rest acc

def parseCookies (v : Bytes) : List (Bytes × Bytes) := cookiesLoop (v.length + 1) v []

/-- htp_base64_decode_single over the generated table (argument as signed char) -/
def b64Single (c : UInt8) : Int :=
  let idx := if c.toNat < 128 then c.toNat + 128 else c.toNat - 128
  base64Single.getD idx (-1)

/-- htp_base64_decode with output capacity `cap`: the four-step loop; fragments < 0 are skipped -/
def b64Loop : Bytes → (step : Nat) → (cur : Nat) → (out : Bytes) → (cap : Nat) → Bytes
  | [], _, _, out, _ => out.reverse
  | c :: rest, step, cur, out, cap =>
    let f := b64Single c
    if f < 0 then b64Loop rest step cur out cap else
    let f := f.toNat
    match step with
    | 0 => b64Loop rest 1 ((f &&& 0x3f) <<< 2 % 256) out cap
    | 1 =>
      let out := UInt8.ofNat (cur ||| ((f &&& 0x30) >>> 4)) :: out
      if cap - 1 == 0 then out.reverse else b64Loop rest 2 (((f &&& 0x0f) <<< 4) % 256) out (cap - 1)
    | 2 =>
      let out := UInt8.ofNat (cur ||| ((f &&& 0x3c) >>> 2)) :: out
      if cap - 1 == 0 then out.reverse else b64Loop rest 3 (((f &&& 0x03) <<< 6) % 256) out (cap - 1)
    | _ =>
      let out := UInt8.ofNat (cur ||| (f &&& 0x3f)) :: out
      if cap - 1 == 0 then out.reverse else b64Loop rest 0 0 out (cap - 1)

/-- htp_base64_decode_mem: NULL when nothing was decoded -/
def base64DecodeMem (d : Bytes) : Option Bytes :=
  if d.length == 0 then none else
  let o := b64Loop d 0 0 [] d.length
  if o.length > 0 then some o else none

/-- htp_extract_quoted_string_as_bstr: none = DECLINED -/
def quotedScan : Bytes → (skip : Bool) → (escaped : Nat) → (pos : Nat) → Option (Nat × Nat)
  | [], _, _, _ => none
  | c :: rest, skip, esc, pos =>
    if skip then quotedScan rest false esc (pos + 1)
    else if c == 0x5c then
      (if rest.isEmpty then quotedScan rest false esc (pos + 1) else quotedScan rest true (esc + 1) (pos + 1))
    else if c == 0x22 then some (pos, esc)
    else quotedScan rest false esc (pos + 1)

def quotedCopy : Bytes → (skip : Bool) → (n : Nat) → Bytes → Bytes
  | [], _, _, acc => acc.reverse
  | c :: rest, skip, n, acc =>
    if n == 0 then acc.reverse
    else if skip then quotedCopy rest false n acc
    else if c == 0x5c then
      match rest with
      | d :: _ => quotedCopy rest true (n - 1) (d :: acc)
      | [] => quotedCopy rest false (n - 1) (c :: acc)
    else if c == 0x22 then acc.reverse
    else quotedCopy rest false (n - 1) (c :: acc)

def extractQuotedString (d : Bytes) : Option Bytes :=
  match d with
  | 0x22 :: rest =>
    if rest.length == 0 then none else
    match quotedScan rest false 0 1 with
    | none => none
    | some (pos, esc) =>
      let outlen := pos - 1 - esc
      let o := quotedCopy rest false outlen []
      -- bstr_adjust_len(out, outlen): bytes not written are whatever malloc returned; the copy loop
      -- always writes exactly outlen bytes when the closing quote exists
      some o
  | _ => none

inductive AuthResult where
  | ok (type : Nat) (user pass : Option Bytes)
  | declined (type : Nat)
  deriving Repr, DecidableEq, Inhabited

/-- htp_parse_authorization on the Authorization header value (allocation succeeds) -/
def parseAuthorization (v : Bytes) : AuthResult :=
  if Bstr.beginsWithMemNocase v (b!"basic") then
    let rest := (v.drop 5).dropWhile cIsspace
    if rest.length == 0 then .declined 2 else
    match base64DecodeMem rest with
    | none => .declined 102     -- type 2 + HTP_ERROR (decoded == NULL): handled by the caller as an error
    | some dec =>
      match Bstr.indexOfMem dec [0x3a] with
      | none => .declined 2
      | some i => .ok 2 (some (dec.take i)) (some (dec.drop (i + 1)))
  else if Bstr.beginsWithMemNocase v (b!"digest") then
    match Bstr.indexOfMem v (b!"username=") with
    | none => .declined 3
    | some i =>
      let rest := (v.drop (i + 9)).dropWhile cIsspace
      match rest with
      | [] => .declined 3
      | c :: _ =>
        if c != 0x22 then .declined 3 else
        match extractQuotedString rest with
        | some u => .ok 3 (some u) none
        | none => .declined 3
  else if Bstr.beginsWithMemNocase v (b!"bearer") then
    let rest := (v.drop 6).dropWhile cIsspace
    if rest.length == 0 then .declined 4 else .ok 4 none none
  else .ok 9 none none

end Htp.Parse
