/- htp_request.c: the request-direction state functions and the driver htp_connp_req_data. -/
import HtpModel.Conn.TxState

namespace Htp.Conn
open Htp.Gen Htp.Parse

/-- byte at the read offset, if any (the IN_PEEK_NEXT family) -/
def Dir.peek (d : Dir) : Option UInt8 :=
  if d.read ≥ d.len then none else d.cur[d.read.toNat]?

/-- IN_PEEK_NEXT: also records in_next_byte (-1 when there is none) -/
def Dir.peekSet (d : Dir) : Dir × Option UInt8 :=
  let p := d.peek
  ({ d with nextByte := match p with | some b => (b.toNat : Int) | none => -1 }, p)

/-- IN_COPY_BYTE_OR_RETURN: none = no byte (caller returns HTP_DATA_BUFFER) -/
def Dir.copyByte (d : Dir) : Option (Dir × UInt8) :=
  if d.read < d.len then
    match d.cur[d.read.toNat]? with
    | some b => some ({ d with nextByte := b.toNat, read := d.read + 1 }, b)
    | none => some ({ d with nextByte := 0, read := d.read + 1 }, 0)   -- gap: NULL data (guarded by the driver)
  else none

/-- IN_NEXT_BYTE_OR_RETURN: also advances the consume offset -/
def Dir.nextByteConsume (d : Dir) : Option (Dir × UInt8) :=
  match d.copyByte with
  | some (d', b) => some ({ d' with consume := d'.consume + 1 }, b)
  | none => none

/-- htp_connp_req_buffer / htp_connp_res_buffer. `skipEmpty` = the request side's `if (len == 0) return`.
    Returns none on HTP_ERROR (hard limit). -/
def Dir.buffer (d : Dir) (hard : Nat) (skipEmpty : Bool) : Option Dir :=
  if d.curNull then some d else
  let len := sizeOfInt (d.read - d.consume)
  if skipEmpty && len == 0 then some d else
  let newlen := (d.buf.map (·.length)).getD 0 + len + (d.header.map (·.length)).getD 0
  if newlen > hard then none else
  let piece := sliceCur d d.consume d.read
  some { d with buf := some ((d.buf.getD []) ++ piece), consume := d.read }

/-- htp_connp_req_consolidate_data: (dir, data); none = HTP_ERROR -/
def Dir.consolidate (d : Dir) (hard : Nat) (skipEmpty : Bool) : Option (Dir × Bytes) :=
  match d.buf with
  | none => some (d, sliceCur d d.consume d.read)
  | some _ =>
    match d.buffer hard skipEmpty with
    | none => none
    | some d' => some (d', d'.buf.getD [])

/-- htp_connp_req_clear_buffer -/
def Dir.clearBuffer (d : Dir) : Dir := { d with consume := d.read, buf := none }

/-- consume `n` body bytes from the chunk -/
def Dir.advance (d : Dir) (n : Int) : Dir := { d with read := d.read + n, consume := d.consume + n }

section
variable (cfg : Cfg)

/-- htp_connp_REQ_IDLE -/
def reqIdle (c : Conn) : R :=
  if c.inn.read ≥ c.inn.len then (c, .data) else
  let (c, u) := txCreate cfg c
  match u with
  | none => ({ c with inn := { c.inn with tx := none } }, .error)    -- connp->in_tx = NULL
  | some uid =>
    -- htp_tx_state_request_start; its answer is REQ_IDLE's answer (S45, repaired: the return value used to be ignored, so a REQUEST_START
    -- callback answering STOP or ERROR left the parser in REQ_IDLE and the loop created one transaction after the other)
    let (c, rc) := txStateRequestStart uid c
    (c, rc)

/-- htp_connp_REQ_LINE_complete -/
def reqLineComplete (c : Conn) : R :=
  match c.inn.consolidate cfg.fieldLimitHard true with
  | none => (c, .error)
  | some (d, data) =>
    let c := { c with inn := d }
    if data.length == 0 then ({ c with inn := c.inn.clearBuffer }, .data) else
    if isLineIgnorable cfg data then
      let c := c.modIn (fun t => { t with reqIgnoredLines := t.reqIgnoredLines + 1 })
      ({ c with inn := c.inn.clearBuffer }, .ok)
    else
      let line := (chomp data).1
      let rl := parseRequestLine cfg line
      let c := c.modIn (fun t => { t with reqLine := some line, method := some rl.method, methodNumber := rl.methodNumber,
                                          uri := rl.uri, protocol := rl.protocol,
                                          protocolNumber := rl.protocolNumber,
                                          is09 := rl.is09,
                                          expectedStatus := match rl.expectedStatus with | some s => s | none => t.expectedStatus })
      match c.inn.tx with
      | none => (c, .error)
      | some uid =>
        let (c, rc) := txStateRequestLine cfg uid c
        if rc != .ok then (c, .error) else
        ({ c with inn := c.inn.clearBuffer }, .ok)

/-- htp_connp_REQ_LINE -/
def reqLineLoop : Nat → Conn → R
  | 0, c => (c, .error)
  | fuel + 1, c =>
    let (d0, nb) := c.inn.peekSet
    let c := { c with inn := d0 }
    if c.inn.status == STREAM_CLOSED && nb.isNone then reqLineComplete cfg c else
    match c.inn.copyByte with
    | none => (c, .dataBuffer)
    | some (d, b) =>
      let c := { c with inn := d }
      if b == LF then reqLineComplete cfg c else reqLineLoop fuel c

def reqLine (c : Conn) : R := reqLineLoop cfg ((c.inn.len - c.inn.read).toNat + 2) c

/-- htp_connp_REQ_PROTOCOL -/
def reqProtocol (c : Conn) : R :=
  let t := c.inTx
  let toHeaders (c : Conn) : Conn := { c with inState := .headers }.modIn (fun t => { t with reqProgress := 2 })
  if !t.is09 then (toHeaders c, .ok) else
  if c.inn.len > c.inn.read + HTTP09_MAX_JUNK_LEN then
    ((toHeaders c).modIn (fun t => { t with is09 := false }), .ok)
  else
    let rest := c.inn.cur.drop c.inn.read.toNat
    if rest.any (fun b => !isSpace b) then ((toHeaders c).modIn (fun t => { t with is09 := false }), .ok)
    else ({ c with inState := .finalize }, .ok)

/-- flush a pending header through process_request_header -/
def reqFlushHeader (c : Conn) : R :=
  match c.inn.header with
  | none => (c, .ok)
  | some h =>
    let (c, rc) := processRequestHeader h c
    if rc != .ok then (c, .error) else ({ c with inn := { c.inn with header := none } }, .ok)

/-- htp_connp_REQ_HEADERS -/
def reqHeadersLoop : Nat → Conn → R
  | 0, c => (c, .error)
  | fuel + 1, c =>
    match c.inn.tx with
    | none => (c, .error)
    | some uid =>
    if c.inn.status == STREAM_CLOSED then
      reqFlushHeader c >>? fun c =>
      let c := { c with inn := c.inn.clearBuffer }
      let c := c.modIn (fun t => { t with reqProgress := 4 })
      txStateRequestHeaders cfg uid c
    else
    match c.inn.copyByte with
    | none => (c, .dataBuffer)
    | some (d, b) =>
      let c := { c with inn := d }
      if b != LF then reqHeadersLoop fuel c else
      match c.inn.consolidate cfg.fieldLimitHard true with
      | none => (c, .error)
      | some (d, data) =>
        let c := { c with inn := d }
        if isLineTerminator cfg data false then
          reqFlushHeader c >>? fun c =>
          let c := { c with inn := c.inn.clearBuffer }
          txStateRequestHeaders cfg uid c
        else
          let line := (chomp data).1
          let r : R :=
            if isLineFolded line == some false then
              -- new header line
              reqFlushHeader c >>? fun c =>
              let (d0, nb) := c.inn.peekSet
              let c := { c with inn := d0 }
              match nb with
              | some b =>
                if !isFoldingChar b then
                  let (c, rc) := processRequestHeader line c
                  if rc != .ok then (c, .error) else (c, .ok)
                else ({ c with inn := { c.inn with header := some line } }, .ok)
              | none => ({ c with inn := { c.inn with header := some line } }, .ok)
            else
              match c.inn.header with
              | none =>
                let c := c.modIn (fun t => { t with flags := t.flags ||| INVALID_FOLDING })
                ({ c with inn := { c.inn with header := some (line.dropWhile isFoldingChar) } }, .ok)
              | some h =>
                if h.length < MAX_HEADER_FOLDED then ({ c with inn := { c.inn with header := some (h ++ line) } }, .ok)
                else (c, .ok)
          r >>? fun c => reqHeadersLoop fuel { c with inn := c.inn.clearBuffer }

def reqHeaders (c : Conn) : R := reqHeadersLoop cfg ((c.inn.len - c.inn.read).toNat + 2) c

/-- htp_connp_REQ_CONNECT_CHECK -/
def reqConnectCheck (c : Conn) : R :=
  if c.inTx.methodNumber == M_CONNECT then
    ({ c with inState := .connectWaitResponse, inn := { c.inn with status := STREAM_DATA_OTHER } }, .dataOther)
  else ({ c with inState := .bodyDetermine }, .ok)

/-- htp_connp_REQ_CONNECT_WAIT_RESPONSE -/
def reqConnectWaitResponse (c : Conn) : R :=
  let t := c.inTx
  if t.resProgress ≤ 1 then (c, .dataOther)
  else if t.resStatusNumber ≥ 200 ∧ t.resStatusNumber ≤ 299 then ({ c with inState := .connectProbeData }, .ok)
  else ({ c with inState := .finalize }, .ok)

/-- leading method token of a line, as REQ_CONNECT_PROBE_DATA / REQ_FINALIZE extract it: (mstart, pos, method) -/
def probeMethod (data : Bytes) : Nat × Nat × Bytes :=
  let pos0 := scanFwd (fun b => !isSpace b) data 0
  let pos := scanFwd isSpace data pos0
  (pos0, pos, (data.drop pos0).take (pos - pos0))

/-- htp_connp_REQ_CONNECT_PROBE_DATA -/
def reqConnectProbeLoop : Nat → Conn → R
  | 0, c => (c, .error)
  | fuel + 1, c =>
    let (d0, nb) := c.inn.peekSet
    let c := { c with inn := d0 }
    if nb == some LF || nb == some 0 then
      match c.inn.consolidate cfg.fieldLimitHard true with
      | none => (c, .error)
      | some (d, data) =>
        let c := { c with inn := d }
        let (_, _, m) := probeMethod data
        if methodNumber m != M_UNKNOWN then
          match c.inn.tx with
          | some uid => txStateRequestComplete cfg uid c
          | none => (c, .error)
        else
          -- a response direction in ERROR or STOP stays there (repaired in /repo: it used to be overwritten with TUNNEL)
          let outSt := if c.out.status == STREAM_ERROR || c.out.status == STREAM_STOP then c.out.status else STREAM_TUNNEL
          ({ c with inn := { c.inn with status := STREAM_TUNNEL }, out := { c.out with status := outSt } }, .ok)
    else
      match c.inn.copyByte with
      | none => (c, .dataBuffer)
      | some (d, _) => reqConnectProbeLoop fuel { c with inn := d }

def reqConnectProbeData (c : Conn) : R := reqConnectProbeLoop cfg ((c.inn.len - c.inn.read).toNat + 2) c

/-- htp_connp_REQ_BODY_DETERMINE -/
def reqBodyDetermine (c : Conn) : R :=
  let t := c.inTx
  if t.reqTransferCoding == CODING_CHUNKED then
    ({ c with inState := .bodyChunkedLength }.modIn (fun t => { t with reqProgress := 3 }), .ok)
  else if t.reqTransferCoding == CODING_IDENTITY then
    let c := { c with inn := { c.inn with contentLength := t.reqContentLength, bodyDataLeft := t.reqContentLength } }
    if t.reqContentLength != 0 then ({ c with inState := .bodyIdentity }.modIn (fun t => { t with reqProgress := 3 }), .ok)
    else ({ c with inState := .finalize }, .ok)
  else if t.reqTransferCoding == CODING_NO_BODY then ({ c with inState := .finalize }, .ok)
  else (c, .error)

/-- htp_connp_REQ_BODY_IDENTITY -/
def reqBodyIdentity (c : Conn) : R :=
  let avail := c.inn.len - c.inn.read
  let n : Int := if avail ≥ c.inn.bodyDataLeft then c.inn.bodyDataLeft else avail
  -- size_t bytes_to_consume: a negative left (never set here) would wrap; the states only enter with left > 0
  if n == 0 then (c, .data) else
  let data := if c.inn.curNull then none else some (sliceCur c.inn c.inn.read (c.inn.read + n))
  -- a gap hands NULL data with a non-zero length to the body hook
  let (c, rc) := reqProcessBodyData cfg data (if c.inn.curNull then n.toNat else 0) c
  if rc != .ok then (c, rc) else
  let c := { c with inn := { c.inn.advance n with bodyDataLeft := c.inn.bodyDataLeft - n } }
  let c := c.modIn (fun t => { t with reqMessageLen := t.reqMessageLen + n.toNat })
  if c.inn.bodyDataLeft == 0 then ({ c with inState := .finalize }, .ok) else (c, .data)

/-- htp_connp_REQ_BODY_CHUNKED_DATA_END -/
def reqChunkedDataEndLoop : Nat → Conn → R
  | 0, c => (c, .error)
  | fuel + 1, c =>
    match c.inn.nextByteConsume with
    | none => (c, .data)
    | some (d, b) =>
      let c := { c with inn := d }.modIn (fun t => { t with reqMessageLen := t.reqMessageLen + 1 })
      if b == LF then ({ c with inState := .bodyChunkedLength }, .ok) else reqChunkedDataEndLoop fuel c

def reqBodyChunkedDataEnd (c : Conn) : R := reqChunkedDataEndLoop ((c.inn.len - c.inn.read).toNat + 2) c

/-- htp_connp_REQ_BODY_CHUNKED_DATA -/
def reqBodyChunkedData (c : Conn) : R :=
  let avail := c.inn.len - c.inn.read
  let n : Int := if avail ≥ c.inn.chunkedLength then c.inn.chunkedLength else avail
  if n == 0 then (c, .data) else
  let data := sliceCur c.inn c.inn.read (c.inn.read + n)
  let (c, rc) := reqProcessBodyData cfg (some data) 0 c
  if rc != .ok then (c, rc) else
  let c := { c with inn := { c.inn.advance n with chunkedLength := c.inn.chunkedLength - n } }
  let c := c.modIn (fun t => { t with reqMessageLen := t.reqMessageLen + n.toNat })
  if c.inn.chunkedLength == 0 then ({ c with inState := .bodyChunkedDataEnd }, .ok) else (c, .data)

/-- htp_connp_REQ_BODY_CHUNKED_LENGTH -/
def reqChunkedLengthLoop : Nat → Conn → R
  | 0, c => (c, .error)
  | fuel + 1, c =>
    match c.inn.copyByte with
    | none => (c, .dataBuffer)
    | some (d, b) =>
      let c := { c with inn := d }
      if b != LF then reqChunkedLengthLoop fuel c else
      match c.inn.consolidate cfg.fieldLimitHard true with
      | none => (c, .error)
      | some (d, data) =>
        let c := { c with inn := d }.modIn (fun t => { t with reqMessageLen := t.reqMessageLen + data.length })
        let line := (chomp data).1
        let (n, _) := Num.parseChunkedLength line
        let c := { c with inn := { c.inn.clearBuffer with chunkedLength := n } }
        if n > 0 then ({ c with inState := .bodyChunkedData }, .ok)
        else if n == 0 then ({ c with inState := .headers }.modIn (fun t => { t with reqProgress := 4 }), .ok)
        else (c, .error)

def reqBodyChunkedLength (c : Conn) : R := reqChunkedLengthLoop cfg ((c.inn.len - c.inn.read).toNat + 2) c

/-- the "peek until LF but do not mark it read" loop of REQ_FINALIZE: none = ran out of bytes (HTP_DATA_BUFFER) -/
def reqFinalizeScan : Nat → Dir → Option Dir
  | 0, d => some d
  | fuel + 1, d =>
    let (d, nb) := d.peekSet
    if nb == some LF then some d
    else match d.copyByte with
      | none => none
      | some (d', _) => reqFinalizeScan fuel d'

/-- htp_connp_REQ_FINALIZE -/
def reqFinalize (c : Conn) : R :=
  match c.inn.tx with
  | none => (c, .error)
  | some uid =>
  -- first part: only when the stream is not closed
  let pre : Option (Conn × Bool) :=      -- (state, return-now-with-complete?)
    if c.inn.status != STREAM_CLOSED then
      let (d0, nbo) := c.inn.peekSet
      let c := { c with inn := d0 }
      match nbo with
      | none => some (c, true)
      | some nb =>
        if nb != LF || c.inn.consume ≥ c.inn.read then
          match reqFinalizeScan ((c.inn.len - c.inn.read).toNat + 2) c.inn with
          | none => none
          | some d => some ({ c with inn := d }, false)
        else some (c, false)
    else some (c, false)
  match pre with
  | none =>
    -- IN_COPY_BYTE_OR_RETURN ran out: all bytes read, HTP_DATA_BUFFER
    ({ c with inn := { c.inn with read := c.inn.len, nextByte := -1 } }, .dataBuffer)
  | some (c, true) => txStateRequestComplete cfg uid c
  | some (c, false) =>
  match c.inn.consolidate cfg.fieldLimitHard true with
  | none => (c, .error)
  | some (d, data) =>
    let c := { c with inn := d }
    if data.length == 0 then txStateRequestComplete cfg uid c else
    let (mstart, pos, m) := probeMethod data
    let go : Option Conn :=
      if pos > mstart then
        if methodNumber m != M_UNKNOWN then none
        else some (if c.inn.bodyDataLeft ≤ 0 then c else { c with inn := { c.inn with bodyDataLeft := 1 } })
      else some c
    match go with
    | none => txStateRequestComplete cfg uid { c with inn := { c.inn with bodyDataLeft := -1 } }
    | some c =>
      -- "Adds linefeed to the buffer if there was one"
      let r : Option (Conn × Bytes) :=
        if c.inn.nextByte == 10 then
          match c.inn.copyByte with
          | none => none
          | some (d, _) =>
            match d.consolidate cfg.fieldLimitHard true with
            | some (d', data') => some ({ c with inn := d' }, data')
            | none => some ({ c with inn := d }, data)     -- return value ignored in C: data/len unchanged
        else some (c, data)
      match r with
      | none => (c, .dataBuffer)
      | some (c, data) =>
        let (c, rc) := reqProcessBodyData cfg (some data) 0 c
        ({ c with inn := c.inn.clearBuffer }, rc)

/-- htp_connp_REQ_IGNORE_DATA_AFTER_HTTP_0_9 -/
def reqIgnoreDataAfter09 (c : Conn) : R :=
  let left := c.inn.len - c.inn.read
  let c := if left > 0 then { c with connFlags := setFlag c.connFlags CONN_HTTP_0_9_EXTRA } else c
  ({ c with inn := c.inn.advance left }, .data)

def reqStateFn (c : Conn) : R :=
  match c.inState with
  | .idle => reqIdle cfg c
  | .line => reqLine cfg c
  | .protocol => reqProtocol c
  | .headers => reqHeaders cfg c
  | .connectCheck => reqConnectCheck c
  | .connectWaitResponse => reqConnectWaitResponse c
  | .connectProbeData => reqConnectProbeData cfg c
  | .bodyDetermine => reqBodyDetermine c
  | .bodyIdentity => reqBodyIdentity cfg c
  | .bodyChunkedLength => reqBodyChunkedLength cfg c
  | .bodyChunkedData => reqBodyChunkedData cfg c
  | .bodyChunkedDataEnd => reqBodyChunkedDataEnd c
  | .finalize => reqFinalize cfg c
  | .ignoreDataAfter09 => reqIgnoreDataAfter09 c

/-- htp_req_handle_state_change -/
def reqHandleStateChange (c : Conn) : R :=
  if c.inStatePrev == some c.inState then (c, .ok) else
  let r : R :=
    if c.inState == .headers then
      let t := c.inTx
      if c.inn.tx.isNone then (c, .error)      -- NULL dereference in C; see C01 (unreachable: guarded)
      else if t.reqProgress == 2 then reqReceiverSet .requestHeaderData c
      else if t.reqProgress == 4 then reqReceiverSet .requestTrailerData c
      else (c, .ok)
    else (c, .ok)
  r >>? fun c => ({ c with inStatePrev := some c.inState }, .ok)

/-- result of a data call -/
structure CallResult where
  rc : Nat          -- htp_stream_state_t returned
  deriving Repr, DecidableEq

/-- the for(;;) of htp_connp_req_data -/
def reqDriverLoop (isGap : Bool) : Nat → Conn → Conn × Nat
  | 0, c => ({ c with unsupported := true }, STREAM_ERROR)      -- out of fuel: unreachable (C08_iters)
  | fuel + 1, c =>
    let stepR : Option R :=
      if isGap then
        if c.inState == .bodyIdentity || c.inState == .ignoreDataAfter09 then some (reqStateFn cfg c)
        else if c.inState == .finalize then
          match c.inn.tx with
          | some uid => some (txStateRequestComplete cfg uid c)
          | none => some (c, .error)
        else none
      else some (reqStateFn cfg c)
    match stepR with
    | none => (c, STREAM_CLOSED)        -- "Gaps are not allowed during this state"
    | some (c, rc) =>
      let (c, rc) : R :=
        if rc == .ok then
          if c.inn.status == STREAM_TUNNEL then (c, .ok) else reqHandleStateChange c
        else (c, rc)
      if rc == .ok then
        if c.inn.status == STREAM_TUNNEL then (c, STREAM_TUNNEL) else reqDriverLoop isGap fuel c
      else if rc == .data || rc == .dataBuffer then
        let (c, _) := reqReceiverSend false c
        if rc == .dataBuffer then
          match c.inn.buffer cfg.fieldLimitHard true with
          | none => ({ c with inn := { c.inn with status := STREAM_ERROR } }, STREAM_ERROR)
          | some d => ({ c with inn := { d with status := STREAM_DATA } }, STREAM_DATA)
        else ({ c with inn := { c.inn with status := STREAM_DATA } }, STREAM_DATA)
      else if rc == .dataOther then
        if c.inn.read ≥ c.inn.len then ({ c with inn := { c.inn with status := STREAM_DATA } }, STREAM_DATA)
        else ({ c with inn := { c.inn with status := STREAM_DATA_OTHER } }, STREAM_DATA_OTHER)
      else if rc == .stop then ({ c with inn := { c.inn with status := STREAM_STOP } }, STREAM_STOP)
      else ({ c with inn := { c.inn with status := STREAM_ERROR } }, STREAM_ERROR)

/-- "Store the current chunk information" + htp_conn_track_inbound_data -/
def reqStoreChunk (data : Option Bytes) (len : Nat) (c : Conn) : Conn :=
  { c with inn := { c.inn with cur := data.getD [], curNull := data.isNone, len := len, read := 0, consume := 0,
                               receiver := 0, live := true },
           inChunkCount := c.inChunkCount + 1, inDataCounter := c.inDataCounter + len }

/-- `if (connp->out_status == HTP_STREAM_DATA_OTHER) connp->out_status = HTP_STREAM_DATA;` -/
def reqWakeOther (c : Conn) : Conn :=
  if c.out.status == STREAM_DATA_OTHER then { c with out := { c.out with status := STREAM_DATA } } else c

/-- htp_connp_req_data(connp, ts, data, len): `data = none` is a NULL pointer (gap when len > 0, close when 0) -/
def reqDataCore (data : Option Bytes) (len : Nat) (c : Conn) : Conn × Nat :=
  if c.inn.status == STREAM_STOP then (c, STREAM_STOP) else
  if c.inn.status == STREAM_ERROR then (c, STREAM_ERROR) else
  if c.inn.tx.isNone && c.inState != .idle then
    ({ c with inn := { c.inn with status := STREAM_ERROR } }, STREAM_ERROR) else
  if len == 0 && c.inn.status != STREAM_CLOSED then (c, STREAM_CLOSED) else
  let c := reqStoreChunk data len c
  if c.inn.status == STREAM_TUNNEL then (c, STREAM_TUNNEL) else
  reqDriverLoop cfg (data.isNone && len > 0) (8 * len + 64) (reqWakeOther c)

/-- the call returns: the caller's chunk is no longer valid -/
def reqData (data : Option Bytes) (len : Nat) (c : Conn) : Conn × Nat :=
  let (c, rc) := reqDataCore cfg data len c
  ({ c with inn := { c.inn with live := false } }, rc)

end
end Htp.Conn
