/- htp_response.c: the response-direction state functions and the driver htp_connp_res_data. -/
import HtpModel.Conn.Req

namespace Htp.Conn
open Htp.Gen Htp.Parse

section
variable (cfg : Cfg)

def REQUEST_URI_NOT_SEEN : Bytes := (b!"/libhtp::request_uri_not_seen")

/-- "Unable to match response to request": a transaction is made up for the response -/
def resIdleUnmatched (c : Conn) : R :=
  let (c, u) := txCreate cfg c
  (match u with
   | none => ({ c with out := { c.out with tx := none } }, .error)
   | some uid =>
     let c := { c with out := { c.out with tx := some uid } }
     let c := c.modTx uid (fun t => { t with uriNorm := some { path := some REQUEST_URI_NOT_SEEN },
                                             uri := some REQUEST_URI_NOT_SEEN })
     let c := { c with inState := .finalize, outNextTxIndex := c.outNextTxIndex + 1 }
     txStateResponseStart uid c)

/-- htp_connp_RES_IDLE -/
def resIdle (c : Conn) : R :=
  if c.out.read ≥ c.out.len then (c, .data) else
  let slot : Option Tx := if c.outNextTxIndex < 0 then none else (c.txs[c.outNextTxIndex.toNat]?).join
  match slot with
  | none =>
    let c :=
      if c.inState == .finalize then
        match c.inn.tx with
        | some uid => (txStateRequestComplete cfg uid c).1
        | none => c
      else c
    resIdleUnmatched cfg c
  | some t =>
    let c := { c with outNextTxIndex := c.outNextTxIndex + 1,
                      out := { c.out with tx := some t.uid, contentLength := -1, bodyDataLeft := -1 } }
    txStateResponseStart t.uid c

/-- is the data pointer handed out by consolidate NULL? (NULL chunk, nothing buffered) -/
def Dir.consolidatedNull (d : Dir) : Bool := d.buf.isNone && d.curNull

/-- a first line that is not a status line ("treat response line as body"): skipped when more data follows that looks like a
    status line, else the whole stream becomes a body without headers -/
def resLineAsBody (uid : Nat) (dataNull : Bool) (data line : Bytes) (chompResult : Nat) (c : Conn) : R :=
  let nextIsH := (c.out.cur[c.out.read.toNat]? : Option UInt8) == some 0x48
  let rd1 : Int := c.out.read + 1
  let ln1 : Int := c.out.len
  if decide (rd1 < ln1) && (nextIsH || decide (line.length ≤ 2)) then
    let c := c.modTx uid (fun t => { t with resIgnoredLines := t.resIgnoredLines + 1 })
    ({ c with out := c.out.clearBuffer }, .ok)
  else
    let c := c.modTx uid (fun t => { t with resContentEncodingProcessing := 1 })
    let c := { c with out := { c.out with consume := c.out.read } }
    let body := if dataNull then none else some (data.take (line.length + chompResult))
    let (c, rc) := resProcessBodyData cfg body c
    let c := { c with out := c.out.clearBuffer }
    if rc != .ok then (c, rc) else
    if c.out.len ≤ c.out.read then
      let c := c.modTx uid (fun t => { t with resTransferCoding := CODING_IDENTITY, resProgress := 3 })
      ({ c with out := { c.out with bodyDataLeft := -1 }, outState := .finalize }, .ok)
    else (c, .ok)

/-- the end of a status line (or of the stream) in RES_LINE -/
def resLineComplete (uid : Nat) (closed : Bool) (c : Conn) : R :=
  match c.out.consolidate cfg.fieldLimitHard false with
  | none => (c, .error)
  | some (d, data) =>
    let dataNull := c.out.consolidatedNull
    let c := { c with out := d }
    if isLineIgnorable cfg data then
      let c := if closed then { c with outState := .finalize } else c
      let c := c.modTx uid (fun t => { t with resIgnoredLines := t.resIgnoredLines + 1 })
      ({ c with out := c.out.clearBuffer }, .ok)
    else
      let c := c.modTx uid (fun t => { t with resLine := none, resProtocol := none, resStatus := none, resMessage := none })
      let (line, chompResult) := chomp data
      if dataNull || treatResponseLineAsBody line then resLineAsBody cfg uid dataNull data line chompResult c
      else
        let rl := parseResponseLine line
        let c := c.modTx uid (fun t => { t with resLine := some line, resProtocol := rl.protocol,
                                                resProtocolNumber := rl.protocolNumber, resStatus := rl.status,
                                                resStatusNumber := rl.statusNumber, resMessage := rl.message })
        txStateResponseLine uid c >>? fun c =>
        let c := { c with out := c.out.clearBuffer, outState := .headers }
        (c.modTx uid (fun t => { t with resProgress := 2 }), .ok)

/-- htp_connp_RES_LINE -/
def resLineLoop : Nat → Conn → R
  | 0, c => (c, .error)
  | fuel + 1, c =>
    match c.out.tx with
    | none => (c, .error)
    | some uid =>
    let closed := c.out.status == STREAM_CLOSED
    let step1 : Option Conn :=
      if !closed then
        match c.out.copyByte with
        | none => none
        | some (d, _) => some { c with out := d }
      else some c
    match step1 with
    | none => (c, .dataBuffer)
    | some c =>
    -- a CR: look at what follows
    let step2 : Except Rc (Conn × Bool) :=      -- (state, keep scanning?)
      if c.out.nextByte == 13 then
        let (d, nb) := c.out.peekSet
        let c := { c with out := d }
        match nb with
        | none => .error .dataBuffer
        | some b => if b == LF then .ok (c, true) else .ok ({ c with out := { c.out with nextByte := 10 } }, false)
      else .ok (c, false)
    match step2 with
    | .error rc => ({ c with out := (c.out.peekSet).1 }, rc)
    | .ok (c, true) => resLineLoop fuel c
    | .ok (c, false) =>
    if !(c.out.nextByte == 10 || closed) then resLineLoop fuel c else resLineComplete cfg uid closed c

def resLine (c : Conn) : R := resLineLoop cfg ((c.out.len - c.out.read).toNat + 3) c

def resFlushHeader (c : Conn) : R :=
  match c.out.header with
  | none => (c, .ok)
  | some h =>
    let (c, rc) := processResponseHeader h c
    if rc != .ok then (c, .error) else ({ c with out := { c.out with header := none } }, .ok)

/-- the line-end handling at the top of the RES_HEADERS loop, after a CR or LF was copied.
    Returns: `.error rc` = return rc; `.ok (c, lfcr, endwithcr, again)`; again = `continue` without a line -/
def resHeadersEol (b : UInt8) (lfcr : Bool) (c : Conn) : Except Rc (Conn × Bool × Bool × Bool) :=
  if b == CR then
    let (d, nb) := c.out.peekSet
    let c := { c with out := d }
    match nb with
    | none => .error .dataBuffer
    | some n =>
      if n == LF then
        match c.out.copyByte with
        | none => .error .dataBuffer
        | some (d, _) =>
          let c := { c with out := d }
          if lfcr then
            let (d, nb2) := c.out.peekSet
            let c := { c with out := d }
            if nb2 == some CR then
              match c.out.copyByte with
              | none => .error .dataBuffer
              | some (d, _) =>
                let c := { c with out := { d with consume := d.consume + 1 } }
                let (d, nb3) := c.out.peekSet
                let c := { c with out := d }
                if nb3 == some LF then
                  match c.out.copyByte with
                  | none => .error .dataBuffer
                  | some (d, _) => .ok ({ c with out := { d with consume := d.consume + 1 } }, false, true, false)
                else .ok (c, false, true, false)
            else .ok (c, false, true, false)
          else .ok (c, false, true, false)
      else if n == CR then .ok (c, lfcr, false, true)
      else .ok (c, false, true, false)
  else
    -- LF
    let (d, nb) := c.out.peekSet
    let c := { c with out := d }
    -- htp_connp_res_lf_completes_crlf: this LF is the first byte of the chunk and the buffered part of the line ends in CR
    -- (S1, repaired in /repo: such a LF used to open an LF-CR line end that swallowed a following CR)
    let completesCrlf := c.out.read - c.out.consume == 1 &&
      (match c.out.buf with | some b => b.getLast? == some CR | none => false)
    if nb == some CR && !completesCrlf then
      match c.out.copyByte with
      | none => .error .dataBuffer
      | some (d, _) => .ok ({ c with out := d }, true, false, false)
    else .ok (c, false, false, false)

/-- one header (or continuation) line of a response: start a new pending header, extend the pending one, or process it -/
def resHeaderLine (uid : Nat) (line : Bytes) (c : Conn) : R :=
  if isLineFolded line == some false then
    resFlushHeader c >>? fun c =>
    let (d, nb) := c.out.peekSet
    let c := { c with out := d }
    -- no byte available yet (-1): the header stays pending, as on the request side (S15, repaired in /repo)
    let folding := match nb with | some b => isFoldingChar b | none => true
    if !folding then
      let (c, rc) := processResponseHeader line c
      if rc != .ok then (c, .error) else (c, .ok)
    else ({ c with out := { c.out with header := some line } }, .ok)
  else
    match c.out.header with
    | none =>
      let c := c.modTx uid (fun t => { t with flags := t.flags ||| INVALID_FOLDING })
      ({ c with out := { c.out with header := some (line.dropWhile isFoldingChar) } }, .ok)
    | some h =>
      let hasColon := line.any (· == 0x3a)
      if hasColon && h.any (· == 0x3a) && c.outTx.resProtocolNumber == PROTOCOL_1_1 then
        let c := c.modTx uid (fun t => { t with flags := t.flags ||| INVALID_FOLDING })
        let (c, rc) := processResponseHeader h c
        if rc != .ok then (c, .error) else
        ({ c with out := { c.out with header := some (line.drop 1) } }, .ok)
      else if h.length < MAX_HEADER_FOLDED then ({ c with out := { c.out with header := some (h ++ line) } }, .ok)
      else (c, .ok)

/-- htp_connp_RES_HEADERS -/
def resHeadersLoop : Nat → Bool → Conn → R
  | 0, _, c => (c, .error)
  | fuel + 1, lfcr, c =>
    match c.out.tx with
    | none => (c, .error)
    | some uid =>
    if c.out.status == STREAM_CLOSED then
      resReceiverFinalizeClear c >>? fun c =>
      runCallback .responseTrailer (some uid) none false c >>? fun c =>
      ({ c with outState := .finalize }, .ok)
    else
    match c.out.copyByte with
    | none => (c, .dataBuffer)
    | some (d, b) =>
      let c := { c with out := d }
      if b != LF && b != CR then resHeadersLoop fuel false c else
      match resHeadersEol b lfcr c with
      | .error rc => ({ c with out := (c.out.peekSet).1 }, rc)
      | .ok (c, lfcr, _, true) => resHeadersLoop fuel lfcr c
      | .ok (c, lfcr, endwithcr, false) =>
      match c.out.consolidate cfg.fieldLimitHard false with
      | none => (c, .error)
      | some (d, data) =>
        let c := { c with out := d }
        if endwithcr && data.length < 2 then resHeadersLoop fuel lfcr c else
        let nextNoLf := c.out.read < c.out.len && c.out.cur[c.out.read.toNat]? != some LF
        if isLineTerminator cfg data nextNoLf then
          resFlushHeader c >>? fun c =>
          let c := { c with out := c.out.clearBuffer }
          if c.outTx.resProgress == 2 then ({ c with outState := .bodyDetermine }, .ok)
          else
            resReceiverFinalizeClear c >>? fun c =>
            runCallback .responseTrailer (some uid) none false c >>? fun c =>
            ({ c with outState := .finalize }, .ok)
        else
          let line := (chomp data).1
          resHeaderLine uid line c >>? fun c => resHeadersLoop fuel lfcr { c with out := c.out.clearBuffer }

def resHeaders (c : Conn) : R := resHeadersLoop cfg ((c.out.len - c.out.read).toNat + 3) false c

/-- bstr_index_of_c_nocasenorzero(te->value, "chunked") != -1 -/
def teHasChunked (v : Bytes) : Bool := (Bstr.indexOfMemNocaseNorzero v (b!"chunked")).isSome

/-- steps 3-5 of htp_connp_RES_BODY_DETERMINE: Content-Length, multipart/byteranges, close-delimited -/
def resCl (cl ct : Option Header) (uid : Nat) (c : Conn) : R :=
  match cl with
  | some cl =>
    let c := c.modTx uid (fun t => { t with resTransferCoding := CODING_IDENTITY,
                                            flags := if hasFlag cl.flags FIELD_REPEATED then t.flags ||| REQUEST_SMUGGLING else t.flags })
    let n := Num.parseContentLength cl.value
    let c := c.modTx uid (fun t => { t with resContentLength := n })
    if n < 0 then (c, .error) else
    let c := { c with out := { c.out with contentLength := n, bodyDataLeft := n } }
    if n != 0 then ({ c with outState := .bodyIdentityClKnown }.modTx uid (fun t => { t with resProgress := 3 }), .ok)
    else ({ c with outState := .finalize }, .ok)
  | none =>
    let bad := match ct with
      | some ct => (Bstr.indexOfMemNocase ct.value (b!"multipart/byteranges")).isSome
      | none => false
    if bad then (c, .error) else
    let c := c.modTx uid (fun t => { t with resTransferCoding := CODING_IDENTITY, resProgress := 3 })
    ({ c with outState := .bodyIdentityStreamClose, out := { c.out with bodyDataLeft := -1 } }, .ok)

/-- the framing arbitration of htp_connp_RES_BODY_DETERMINE (step 2 onwards): a Transfer-Encoding that mentions chunked
    wins over Content-Length, and the two together are flagged -/
def resFraming (te cl ct : Option Header) (uid : Nat) (c : Conn) : R :=
  match te with
  | some te' =>
    if teHasChunked te'.value then
      let c := c.modTx uid (fun t => { t with resTransferCoding := CODING_CHUNKED, resProgress := 3,
                                              flags := if cl.isSome then t.flags ||| REQUEST_SMUGGLING else t.flags })
      ({ c with outState := .bodyChunkedLength }, .ok)
    else resCl cl ct uid c
  | none => resCl cl ct uid c

/-- a refused CONNECT: the request direction is unblocked and the response side notes to stop at the end of the transaction
    (finding S36, repaired: a stopped request direction is left alone, like one in error; finding S38, repaired: a 407 now also stops
    at the end of the transaction, like every other refused CONNECT) -/
def resRefusedConnect (t : Tx) (c : Conn) : Conn :=
  if t.methodNumber == M_CONNECT then
    let c := if c.inn.status != STREAM_ERROR && c.inn.status != STREAM_STOP then { c with inn := { c.inn with status := STREAM_DATA } } else c
    { c with outDataOtherAtTxEnd := true }
  else c

/-- 101 Switching Protocols without a body: both directions go into tunnel mode -/
def resSwitchTunnel (c : Conn) : Conn :=
  let c := { c with outState := .finalize }
  let c := if c.inn.status != STREAM_ERROR && c.inn.status != STREAM_STOP then { c with inn := { c.inn with status := STREAM_TUNNEL } } else c
  { c with out := { c.out with status := STREAM_TUNNEL } }

/-- a 4xx final answer to a request that waits with its body after Expect: 100-continue -/
def resExpectShortcut (t : Tx) (c : Conn) : Conn :=
  if t.resStatusNumber ≥ 400 ∧ t.resStatusNumber ≤ 499 ∧ c.inn.contentLength > 0 ∧
     c.inn.bodyDataLeft == c.inn.contentLength then
    match getHeaderC t.reqHeaders (b!"expect") with
    | some e => if Bstr.cmpMemNocase e.value (b!"100-continue") == 0 then { c with inState := .finalize } else c
    | none => c
  else c

/-- the no-body cases: HEAD, 1xx / 204 / 304 without framing headers -/
def resNoBody (uid : Nat) (t : Tx) (te cl : Option Header) (c : Conn) : Conn :=
  if t.methodNumber == M_HEAD then
    { c with outState := .finalize }.modTx uid (fun t => { t with resTransferCoding := CODING_NO_BODY })
  else if (t.resStatusNumber ≥ 100 ∧ t.resStatusNumber ≤ 199) || t.resStatusNumber == 204 || t.resStatusNumber == 304 then
    if te.isNone && cl.isNone then
      { c with outState := .finalize }.modTx uid (fun t => { t with resTransferCoding := CODING_NO_BODY })
    else c
  else c

/-- content type, then the framing arbitration (unless a no-body case already finished the message) -/
def resFramingStep (uid : Nat) (t : Tx) (te cl : Option Header) (c : Conn) : R :=
  if c.outState != .finalize then
    let ct := getHeaderC t.resHeaders (b!"content-type")
    let c := match ct with
      | some ct =>
        let low := Bstr.toLowercase ct.value
        c.modTx uid (fun t => { t with resContentType := some (low.takeWhile (fun b => !(isSpace b || b == 0x3b))) })
      | none => c
    resFraming te cl ct uid c
  else (c, .ok)

/-- the part of htp_connp_RES_BODY_DETERMINE after the 2xx-CONNECT shortcut -/
def resBodyDetermineRest (uid : Nat) (t : Tx) (c : Conn) : R :=
  let c := resRefusedConnect t c
  let cl := getHeaderC t.resHeaders (b!"content-length")
  let te := getHeaderC t.resHeaders (b!"transfer-encoding")
  if t.resStatusNumber == 101 && te.isNone && cl.isNone then
    txStateResponseHeaders cfg uid (resSwitchTunnel c)
  else
  -- interim 100 Continue: forget the headers and expect another status line
  let is100 := t.resStatusNumber == 100 && te.isNone &&
    (match cl with | some cl => !(Num.parseContentLength cl.value > 0) | none => true)
  if is100 then
    let c := c.modTx uid (fun t => { t with resHeaders := [], resProgress := 1, seen100 := t.seen100 + 1 })
    ({ c with outState := .line }, .ok)
  else
  resFramingStep uid t te cl (resNoBody uid t te cl (resExpectShortcut t c)) >>? fun c => txStateResponseHeaders cfg uid c

/-- htp_connp_RES_BODY_DETERMINE: a 2xx answer to CONNECT wraps the transaction up at once (the request side probes the tunnel);
    everything else is `resBodyDetermineRest` -/
def resBodyDetermine (c : Conn) : R :=
  match c.out.tx with
  | none => (c, .error)
  | some uid =>
    let t := c.outTx
    if t.methodNumber == M_CONNECT && (decide (t.resStatusNumber ≥ 200) && decide (t.resStatusNumber ≤ 299)) then
      txStateResponseHeaders cfg uid { c with outState := .finalize }
    else resBodyDetermineRest cfg uid t c

/-- htp_connp_RES_BODY_IDENTITY_CL_KNOWN -/
def resBodyIdentityClKnown (c : Conn) : R :=
  let avail := c.out.len - c.out.read
  let n : Int := if avail ≥ c.out.bodyDataLeft then c.out.bodyDataLeft else avail
  if c.out.status == STREAM_CLOSED then
    let c := { c with outState := .finalize }
    resProcessBodyData cfg none c
  else if n == 0 then (c, .data) else
  let data := if c.out.curNull then none else some (sliceCur c.out c.out.read (c.out.read + n))
  let (c, rc) := resProcessBodyDataGap data (if c.out.curNull then n.toNat else 0) c
  if rc != .ok then (c, rc) else
  let c := { c with out := { c.out.advance n with bodyDataLeft := c.out.bodyDataLeft - n } }
  if c.out.bodyDataLeft == 0 then
    let c := { c with outState := .finalize }
    resProcessBodyData cfg none c
  else (c, .data)
where
  /-- body data, or a gap (NULL data with a length): lengths still advance, callbacks see NULL -/
  resProcessBodyDataGap (data : Option Bytes) (gapLen : Nat) (c : Conn) : R :=
    if gapLen == 0 then resProcessBodyData cfg data c else
    match c.out.tx with
    | none => (c, .error)
    | some uid =>
      let c := c.modTx uid (fun t => { t with resMessageLen := t.resMessageLen + gapLen })
      let t := c.outTx
      if t.resContentEncodingProcessing == 1 then
        let c := c.modTx uid (fun t => { t with resEntityLen := t.resEntityLen + gapLen })
        let r := runCallbackN t.txResBodyHook .txResponseBodyData (some uid) none false gapLen c >>? fun c =>
          runCallback .responseBodyData (some uid) none false c gapLen
        if r.2 != .ok then (r.1, .error) else r
      else ({ c with unsupported := true }, .ok)

/-- htp_connp_RES_BODY_IDENTITY_STREAM_CLOSE -/
def resBodyIdentityStreamClose (c : Conn) : R :=
  let n := c.out.len - c.out.read
  let r : R :=
    if n != 0 then
      let data := if c.out.curNull then none else some (sliceCur c.out c.out.read (c.out.read + n))
      let (c, rc) := resBodyIdentityClKnown.resProcessBodyDataGap cfg data (if c.out.curNull then n.toNat else 0) c
      if rc != .ok then (c, rc) else ({ c with out := c.out.advance n }, .ok)
    else (c, .ok)
  r >>? fun c =>
  if c.out.status == STREAM_CLOSED then ({ c with outState := .finalize }, .ok) else (c, .data)

/-- htp_connp_RES_BODY_CHUNKED_DATA_END -/
def resChunkedDataEndLoop : Nat → Conn → R
  | 0, c => (c, .error)
  | fuel + 1, c =>
    match c.out.nextByteConsume with
    | none => (c, .data)
    | some (d, b) =>
      let c := { c with out := d }.modOut (fun t => { t with resMessageLen := t.resMessageLen + 1 })
      if b == LF then ({ c with outState := .bodyChunkedLength }, .ok) else resChunkedDataEndLoop fuel c

def resBodyChunkedDataEnd (c : Conn) : R := resChunkedDataEndLoop ((c.out.len - c.out.read).toNat + 2) c

/-- htp_connp_RES_BODY_CHUNKED_DATA -/
def resBodyChunkedData (c : Conn) : R :=
  let avail := c.out.len - c.out.read
  let n : Int := if avail ≥ c.out.chunkedLength then c.out.chunkedLength else avail
  if n == 0 then (c, .data) else
  let data := sliceCur c.out c.out.read (c.out.read + n)
  let (c, rc) := resProcessBodyData cfg (some data) c
  if rc != .ok then (c, rc) else
  let c := { c with out := { c.out.advance n with chunkedLength := c.out.chunkedLength - n } }
  if c.out.chunkedLength == 0 then ({ c with outState := .bodyChunkedDataEnd }, .ok) else (c, .data)

/-- data_probe_chunk_length: 1 = keep reading the line. The probe covers the whole line so far - the part buffered from earlier
    chunks and the part in the current chunk (S41, repaired in /repo: it used to look at the current chunk only, so a cut inside a
    chunk extension made the continuation look like leading junk). -/
def dataProbeChunkLength (d : Dir) : Bool :=
  let data := (d.buf.getD []) ++ sliceCur d d.consume d.read
  if data.length < 8 then true else
  let rest := data.dropWhile isChunkedCtl
  match rest with
  | [] => true
  | b :: _ => Num.isHexDigitC b

/-- htp_connp_RES_BODY_CHUNKED_LENGTH -/
def resChunkedLengthLoop : Nat → Conn → R
  | 0, c => (c, .error)
  | fuel + 1, c =>
    match c.out.copyByte with
    | none => (c, .dataBuffer)
    | some (d, b) =>
      let c := { c with out := d }
      if !(b == LF || (!isChunkedCtl b && !dataProbeChunkLength c.out)) then resChunkedLengthLoop fuel c else
      match c.out.consolidate cfg.fieldLimitHard false with
      | none => (c, .error)
      | some (d, data) =>
        let c := { c with out := d }.modOut (fun t => { t with resMessageLen := t.resMessageLen + data.length })
        let (n, _) := Num.parseChunkedLength data
        let c := { c with out := { c.out with chunkedLength := n } }
        if n == -1004 then
          -- empty chunk-length line: skip it
          resChunkedLengthLoop fuel { c with out := { c.out with consume := c.out.read } }
        else if n < 0 then
          -- invalid: un-read the line and treat the rest as a close-delimited body
          let rd : Int := if (data.length : Int) > c.out.read then 0 else c.out.read - (data.length : Int)
          let c := { c with out := { c.out with read := rd }, outState := .bodyIdentityStreamClose }
          (c.modOut (fun t => { t with resTransferCoding := CODING_IDENTITY }), .ok)
        else
          let c := { c with out := c.out.clearBuffer }
          if n > 0 then ({ c with outState := .bodyChunkedData }, .ok)
          else ({ c with outState := .headers }.modOut (fun t => { t with resProgress := 4 }), .ok)

def resBodyChunkedLength (c : Conn) : R := resChunkedLengthLoop cfg ((c.out.len - c.out.read).toNat + 3) c

/-- the copy-until-LF loop of RES_FINALIZE: none = ran out (HTP_DATA_BUFFER) -/
def resFinalizeScan : Nat → Dir → Option Dir
  | 0, d => some d
  | fuel + 1, d =>
    match d.copyByte with
    | none => none
    | some (d', b) => if b == LF then some d' else resFinalizeScan fuel d'

/-- htp_connp_RES_FINALIZE -/
def resFinalize (c : Conn) : R :=
  match c.out.tx with
  | none => (c, .error)
  | some uid =>
  let pre : Option (Conn × Bool) :=
    if c.out.status != STREAM_CLOSED then
      let (d0, nbo) := c.out.peekSet
      let c := { c with out := d0 }
      match nbo with
      | none => some (c, true)
      | some nb =>
        if nb != LF || c.out.consume ≥ c.out.read then
          match resFinalizeScan ((c.out.len - c.out.read).toNat + 2) c.out with
          | none => none
          | some d => some ({ c with out := d }, false)
        else some (c, false)
    else some (c, false)
  match pre with
  | none =>
    -- all remaining bytes were copied, then HTP_DATA_BUFFER
    let lastByte : Int := match c.out.cur.getLast? with | some b => b.toNat | none => c.out.nextByte
    ({ c with out := { c.out with read := c.out.len, nextByte := lastByte } }, .dataBuffer)
  | some (c, true) => txStateResponseCompleteEx cfg uid c
  | some (c, false) =>
  match c.out.consolidate cfg.fieldLimitHard false with
  | none => (c, .error)
  | some (d, data) =>
    let dataNull := c.out.consolidatedNull
    let c := { c with out := d }
    if data.length == 0 then txStateResponseCompleteEx cfg uid c else
    if dataNull || treatResponseLineAsBody data then
      let (c, rc) := resProcessBodyData cfg (some data) c
      ({ c with out := c.out.clearBuffer }, rc)
    else
      -- un-read the probed line; only the part of it that arrived with earlier chunks stays buffered
      -- (S14, repaired in /repo: the whole line used to stay in out_buf and was then read twice)
      let rd : Int := if c.out.read < (data.length : Int) then 0 else c.out.read - (data.length : Int)
      let keep : Nat := if c.out.read < (data.length : Int) then data.length - c.out.read.toNat else 0
      let buf := c.out.buf.map (fun b => b.take keep)
      let cs := if rd < c.out.consume then rd else c.out.consume
      txStateResponseCompleteEx cfg uid { c with out := { c.out with read := rd, consume := cs, buf := buf } }

def resStateFn (c : Conn) : R :=
  match c.outState with
  | .idle => resIdle cfg c
  | .line => resLine cfg c
  | .headers => resHeaders cfg c
  | .bodyDetermine => resBodyDetermine cfg c
  | .bodyIdentityClKnown => resBodyIdentityClKnown cfg c
  | .bodyIdentityStreamClose => resBodyIdentityStreamClose cfg c
  | .bodyChunkedLength => resBodyChunkedLength cfg c
  | .bodyChunkedData => resBodyChunkedData cfg c
  | .bodyChunkedDataEnd => resBodyChunkedDataEnd c
  | .finalize => resFinalize cfg c

/-- htp_res_handle_state_change -/
def resHandleStateChange (c : Conn) : R :=
  if c.outStatePrev == some c.outState then (c, .ok) else
  let r : R :=
    if c.outState == .headers then
      let t := c.outTx
      if c.out.tx.isNone then (c, .error)
      else if t.resProgress == 2 then resReceiverSet .responseHeaderData c
      else if t.resProgress == 4 then resReceiverSet .responseTrailerData c
      else (c, .ok)
    else (c, .ok)
  r >>? fun c => ({ c with outStatePrev := some c.outState }, .ok)

/-- the for(;;) of htp_connp_res_data -/
def resDriverLoop (isGap : Bool) : Nat → Conn → Conn × Nat
  | 0, c => ({ c with unsupported := true }, STREAM_ERROR)
  | fuel + 1, c =>
    let stepR : Option R :=
      if isGap then
        if c.outState == .bodyIdentityClKnown || c.outState == .bodyIdentityStreamClose then some (resStateFn cfg c)
        else if c.outState == .finalize then
          match c.out.tx with
          | some uid => some (txStateResponseCompleteEx cfg uid c)
          | none => some (c, .error)
        else none
      else some (resStateFn cfg c)
    match stepR with
    | none => (c, STREAM_CLOSED)
    | some (c, rc) =>
      let (c, rc) : R :=
        if rc == .ok then
          if c.out.status == STREAM_TUNNEL then (c, .ok) else resHandleStateChange c
        else (c, rc)
      if rc == .ok then
        if c.out.status == STREAM_TUNNEL then (c, STREAM_TUNNEL) else resDriverLoop isGap fuel c
      else if rc == .data || rc == .dataBuffer then
        let (c, _) := resReceiverSend false c
        if rc == .dataBuffer then
          match c.out.buffer cfg.fieldLimitHard false with
          | none => ({ c with out := { c.out with status := STREAM_ERROR } }, STREAM_ERROR)
          | some d => ({ c with out := { d with status := STREAM_DATA } }, STREAM_DATA)
        else ({ c with out := { c.out with status := STREAM_DATA } }, STREAM_DATA)
      else if rc == .stop then ({ c with out := { c.out with status := STREAM_STOP } }, STREAM_STOP)
      else if rc == .dataOther then
        if c.out.read ≥ c.out.len then ({ c with out := { c.out with status := STREAM_DATA } }, STREAM_DATA)
        else ({ c with out := { c.out with status := STREAM_DATA_OTHER } }, STREAM_DATA_OTHER)
      else ({ c with out := { c.out with status := STREAM_ERROR } }, STREAM_ERROR)

/-- "Store the current chunk information" + htp_conn_track_outbound_data -/
def resStoreChunk (data : Option Bytes) (len : Nat) (c : Conn) : Conn :=
  { c with out := { c.out with cur := data.getD [], curNull := data.isNone, len := len, read := 0, consume := 0,
                               receiver := 0, live := true },
           outDataCounter := c.outDataCounter + len }

/-- htp_connp_res_data -/
def resDataCore (data : Option Bytes) (len : Nat) (c : Conn) : Conn × Nat :=
  if c.out.status == STREAM_STOP then (c, STREAM_STOP) else
  if c.out.status == STREAM_ERROR then (c, STREAM_ERROR) else
  if c.out.tx.isNone && c.outState != .idle then
    ({ c with out := { c.out with status := STREAM_ERROR } }, STREAM_ERROR) else
  if len == 0 && c.out.status != STREAM_CLOSED then (c, STREAM_CLOSED) else
  let c := resStoreChunk data len c
  if c.out.status == STREAM_TUNNEL then (c, STREAM_TUNNEL) else
  resDriverLoop cfg (data.isNone && len > 0) (8 * len + 64) c

def resData (data : Option Bytes) (len : Nat) (c : Conn) : Conn × Nat :=
  let (c, rc) := resDataCore cfg data len c
  ({ c with out := { c.out with live := false } }, rc)

/-! ### connection-level entry points (htp_connection_parser.c) -/

/-- htp_connp_open -/
def connOpen (c : Conn) : Conn :=
  if c.inn.status != STREAM_NEW || c.out.status != STREAM_NEW then c
  else { c with inn := { c.inn with status := STREAM_OPEN }, out := { c.out with status := STREAM_OPEN } }

/-- htp_connp_req_close -/
def reqClose (c : Conn) : Conn × Nat :=
  let c := if c.inn.status != STREAM_ERROR then { c with inn := { c.inn with status := STREAM_CLOSED } } else c
  reqData cfg none 0 c

/-- htp_connp_close: both directions; returns the two ignored stream states for the log -/
def connClose (c : Conn) : Conn × Nat × Nat :=
  let c := if c.inn.status != STREAM_ERROR then { c with inn := { c.inn with status := STREAM_CLOSED } } else c
  let c := if c.out.status != STREAM_ERROR then { c with out := { c.out with status := STREAM_CLOSED } } else c
  let (c, r1) := reqData cfg none 0 c
  let (c, r2) := resData cfg none 0 c
  (c, r1, r2)

/-- htp_connp_tx_freed -/
def txFreedLoop : Nat → Conn → Nat → Conn × Nat
  | 0, c, r => (c, r)
  | fuel + 1, c, r =>
    match c.txs with
    | none :: rest => txFreedLoop fuel { c with txs := rest, outNextTxIndex := c.outNextTxIndex - 1 } (r + 1)
    | _ => (c, r)

def txFreed (c : Conn) : Conn × Nat := txFreedLoop c.txs.length c 0

end
end Htp.Conn
