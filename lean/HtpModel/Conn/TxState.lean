/- htp_transaction.c / htp_connection_parser.c pieces: hooks, tx creation/destruction, the tx state
   transition functions, header post-processing (T-E / C-L / Host arbitration), body data dispatch. -/
import HtpModel.Conn.Types

namespace Htp.Conn
open Htp.Gen Htp.Parse

def lookupAction (policy : List (Nat × CbAction)) (n : Nat) : CbAction :=
  match policy.find? (fun p => p.1 == n) with
  | some (_, a) => a
  | none => .ok

def Tx.isComplete (t : Tx) : Bool := t.reqProgress == 5 && t.resProgress == 5

/-- htp_tx_destroy_incomplete: unlink from the connection (slot := NULL) and from the parser -/
def destroyTx (uid : Nat) (c : Conn) : Conn :=
  { c with
    txs := c.txs.map (fun o => match o with | some x => if x.uid == uid then none else some x | none => none),
    inn := if c.inn.tx == some uid then { c.inn with tx := none } else c.inn,
    out := if c.out.tx == some uid then { c.out with tx := none } else c.out }

/-- one callback invocation: log the event, look the action up in the policy table -/
def runCallback (h : Hook) (uid : Option Nat) (data : Option Bytes) (isLast : Bool) (c : Conn) (gapLen : Nat := 0)
    (stale : Bool := false) : R :=
  let tx := (uid.bind c.findTx)
  let ev : Event := { hook := h, tx := match uid with | some u => (u : Int) | none => -1, data := data, isLast := isLast,
                      gapLen := gapLen, stale := stale,
                      reqProgress := (tx.map (·.reqProgress)).getD 0, resProgress := (tx.map (·.resProgress)).getD 0 }
  let act := lookupAction c.policy c.cbCount
  let c := { c with cbCount := c.cbCount + 1, events := ev :: c.events }
  match act with
  | .ok => (c, .ok)
  | .declined => (c, .ok)          -- htp_hook_run_all treats DECLINED as OK
  | .stop => (c, .stop)
  | .error => (c, .error)
  | .destroyTx =>
    -- on TRANSACTION_COMPLETE the callback calls htp_tx_destroy(tx) and returns OK; elsewhere it only returns OK
    -- (a transaction that the parser is still working on must not be destroyed from inside its callbacks)
    match tx with
    | some t => if h == .transactionComplete && t.isComplete && c.allowCbDestroy then (destroyTx t.uid c, .ok) else (c, .ok)
    | none => (c, .ok)
  | .regTxHooks =>
    match uid with
    | some u => (c.modTx u (fun t => { t with reqBodyHooks := t.reqBodyHooks ++ [.user], txResBodyHook := t.txResBodyHook + 1 }), .ok)
    | none => (c, .ok)

/-- the same callback registered `n` times on one hook (htp_hook_run_all stops at the first non-OK) -/
def runCallbackN : Nat → Hook → Option Nat → Option Bytes → Bool → Nat → Conn → R
  | 0, _, _, _, _, _, c => (c, .ok)
  | n + 1, h, uid, data, isLast, gapLen, c =>
    runCallback h uid data isLast c gapLen >>? fun c => runCallbackN n h uid data isLast gapLen c

/-! ### data receivers (raw header/trailer data) -/

def sliceCur (d : Dir) (frm to : Int) : Bytes :=
  (d.cur.drop frm.toNat).take (to - frm).toNat

/-- htp_connp_req_receiver_send_data -/
def reqReceiverSend (isLast : Bool) (c : Conn) : R :=
  match c.inn.receiverHook with
  | none => (c, .ok)
  | some h =>
    let d := sliceCur c.inn c.inn.receiver c.inn.read
    -- a NULL chunk (close / gap) hands out NULL + offset
    let data := if c.inn.curNull then none else some d
    runCallback h c.inn.tx data isLast c (if c.inn.curNull then (c.inn.read - c.inn.receiver).toNat else 0)
      (!c.inn.curNull && !c.inn.live) >>? fun c =>
    ({ c with inn := { c.inn with receiver := c.inn.read } }, .ok)

/-- htp_connp_req_receiver_finalize_clear -/
def reqReceiverFinalizeClear (c : Conn) : R :=
  match c.inn.receiverHook with
  | none => (c, .ok)
  | some _ =>
    let (c, rc) := reqReceiverSend true c
    ({ c with inn := { c.inn with receiverHook := none } }, rc)

def reqReceiverSet (h : Hook) (c : Conn) : R :=
  let (c, rc) := reqReceiverFinalizeClear c
  ({ c with inn := { c.inn with receiverHook := some h, receiver := c.inn.read } }, rc)

def resReceiverSend (isLast : Bool) (c : Conn) : R :=
  match c.out.receiverHook with
  | none => (c, .ok)
  | some h =>
    let d := sliceCur c.out c.out.receiver c.out.read
    let data := if c.out.curNull then none else some d
    runCallback h c.out.tx data isLast c (if c.out.curNull then (c.out.read - c.out.receiver).toNat else 0)
      (!c.out.curNull && !c.out.live) >>? fun c =>
    ({ c with out := { c.out with receiver := c.out.read } }, .ok)

def resReceiverFinalizeClear (c : Conn) : R :=
  match c.out.receiverHook with
  | none => (c, .ok)
  | some _ =>
    let (c, rc) := resReceiverSend true c
    ({ c with out := { c.out with receiverHook := none } }, rc)

def resReceiverSet (h : Hook) (c : Conn) : R :=
  let (c, rc) := resReceiverFinalizeClear c
  ({ c with out := { c.out with receiverHook := some h, receiver := c.out.read } }, rc)

/-! ### tx creation -/

/-- htp_connp_tx_create (none = NULL) -/
def txCreate (cfg : Cfg) (c : Conn) : Conn × Option Nat :=
  let size := c.txs.length
  let c := { c with connFlags := if (size : Int) > c.outNextTxIndex then setFlag c.connFlags CONN_PIPELINED else c.connFlags }
  if cfg.maxTx > 0 && size > cfg.maxTx then (c, none) else
  let uid := c.nextUid
  let t : Tx := { uid := uid, index := size, portNumber := 0 }
  let c := { c with txs := c.txs ++ [some t], nextUid := uid + 1,
                    inn := { c.inn with tx := some uid, contentLength := -1, bodyDataLeft := -1 },
                    inChunkRequestIndex := c.inChunkCount }
  (c, some uid)

/-! ### body data -/

/-- the library's own urlencoded body callback (tx-level hook, runs before user hooks) -/
def urlencBodyCallback (cfg : Cfg) (uid : Nat) (data : Option Bytes) (c : Conn) : R :=
  match c.findTx uid with
  | none => (c, .ok)
  | some t =>
    match t.urlenBody with
    | none => (c, .ok)
    | some u =>
      -- "invoked again after the finalization" (params table already handed over): HTP_ERROR, for data as well as for NULL.
      -- A stream gap reaches this callback as NULL data, so it finalizes, and the next body data is refused.
      if u.complete then (c, .error) else
      match data with
      | some d =>
        -- parser threads tx->flags / expected status
        let u := { u with flags := t.flags, status := t.expectedStatus }
        let u := Urlenc.feed cfg.urlencCfg u d
        (c.setTx { t with urlenBody := some u, flags := u.flags, expectedStatus := u.status }, .ok)
      | none =>
          let u := { u with flags := t.flags, status := t.expectedStatus }
          let u := Urlenc.finalize cfg.urlencCfg u
          let ps := u.params.reverse.map (fun (n, v) => ({ name := n, value := some v, source := 3 } : Param))
          (c.setTx { t with urlenBody := some u, flags := u.flags, expectedStatus := u.status,
                            params := t.params ++ ps }, .ok)

/-- the FILE_DATA hook calls made by the multipart parser during one call (oldest first); their return
    codes are ignored by htp_mpart_part_handle_data / htp_mpart_part_finalize_data -/
def mpartFileEvents (uid : Nat) : List (Nat × Option Bytes) → Conn → Conn
  | [], c => c
  | (_, d) :: rest, c => mpartFileEvents uid rest (runCallback .requestFileData (some uid) d false c).1

/-- htp_ch_multipart_callback_request_body_data: the library's multipart body callback (tx-level hook) -/
def mpartBodyCallback (uid : Nat) (data : Option Bytes) (c : Conn) : R :=
  match c.findTx uid with
  | none => (c, .ok)
  | some t =>
    match t.mpart with
    | none => (c, .ok)
    | some mp =>
      if t.mpartGaveUp then (c, .error) else
      let mp := { mp with events := [] }
      match data with
      | some d =>
        let mp := Multipart.parse mp d
        let c := c.setTx { t with mpart := some { mp with events := [] } }
        (mpartFileEvents uid mp.events.reverse c, .ok)
      | none =>
        let mp := Multipart.finalize mp
        let parts := mp.done.reverse ++ mp.cur.toList
        let ps := (parts.filter (fun pt => pt.type == Multipart.T_TEXT)).map
          (fun pt => ({ name := pt.name.getD [], value := pt.value, source := 3 } : Param))
        let c := c.setTx { t with mpart := some { mp with events := [] }, mpartGaveUp := true, params := t.params ++ ps }
        (mpartFileEvents uid mp.events.reverse c, .ok)

/-- htp_hook_run_all over the transaction's own REQUEST_BODY_DATA hook -/
def runTxReqBodyHooks (cfg : Cfg) (uid : Nat) (data : Option Bytes) (isLast : Bool) (gapLen : Nat) : List TxHook → Conn → R
  | [], c => (c, .ok)
  | h :: hs, c =>
    (match h with
     | .user => runCallback .txRequestBodyData (some uid) data isLast c gapLen
     | .urlenc => urlencBodyCallback cfg uid data c
     | .mpart => mpartBodyCallback uid data c) >>? fun c => runTxReqBodyHooks cfg uid data isLast gapLen hs c

/-- htp_req_run_hook_body_data with the `is_last` field of the data record given (the decompressor hands on the flag of the record
    it was called with) -/
def reqRunHookBodyDataL (cfg : Cfg) (data : Option Bytes) (gapLen : Nat) (isLast : Bool) (c : Conn) : R :=
  -- "Do not invoke callbacks with an empty data chunk"
  if data == some [] then (c, .ok) else
  match c.inn.tx with
  | none => (c, .ok)
  | some uid =>
    let t := c.inTx
    -- transaction hooks first (library content handlers and user-registered tx hooks, in registration order)
    runTxReqBodyHooks cfg uid data isLast gapLen t.reqBodyHooks c >>? fun c =>
    runCallback .requestBodyData (some uid) data isLast c gapLen >>? fun c =>
    if c.putFile then runCallback .requestFileData (some uid) data false c gapLen else (c, .ok)

/-- htp_req_run_hook_body_data as htp_tx_req_process_body_data_ex calls it: is_last = (data == NULL && len == 0) -/
def reqRunHookBodyData (cfg : Cfg) (data : Option Bytes) (gapLen : Nat) (c : Conn) : R :=
  reqRunHookBodyDataL cfg data gapLen (data.isNone && gapLen == 0) c

/-- htp_res_run_hook_body_data -/
def resRunHookBodyData (data : Option Bytes) (c : Conn) : R :=
  if data == some [] then (c, .ok) else
  match c.out.tx with
  | none => (c, .error)     -- NULL dereference in C; unreachable (callers hold out_tx)
  | some uid =>
    let t := c.outTx
    runCallbackN t.txResBodyHook .txResponseBodyData (some uid) data false 0 c >>? fun c =>
    runCallback .responseBodyData (some uid) data false c

/-! ### the decompression driver (htp_decompressors.c) around an abstract inflate() -/

/-- htp_gzip_decompressor_create -/
def decCreate (cfg : Cfg) (ty : Nat) : Dec :=
  { kind := ty, passthrough := ty == 4 && !(cfg.lzmaLayerLimit > 0) }

def Z_OK : Int := 0
def Z_STREAM_END : Int := 1
def Z_DATA_ERROR : Int := -3

/-- htp_gzip_decompressor_probe: bytes of a gzip header with extensions to skip -/
def gzipProbe (d : Bytes) : Nat :=
  if d.length < 4 then 0 else
  let f := d.getD 3 0
  let consumed :=
    if d.getD 0 0 == 0x1f && d.getD 1 0 == 0x8b && f != 0 then
      if f &&& 8 != 0 || f &&& 16 != 0 then 10 + ((d.drop 10).takeWhile (· != 0)).length + 1
      else if f &&& 2 != 0 then 12
      else 10
    else 0
  if consumed > d.length then 0 else consumed

/-- the bomb test of the decompressor callback: more than the configured limit AND more than 2048 times the compressed bytes -/
def bombExceeded (limit entity message : Nat) : Bool := entity > limit && entity > COMPRESSION_BOMB_RATIO * message

/-- the callback at the end of a decompressor chain. `req = false`: htp_tx_res_process_body_data_decompressor_callback; `req = true`:
    htp_tx_req_process_body_data_decompressor_callback. Both account the entity length, run the body hooks of their side and check for a
    bomb against the wire length of their own message (the time-based check is outside the model: the limit is assumed not to be reached) -/
def decFinalCallback (cfg : Cfg) (req : Bool) (uid : Nat) (isLast : Bool) (data : Option Bytes) (c : Conn) : R :=
  let n := (data.map (·.length)).getD 0
  if req then
    let c := c.modTx uid (fun t => { t with reqEntityLen := t.reqEntityLen + n })
    let (c, rc) := reqRunHookBodyDataL cfg data 0 isLast c
    if rc != .ok then (c, .error) else
    let t := (c.findTx uid).getD { uid := uid }
    if bombExceeded c.bombLimit t.reqEntityLen t.reqMessageLen then (c, .error)
    else (c, .ok)
  else
  let c := c.modTx uid (fun t => { t with resEntityLen := t.resEntityLen + n })
  let (c, rc) := resRunHookBodyData data c
  if rc != .ok then (c, .error) else
  let t := (c.findTx uid).getD { uid := uid }
  if bombExceeded c.bombLimit t.resEntityLen t.resMessageLen then (c, .error)
  else (c, .ok)

mutual
/-- where a layer sends its output: the next layer (when there is one and this layer is still initialised) or the callback -/
def decSend (cfg : Cfg) (req : Bool) (uid : Nat) (isLast : Bool) : Nat → Bool → List Dec → Option Bytes → Conn → List Dec × R
  | 0, _, rest, _, c => (rest, ({ c with unsupported := true }, .error))
  | fuel + 1, useNext, rest, data, c =>
    if useNext && !rest.isEmpty then decompress cfg req uid fuel rest data c
    else (rest, decFinalCallback cfg req uid isLast data c)

/-- the `while (avail_in != 0)` loop of htp_gzip_decompressor_decompress on chunk `d` with `inp` still unread -/
def decLoop (cfg : Cfg) (req : Bool) (uid : Nat) (d : Bytes) : Nat → Dec → List Dec → Bytes → Conn → List Dec × R
  | 0, drec, rest, _, c => (drec :: rest, ({ c with unsupported := true }, .error))
  | fuel + 1, drec, rest, inp, c =>
    if inp.isEmpty then (drec :: rest, (c, .ok)) else
    -- a full buffer is sent on first
    let flushed : Option (Dec × List Dec × Conn) :=
      if drec.buf.length == GZIP_BUF_SIZE then
        let (rest, (c, rc)) := decSend cfg req uid false fuel (drec.kind != 0) rest (some drec.buf) c
        if rc != .ok then none else some ({ drec with buf := [] }, rest, c)
      else some (drec, rest, c)
    match flushed with
    | none =>
      -- callback failed: htp_gzip_decompressor_end (which also forgets the output buffer - finding S39, repaired), return its code
      -- (re-run to get the state it left)
      let (rest, (c, rc)) := decSend cfg req uid false fuel (drec.kind != 0) rest (some drec.buf) c
      ({ drec with kind := 0, buf := [] } :: rest, (c, rc))
    | some (drec, rest, c) => decStep cfg req uid d fuel drec rest inp c

/-- one pass of that loop after the buffer check: the inflate() call and what follows from its result -/
def decStep (cfg : Cfg) (req : Bool) (uid : Nat) (d : Bytes) : Nat → Dec → List Dec → Bytes → Conn → List Dec × R
  | 0, drec, rest, _, c => (drec :: rest, ({ c with unsupported := true }, .error))
  | fuel + 1, drec, rest, inp, c =>
    if drec.kind == 4 then (drec :: rest, ({ c with unsupported := true }, .ok)) else   -- LZMA: not modelled
    if drec.kind == 0 then (drec :: rest, (c, .error)) else    -- "no initialization means previous error on stream"
    match c.zoracle with
    | [] => (drec :: rest, ({ c with unsupported := true }, .ok))     -- no recorded inflate result: outside the model
    | z :: zs =>
      let c := { c with zoracle := zs }
      let inp := inp.drop z.consumed
      let drec := { drec with buf := drec.buf ++ z.produced }
      let rc := if drec.buf.length > 0 && z.rc == Z_DATA_ERROR then Z_STREAM_END else z.rc
      if rc == Z_STREAM_END then
        let (rest, (c, crc)) := decSend cfg req uid false fuel (drec.kind != 0) rest (some drec.buf) c
        if crc != .ok then ({ drec with kind := 0, buf := [] } :: rest, (c, crc))
        else ({ drec with buf := [] } :: rest, (c, .ok))       -- the rest of the input is dropped ("TODO Handle trailer")
      else if rc != Z_OK then
        -- inflateEnd; htp_gzip_decompressor_restart
        let restarted : Option (Dec × Nat) :=
          if drec.restart < 3 then
            if drec.restart == 0 then some ({ drec with restart := 1 }, gzipProbe d)
            else if drec.kind == 3 then some ({ drec with kind := 2, restart := drec.restart + 1 }, gzipProbe d)
            else if drec.kind == 2 then some ({ drec with kind := 3, restart := drec.restart + 1 }, gzipProbe d)
            else none
          else none
        match restarted with
        | some (drec, consumed) =>
          if consumed > d.length then (drec :: rest, (c, .error))
          else decLoop cfg req uid d fuel drec rest (d.drop consumed) c
        | none =>
          -- every attempt failed: hand the raw chunk to the callback and keep passing data through
          let drec := { drec with kind := 0 }
          let (c, crc) := decFinalCallback cfg req uid false (some d) c
          if crc != .ok then (drec :: rest, (c, .error))
          else ({ drec with buf := [], passthrough := true } :: rest, (c, .ok))
      else decLoop cfg req uid d fuel drec rest inp c

/-- htp_gzip_decompressor_decompress on the chain `drec :: rest` -/
def decompress (cfg : Cfg) (req : Bool) (uid : Nat) : Nat → List Dec → Option Bytes → Conn → List Dec × R
  | 0, ds, _, c => (ds, ({ c with unsupported := true }, .error))
  | _ + 1, [], _, c => ([], (c, .error))
  | fuel + 1, drec :: rest, data, c =>
    if drec.passthrough then
      let (c, rc) := decFinalCallback cfg req uid data.isNone data c
      (drec :: rest, (c, if rc != .ok then .error else .ok))
    else
    match data with
    | none =>
      -- end of the stream: what is in the buffer goes out (NULL when there is nothing)
      let dout := if drec.buf.length > 0 then some drec.buf else none
      let (rest, (c, rc)) := decSend cfg req uid true fuel (drec.kind != 0) rest dout c
      if rc != .ok && !(drec.kind != 0 && !rest.isEmpty) then ({ drec with kind := 0, buf := [] } :: rest, (c, rc))
      else (drec :: rest, (c, rc))
    | some d => decLoop cfg req uid d fuel drec rest d c
end

/-- htp_tx_req_process_body_data_ex. With a request Content-Encoding that the library decodes (request decompression enabled) the data
    goes through the request decompressor, whose return value is ignored; NULL data - the end of the body, but also a stream gap - shuts
    the decompressor down, after which further body data is refused. -/
def reqProcessBodyData (cfg : Cfg) (data : Option Bytes) (gapLen : Nat) (c : Conn) : R :=
  match c.inn.tx with
  | none => (c, .error)
  | some uid =>
    let t := (c.findTx uid).getD { uid := uid }
    if t.reqContentEncoding == 2 || t.reqContentEncoding == 3 || t.reqContentEncoding == 4 then
      if c.inDecs.isEmpty then (c, .error) else
      if !c.zused then ({ c with unsupported := true }, .ok) else
      -- a stream gap through the request decompressor (NULL data, is_last = 0) is outside the model
      if data.isNone && gapLen > 0 then ({ c with unsupported := true }, .ok) else
      let n := (data.map (·.length)).getD gapLen
      let (ds, (c, _)) := decompress cfg true uid (8 * n + 128) c.inDecs data c
      ({ c with inDecs := if data.isNone then [] else ds }, .ok)
    else
    let n := (data.map (·.length)).getD gapLen
    let c := c.modTx uid (fun t => { t with reqEntityLen := t.reqEntityLen + n })
    let (c, rc) := reqRunHookBodyData cfg data gapLen c
    if rc != .ok then (c, .error) else (c, .ok)

/-- htp_tx_res_process_body_data_ex -/
def resProcessBodyData (cfg : Cfg) (data : Option Bytes) (c : Conn) : R :=
  match c.out.tx with
  | none => (c, .error)
  | some uid =>
    let n := (data.map (·.length)).getD 0
    let c := c.modTx uid (fun t => { t with resMessageLen := t.resMessageLen + n })
    let t := c.outTx
    if t.resContentEncodingProcessing == 2 || t.resContentEncodingProcessing == 3 || t.resContentEncodingProcessing == 4 then
      if c.outDecs.isEmpty then (c, .error) else
      if !c.zused then ({ c with unsupported := true }, .ok) else
      -- the return value of the decompressor is ignored
      let (ds, (c, _)) := decompress cfg false uid (8 * n + 128) c.outDecs data c
      let c := { c with outDecs := if data.isNone then [] else ds }
      (c, .ok)
    else if t.resContentEncodingProcessing == 1 then
      let c := c.modTx uid (fun t => { t with resEntityLen := t.resEntityLen + n })
      let (c, rc) := resRunHookBodyData data c
      if rc != .ok then (c, .error) else (c, .ok)
    else (c, .error)

/-! ### request side state transitions -/

/-- htp_tx_finalize -/
def txFinalize (cfg : Cfg) (uid : Nat) (c : Conn) : R :=
  match c.findTx uid with
  | none => (c, .ok)
  | some t =>
    if !t.isComplete then (c, .ok) else
    runCallback .transactionComplete (some uid) none false c >>? fun c =>
    -- tx_auto_destroy: htp_tx_destroy (the callback may already have destroyed it)
    if cfg.txAutoDestroy then
      (match c.findTx uid with
       | some _ => (destroyTx uid c, .ok)
       | none => (c, .ok))
    else (c, .ok)

/-- htp_tx_state_request_complete_partial -/
def txStateRequestCompletePartial (cfg : Cfg) (uid : Nat) (c : Conn) : R :=
  let t := (c.findTx uid).getD { uid := uid }
  let hasBody := t.reqTransferCoding == CODING_IDENTITY || t.reqTransferCoding == CODING_CHUNKED
  (if hasBody then
     -- htp_tx_req_process_body_data_ex(tx, NULL, 0) on tx (== in_tx in stream mode)
     reqProcessBodyData cfg none 0 c
   else (c, .ok)) >>? fun c =>
  let c := c.modTx uid (fun t => { t with reqProgress := 5 })
  runCallback .requestComplete (some uid) none false c >>? fun c =>
  reqReceiverFinalizeClear c >>? fun c =>
  ({ c with putFile := false }, .ok)

/-- htp_tx_state_request_complete -/
def txStateRequestComplete (cfg : Cfg) (uid : Nat) (c : Conn) : R :=
  let t := (c.findTx uid).getD { uid := uid }
  (if t.reqProgress != 5 then txStateRequestCompletePartial cfg uid c else (c, .ok)) >>? fun c =>
  let is09 := ((c.findTx uid).map (·.is09)).getD t.is09
  let c := { c with inState := if is09 then .ignoreDataAfter09 else .idle }
  -- htp_tx_finalize(tx) — return value ignored
  let (c, _) := txFinalize cfg uid c
  ({ c with inn := { c.inn with tx := none } }, .ok)

/-- htp_tx_state_request_start -/
def txStateRequestStart (uid : Nat) (c : Conn) : R :=
  runCallback .requestStart (some uid) none false c >>? fun c =>
  let c := { c with inState := .line }
  (c.modIn (fun t => { t with reqProgress := 1 }), .ok)

/-- the table update of htp_process_request_header_generic / htp_process_response_header_generic, as a pure function of
    (headers, repetition counter, new header): first case-insensitive match wins; the second occurrence raises FIELD_REPEATED;
    Content-Length repetitions are not concatenated; at most MAX_HEADERS_REPETITIONS further merges per transaction. -/
def addHeader (hs : List Header) (reps : Nat) (h : Header) : List Header × Nat :=
  match hs.findIdx? (fun e => Bstr.cmpMemNocase e.name h.name == 0) with
  | none => (hs ++ [h], reps)
  | some i =>
    let e := hs.getD i default
    if hasFlag e.flags FIELD_REPEATED && reps ≥ MAX_HEADERS_REPETITIONS then (hs, reps) else
    let reps := if hasFlag e.flags FIELD_REPEATED then reps + 1 else reps
    let e := { e with flags := setFlag e.flags FIELD_REPEATED }
    let e := if Bstr.cmpMemNocase h.name (b!"Content-Length") == 0 then e
             else { e with value := e.value ++ [0x2c, 0x20] ++ h.value }
    (hs.set i e, reps)

/-- add or merge one parsed request header (htp_process_request_header_generic) -/
def processRequestHeader (data : Bytes) (c : Conn) : R :=
  let (h, txf) := parseRequestHeader data
  let c := c.modIn (fun t => { t with flags := t.flags ||| txf })
  (c.modIn (fun t =>
    let (hs, reps) := addHeader t.reqHeaders t.reqHeaderRepetitions h
    { t with reqHeaders := hs, reqHeaderRepetitions := reps }), .ok)

def processResponseHeader (data : Bytes) (c : Conn) : R :=
  let (h, txf) := parseResponseHeader data
  -- missing colon: UNPARSEABLE and INVALID are raised on the tx only if UNPARSEABLE was not already set
  let c := c.modOut (fun t =>
    if hasFlag h.flags FIELD_UNPARSEABLE then
      (if hasFlag t.flags FIELD_UNPARSEABLE then t else { t with flags := t.flags ||| FIELD_UNPARSEABLE ||| FIELD_INVALID })
    else { t with flags := t.flags ||| txf })
  (c.modOut (fun t =>
    let (hs, reps) := addHeader t.resHeaders t.resHeaderRepetitions h
    { t with resHeaders := hs, resHeaderRepetitions := reps }), .ok)

/-- htp_table_get_c on a header list: first entry whose name (NULs skipped) equals `key` case-insensitively -/
def getHeaderC (hs : List Header) (key : Bytes) : Option Header :=
  hs.find? (fun e => Bstr.cmpMemNocaseNorzero e.name key == 0)

/-- result of the T-E / C-L arbitration of htp_tx_process_request_headers -/
structure Framing where
  coding : Nat
  contentLength : Int
  flags : Nat
  deriving Repr, DecidableEq

/-- the arbitration itself, as a pure function of the header table and the protocol number -/
def requestFraming (hs : List Header) (protocolNumber : Int) (flags : Nat) : Framing :=
  let cl := getHeaderC hs (b!"content-length")
  let te := getHeaderC hs (b!"transfer-encoding")
  match te with
  | some te =>
    if !headerHasToken te.value (b!"chunked") then
      { coding := CODING_INVALID, contentLength := -1, flags := flags ||| REQUEST_INVALID_T_E ||| REQUEST_INVALID }
    else
      let flags := if protocolNumber < PROTOCOL_1_1 then flags ||| REQUEST_INVALID_T_E ||| REQUEST_SMUGGLING else flags
      let flags := if cl.isSome then flags ||| REQUEST_SMUGGLING else flags
      { coding := CODING_CHUNKED, contentLength := -1, flags := flags }
  | none =>
    match cl with
    | some cl =>
      let flags := if hasFlag cl.flags FIELD_FOLDED then flags ||| REQUEST_SMUGGLING else flags
      let flags := if hasFlag cl.flags FIELD_REPEATED then flags ||| REQUEST_SMUGGLING else flags
      let n := Num.parseContentLength cl.value
      if n < 0 then { coding := CODING_INVALID, contentLength := n, flags := flags ||| REQUEST_INVALID_C_L ||| REQUEST_INVALID }
      else { coding := CODING_IDENTITY, contentLength := n, flags := flags }
    | none => { coding := CODING_NO_BODY, contentLength := -1, flags := flags }

/-- host determination of htp_tx_process_request_headers: (hostname, port, flags) -/
def requestHost (hs : List Header) (uriHost : Option Bytes) (uriPort : Int) (protocolNumber : Int) (flags : Nat) :
    Option Bytes × Int × Nat :=
  match getHeaderC hs (b!"host") with
  | none => (uriHost, uriPort, if protocolNumber ≥ PROTOCOL_1_1 then flags ||| HOST_MISSING else flags)
  | some h =>
    let hp := Uri.parseHostport h.value
    let flags := if hp.invalid then flags ||| HOSTH_INVALID else flags
    let flags := match hp.hostname with
      | some hn => if Uri.validateHostname Uri.ipv6Valid hn then flags else flags ||| HOSTH_INVALID
      | none => flags
    match hp.hostname with
    | some hn =>
      (match uriHost with
       | none => (some hn, hp.portNumber, flags)
       | some uh =>
         let flags := if Bstr.cmpMemNocase hn uh != 0 then flags ||| HOST_AMBIGUOUS else flags
         let flags := if uriPort != -1 && hp.portNumber != -1 && uriPort != hp.portNumber then flags ||| HOST_AMBIGUOUS else flags
         (some uh, uriPort, flags))
    | none => (uriHost, uriPort, if uriHost.isSome then flags ||| HOST_AMBIGUOUS else flags)

/-- htp_ch_urlencoded_callback_request_headers: the library's urlencoded body parser is attached when the content type asks for it -/
def installUrlenc (cfg : Cfg) (uid : Nat) (t : Tx) (c : Conn) : Conn :=
  if cfg.urlencParsers then
    let t := (c.findTx uid).getD t
    match t.reqContentType with
    | some ct =>
      if Bstr.beginsWithMem ct (b!"application/x-www-form-urlencoded") then
        c.setTx { t with urlenBody := some {}, reqBodyHooks := t.reqBodyHooks ++ [.urlenc] }
      else c
    | none => c
  else c

/-- htp_ch_multipart_callback_request_headers (HTP_DECLINED when there is no usable boundary) -/
def installMpart (cfg : Cfg) (uid : Nat) (t : Tx) (c : Conn) : Conn :=
  if cfg.multipartParser then
    let t := (c.findTx uid).getD t
    match t.reqContentType, getHeaderC t.reqHeaders (b!"content-type") with
    | some _, some ct =>
      (match Multipart.findBoundary ct.value with
       | (some b, flags) => c.setTx { t with mpart := some (Multipart.create b flags), reqBodyHooks := t.reqBodyHooks ++ [.mpart] }
       | (none, _) => c)
    | _, _ => c
  else c

/-- the end of htp_tx_process_request_headers: the outcome of the credentials parser, the header-data receiver, the library's own
    content handlers (registered on REQUEST_HEADERS, they run before the user's callback), then the REQUEST_HEADERS callback -/
def txProcessRequestHeadersTail (cfg : Cfg) (uid : Nat) (t : Tx) (authErr : Bool) (c : Conn) : R :=
  if authErr then (c, .error) else
  reqReceiverFinalizeClear c >>? fun c =>
  runCallback .requestHeaders (some uid) none false (installMpart cfg uid t (installUrlenc cfg uid t c))

/-- htp_tx_process_request_headers -/
def txProcessRequestHeaders (cfg : Cfg) (uid : Nat) (c : Conn) : R :=
  let t := (c.findTx uid).getD { uid := uid }
  -- request decompression (off by default; the model flags it unsupported when a decompressor is built)
  let ce := getHeaderC t.reqHeaders (b!"content-encoding")
  let enc : Nat :=
    if !cfg.requestDecompression then 0 else
    match ce with
    | some ce =>
      let is (n : Bytes) : Bool := Bstr.cmpMemNocaseNorzero ce.value n == 0
      if is (b!"gzip") || is (b!"x-gzip") then 2
      else if is (b!"deflate") || is (b!"x-deflate") then 3
      else if is (b!"lzma") then 4 else 1
    | none => 1
  let c := c.modTx uid (fun t => { t with reqContentEncoding := enc })
  let t := (c.findTx uid).getD { uid := uid }
  -- a decompressor left over from an earlier request is destroyed first
  let c := if enc == 2 || enc == 3 || enc == 4 then { c with inDecs := [decCreate cfg enc], reqDecompressor := true } else c
  let fr := requestFraming t.reqHeaders t.protocolNumber t.flags
  let t := { t with reqTransferCoding := fr.coding, flags := fr.flags,
                    reqContentLength := if (getHeaderC t.reqHeaders (b!"transfer-encoding")).isNone &&
                                            (getHeaderC t.reqHeaders (b!"content-length")).isSome
                                        then fr.contentLength else t.reqContentLength }
  -- PUT with a body is treated as a file upload
  let hasBody := t.reqTransferCoding == CODING_IDENTITY || t.reqTransferCoding == CODING_CHUNKED
  let c := if t.methodNumber == M_PUT && hasBody then { c with putFile := true } else c
  -- hostname
  let un := t.uriNorm.getD {}
  let (hn, pn, flags) := requestHost t.reqHeaders un.hostname un.portNumber t.protocolNumber t.flags
  let t := { t with hostname := hn, portNumber := pn, flags := flags }
  -- content type
  let t := match getHeaderC t.reqHeaders (b!"content-type") with
    | some ct => { t with reqContentType := some (parseCtHeader ct.value) }
    | none => t
  -- cookies
  let t := if cfg.parseRequestCookies then
      (match getHeaderC t.reqHeaders (b!"cookie") with
       | some ck => { t with cookies := some (parseCookies ck.value) }
       | none => t)
    else t
  -- authorization
  let (t, authErr) : Tx × Bool :=
    if cfg.parseRequestAuth then
      (match getHeaderC t.reqHeaders (b!"authorization") with
       | none => ({ t with authType := 1 }, false)
       | some a =>
         match parseAuthorization a.value with
         | .ok ty u p => ({ t with authType := ty, authUser := u, authPass := p }, false)
         | .declined ty =>
           if ty ≥ 100 then ({ t with authType := ty - 100 }, true)
           else ({ t with authType := ty, flags := t.flags ||| AUTH_INVALID }, false))
    else (t, false)
  txProcessRequestHeadersTail cfg uid t authErr (c.setTx t)

/-- htp_tx_state_request_headers -/
def txStateRequestHeaders (cfg : Cfg) (uid : Nat) (c : Conn) : R :=
  let t := (c.findTx uid).getD { uid := uid }
  if t.reqProgress > 2 then
    runCallback .requestTrailer (some uid) none false c >>? fun c =>
    reqReceiverFinalizeClear c >>? fun c =>
    ({ c with inState := .finalize }, .ok)
  else if t.reqProgress ≥ 1 then
    let c := if c.inChunkCount != c.inChunkRequestIndex
             then c.modTx uid (fun t => { t with flags := t.flags ||| MULTI_PACKET_HEAD }) else c
    txProcessRequestHeaders cfg uid c >>? fun c =>
    ({ c with inState := .connectCheck }, .ok)
  else (c, .error)

/-- the library's query-string handler registered on REQUEST_LINE -/
def urlencQueryCallback (cfg : Cfg) (uid : Nat) (c : Conn) : Conn :=
  match c.findTx uid with
  | none => c
  | some t =>
    match (t.uriNorm.bind (·.query)) with
    | none => c
    | some q =>
      if q.length == 0 then c else
      let u : Urlenc.S := { flags := t.flags, status := t.expectedStatus }
      let u := Urlenc.finalize cfg.urlencCfg (Urlenc.feed cfg.urlencCfg u q)
      let ps := u.params.reverse.map (fun (n, v) => ({ name := n, value := some v, source := 1 } : Param))
      c.setTx { t with flags := u.flags, expectedStatus := u.status, params := t.params ++ ps }

/-- htp_tx_state_request_line -/
def txStateRequestLine (cfg : Cfg) (uid : Nat) (c : Conn) : R :=
  let t := (c.findTx uid).getD { uid := uid }
  -- a CONNECT line without a target: htp_parse_hostport(NULL, ..) fails before anything else happens
  if t.methodNumber == M_CONNECT && t.uri.isNone then (c, .error) else
  -- URI parsing: CONNECT uses the authority parser
  let t : Tx :=
    if t.methodNumber == M_CONNECT then
      let hp := Uri.parseHostport (t.uri.getD [])
      let flags := if hp.invalid then t.flags ||| HOSTU_INVALID else t.flags
      let flags := match hp.hostname with
        | some hn => if Uri.validateHostname Uri.ipv6Valid hn then flags else flags ||| HOSTU_INVALID
        | none => flags
      { t with uriRaw := { t.uriRaw with hostname := hp.hostname, port := hp.port, portNumber := hp.portNumber }, flags := flags }
    else
      match t.uri with
      | some u => { t with uriRaw := Uri.parseUri u }
      | none => t
  let t : Tx :=
    match t.uriNorm with
    | some _ => t
    | none =>
      let (n, f, s) := Uri.normalizeParsedUri cfg.pathCfg t.uriRaw t.flags t.expectedStatus
      { t with uriNorm := some n, flags := f, expectedStatus := s }
  let t : Tx :=
    match t.uriNorm.bind (·.hostname) with
    | some hn => if Uri.validateHostname Uri.ipv6Valid hn then t else { t with flags := t.flags ||| HOSTU_INVALID }
    | none => t
  let c := c.setTx t
  runCallback .requestUriNormalize (some uid) none false c >>? fun c =>
  let c := if cfg.urlencParsers then urlencQueryCallback cfg uid c else c
  runCallback .requestLine (some uid) none false c >>? fun c =>
  ({ c with inState := .protocol }, .ok)

/-! ### response side state transitions -/

/-- htp_tx_state_response_complete_ex(tx, hybrid_mode = 0) -/
def txStateResponseCompleteEx (cfg : Cfg) (uid : Nat) (c : Conn) : R :=
  let t := (c.findTx uid).getD { uid := uid }
  (if t.resProgress != 5 then
     let c := c.modTx uid (fun t => { t with resProgress := 5 })
     -- htp_tx_res_process_body_data_ex(tx, NULL, 0): return value ignored
     let c := if t.resTransferCoding != CODING_NO_BODY then (resProcessBodyData cfg none c).1 else c
     runCallback .responseComplete (some uid) none false c >>? fun c =>
     resReceiverFinalizeClear c
   else (c, .ok)) >>? fun c =>
  if c.inn.status == STREAM_DATA_OTHER && c.inn.tx == c.out.tx then (c, .dataOther) else
  if c.outDataOtherAtTxEnd then ({ c with outDataOtherAtTxEnd := false }, .dataOther) else
  txFinalize cfg uid c >>? fun c =>
  ({ c with out := { c.out with tx := none }, outState := .idle }, .ok)

/-- the Content-Encoding analysis of htp_tx_state_response_headers: does the response need a decompressor? -/
def responseNeedsDecompressor (cfg : Cfg) (t : Tx) : Nat × Bool :=
  match getHeaderC t.resHeaders (b!"content-encoding") with
  | none => (1, false)
  | some ce =>
    let is (n : Bytes) := Bstr.cmpMemNocaseNorzero ce.value n == 0
    if is (b!"gzip") || is (b!"x-gzip") then (2, cfg.responseDecompression)
    else if is (b!"deflate") || is (b!"x-deflate") then (3, cfg.responseDecompression)
    else if is (b!"lzma") then (4, cfg.responseDecompression)
    else if is (b!"inflate") then (1, false)
    else (1, cfg.responseDecompression)    -- ce_multi_comp: token list is examined (model: unsupported)

/-- a separator of the Content-Encoding token list (get_token(.., ", ", ..)) -/
def ceSep (b : UInt8) : Bool := b == 0x2c || b == 0x20

/-- get_token: skip leading separators; none when nothing is left, else the number of separators skipped and the token up to the
    next separator -/
def getToken (input : Bytes) : Option (Nat × Bytes) :=
  let skipped := (input.takeWhile ceSep).length
  if skipped ≥ input.length then none else some (skipped, (input.drop skipped).takeWhile (fun b => !ceSep b))

/-- the coding a token of a multi-valued Content-Encoding stands for (1 = none / unknown) -/
def ceTokenType (tok : Bytes) : Nat :=
  if (Bstr.indexOfMemNocase tok (b!"gzip")).isSome then 2
  else if (Bstr.indexOfMemNocase tok (b!"deflate")).isSome then 3
  else if tok == (b!"lzma") then 4
  else 1

/-- the token loop of htp_tx_state_response_headers (slow path): the codings for which a decompressor is created, in order.
    `layers` counts every token when a limit is configured; lzma is only accepted among the first `lzmaLimit` tokens.
    The input advances past the skipped separators, the token and one separator (S40, repaired in /repo: it used to advance by
    token length + 1 from where the pass started). -/
def ceChainLoop (layerLimit lzmaLimit : Int) : Nat → Bytes → Int → Int → List Nat → List Nat
  | 0, _, _, _, acc => acc
  | fuel + 1, input, layers, nblzma, acc =>
    if input.isEmpty then acc else
    match getToken input with
    | none => acc
    | some (skipped, tok) =>
      let layers := if layerLimit != 0 then layers + 1 else layers
      if layerLimit != 0 && layers > layerLimit then acc else
      let nblzma := nblzma + 1
      let ty := ceTokenType tok
      if ty == 4 && nblzma > lzmaLimit then acc else
      let acc := if ty != 1 then acc ++ [ty] else acc
      if skipped + tok.length + 1 ≥ input.length then acc
      else ceChainLoop layerLimit lzmaLimit fuel (input.drop (skipped + tok.length + 1)) layers nblzma acc

def ceChain (cfg : Cfg) (value : Bytes) : List Nat := ceChainLoop cfg.layerLimit cfg.lzmaLayerLimit (value.length + 1) value 0 0 []

/-- htp_tx_state_response_headers -/
def txStateResponseHeaders (cfg : Cfg) (uid : Nat) (c : Conn) : R :=
  let t := (c.findTx uid).getD { uid := uid }
  let (enc, needs) := responseNeedsDecompressor cfg t
  let c := c.modTx uid (fun t => { t with resContentEncoding := enc,
                                          resContentEncodingProcessing := if cfg.responseDecompression then enc else 1 })
  resReceiverFinalizeClear c >>? fun c =>
  runCallback .responseHeaders (some uid) none false c >>? fun c =>
  if needs then
    -- an earlier chain is destroyed; then one decompressor (fast path) or one per recognised token (slow path)
    if enc != 1 then ({ c with outDecs := [decCreate cfg enc], outDecompressor := true }, .ok)
    else
      let value := ((getHeaderC t.resHeaders (b!"content-encoding")).map (·.value)).getD []
      let chain := ceChain cfg value
      let c := { c with outDecs := chain.map (decCreate cfg), outDecompressor := true }
      match chain with
      | [] => (c, .ok)
      | ty :: _ => (c.modTx uid (fun t => { t with resContentEncodingProcessing := ty }), .ok)
  else (c, .ok)

/-- htp_tx_state_response_start -/
def txStateResponseStart (uid : Nat) (c : Conn) : R :=
  let c := { c with out := { c.out with tx := some uid } }
  runCallback .responseStart (some uid) none false c >>? fun c =>
  let t := (c.findTx uid).getD { uid := uid }
  if t.is09 then
    let c := c.modTx uid (fun t => { t with resTransferCoding := CODING_IDENTITY, resContentEncodingProcessing := 1,
                                            resProgress := 3 })
    ({ c with outState := .bodyIdentityStreamClose, out := { c.out with bodyDataLeft := -1 } }, .ok)
  else
    let c := c.modTx uid (fun t => { t with resProgress := 1 })
    ({ c with outState := .line }, .ok)

/-- htp_tx_state_response_line -/
def txStateResponseLine (uid : Nat) (c : Conn) : R :=
  let t := (c.findTx uid).getD { uid := uid }
  -- "Is the response line valid?"
  let c := if t.resProtocolNumber == PROTOCOL_INVALID || t.resStatusNumber == -1 ||
              t.resStatusNumber < VALID_STATUS_MIN || t.resStatusNumber > VALID_STATUS_MAX
           then c.modTx uid (fun t => { t with flags := t.flags ||| STATUS_LINE_INVALID }) else c
  runCallback .responseLine (some uid) none false c

end Htp.Conn
