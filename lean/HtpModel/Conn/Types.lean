/- State of one connection parser: connp + conn + every tx, as one immutable value.
   Transactions are referred to by a unique id (`uid`), never by pointer. -/
import HtpModel.Cfg
import HtpModel.Conn.Parsers
import HtpModel.Util.Uri
import HtpModel.Urlenc
import HtpModel.Multipart

namespace Htp.Conn
open Htp.Gen Htp.Parse

/-- htp_status_t values that state functions return -/
inductive Rc where
  | ok | error | declined | data | dataOther | dataBuffer | stop
  deriving Repr, DecidableEq, Inhabited

inductive ReqState where
  | idle | line | protocol | headers | connectCheck | connectWaitResponse | connectProbeData
  | bodyDetermine | bodyIdentity | bodyChunkedLength | bodyChunkedData | bodyChunkedDataEnd
  | finalize | ignoreDataAfter09
  deriving Repr, DecidableEq, Inhabited

inductive ResState where
  | idle | line | headers | bodyDetermine | bodyIdentityClKnown | bodyIdentityStreamClose
  | bodyChunkedLength | bodyChunkedData | bodyChunkedDataEnd | finalize
  deriving Repr, DecidableEq, Inhabited

/-- which hook a callback invocation belongs to -/
inductive Hook where
  | requestStart | requestLine | requestUriNormalize | requestHeaderData | requestHeaders | requestBodyData
  | requestFileData | requestTrailerData | requestTrailer | requestComplete
  | responseStart | responseLine | responseHeaderData | responseHeaders | responseBodyData
  | responseTrailerData | responseTrailer | responseComplete | transactionComplete
  | txRequestBodyData | txResponseBodyData
  deriving Repr, DecidableEq, Inhabited

def Hook.name : Hook → String
  | .requestStart => "request_start" | .requestLine => "request_line"
  | .requestUriNormalize => "request_uri_normalize" | .requestHeaderData => "request_header_data"
  | .requestHeaders => "request_headers" | .requestBodyData => "request_body_data"
  | .requestFileData => "request_file_data" | .requestTrailerData => "request_trailer_data"
  | .requestTrailer => "request_trailer" | .requestComplete => "request_complete"
  | .responseStart => "response_start" | .responseLine => "response_line"
  | .responseHeaderData => "response_header_data" | .responseHeaders => "response_headers"
  | .responseBodyData => "response_body_data" | .responseTrailerData => "response_trailer_data"
  | .responseTrailer => "response_trailer" | .responseComplete => "response_complete"
  | .transactionComplete => "transaction_complete"
  | .txRequestBodyData => "tx_request_body_data" | .txResponseBodyData => "tx_response_body_data"

/-- what a callback does (the harness has the same table) -/
inductive CbAction where
  | ok | declined | stop | error | destroyTx | regTxHooks
  deriving Repr, DecidableEq, Inhabited

/-- one callback invocation, as logged -/
structure Event where
  hook : Hook
  tx : Int                 -- tx uid (-1: none)
  data : Option Bytes := none     -- data callbacks: the bytes (none = NULL = end marker)
  isLast : Bool := false
  gapLen : Nat := 0               -- NULL data with a non-zero length (stream gap)
  stale : Bool := false           -- the pointer handed out refers to a chunk whose data call has returned
  reqProgress : Nat := 0
  resProgress : Nat := 0
  deriving Repr, DecidableEq, Inhabited

structure Param where
  name : Bytes
  value : Option Bytes            -- NULL for a multipart text part without data
  source : Nat
  deriving Repr, DecidableEq, Inhabited

/-- what is registered on a transaction's own REQUEST_BODY_DATA hook, in registration order -/
inductive TxHook where
  | user      -- the embedder's callback (htp_tx_register_request_body_data from inside a callback)
  | urlenc    -- htp_ch_urlencoded_callback_request_body_data
  | mpart     -- htp_ch_multipart_callback_request_body_data
  deriving Repr, DecidableEq, Inhabited

structure Tx where
  uid : Nat
  index : Nat := 0                 -- tx->index (list size at creation)
  -- request
  reqProgress : Nat := 0
  reqLine : Option Bytes := none
  method : Option Bytes := none
  methodNumber : Nat := 0
  uri : Option Bytes := none
  protocol : Option Bytes := none
  protocolNumber : Int := PROTOCOL_UNKNOWN
  is09 : Bool := false
  uriRaw : Uri.UriRaw := {}
  uriNorm : Option Uri.UriNorm := none
  reqHeaders : List Header := []
  reqTransferCoding : Nat := CODING_UNKNOWN
  reqContentLength : Int := -1
  reqMessageLen : Nat := 0
  reqEntityLen : Nat := 0
  reqContentType : Option Bytes := none
  hostname : Option Bytes := none
  portNumber : Int := 0
  cookies : Option (List (Bytes × Bytes)) := none
  authType : Nat := 0
  authUser : Option Bytes := none
  authPass : Option Bytes := none
  params : List Param := []
  flags : Nat := 0
  reqHeaderRepetitions : Nat := 0
  reqIgnoredLines : Nat := 0
  expectedStatus : Int := 0
  urlenBody : Option Urlenc.S := none    -- request_urlenp_body
  reqBodyHooks : List TxHook := []       -- tx->hook_request_body_data
  mpart : Option Multipart.Parser := none  -- request_mpartp
  mpartGaveUp : Bool := false              -- request_mpartp->gave_up_data
  -- response
  resProgress : Nat := 0
  resLine : Option Bytes := none
  resProtocol : Option Bytes := none
  resProtocolNumber : Int := PROTOCOL_UNKNOWN
  resStatus : Option Bytes := none
  resStatusNumber : Int := 0
  resMessage : Option Bytes := none
  resHeaders : List Header := []
  resTransferCoding : Nat := CODING_UNKNOWN
  resContentLength : Int := -1
  resMessageLen : Nat := 0
  resEntityLen : Nat := 0
  resContentType : Option Bytes := none
  resContentEncoding : Nat := 0
  resContentEncodingProcessing : Nat := 0
  reqContentEncoding : Nat := 0          -- tx->request_content_encoding (0 unknown, 1 none, 2 gzip, 3 deflate, 4 lzma)
  seen100 : Nat := 0
  resHeaderRepetitions : Nat := 0
  resIgnoredLines : Nat := 0
  txResBodyHook : Nat := 0
  deriving Repr, Inhabited

/-- what one call of zlib's inflate() returned: the abstracted external function of the decompression driver. The model of the
    driver is run against a list of these (recorded from the real calls by the harness) or, in theorems, against ANY list. -/
structure ZRes where
  rc : Int                 -- Z_OK 0, Z_STREAM_END 1, Z_DATA_ERROR -3, Z_BUF_ERROR -5, ...
  consumed : Nat           -- avail_in before - after
  produced : Bytes         -- what was written to next_out
  deriving Repr, DecidableEq, Inhabited

/-- htp_decompressor_gzip_t: one layer of the decompressor chain -/
structure Dec where
  kind : Nat                 -- zlib_initialized: 0 = ended, 2 gzip, 3 deflate, 4 lzma
  passthrough : Bool := false
  restart : Nat := 0
  buf : Bytes := []          -- the output buffer: GZIP_BUF_SIZE - avail_out bytes
  deriving Repr, DecidableEq, Inhabited

/-- one direction's chunk cursor and buffers -/
structure Dir where
  status : Nat := STREAM_NEW
  cur : Bytes := []              -- current chunk (empty when NULL)
  curNull : Bool := true         -- in_current_data == NULL
  len : Int := 0                 -- in_current_len
  read : Int := 0
  consume : Int := 0
  receiver : Int := 0
  nextByte : Int := 0
  buf : Option Bytes := none     -- in_buf (NULL vs allocated; size = length)
  header : Option Bytes := none  -- in_header
  tx : Option Nat := none        -- in_tx / out_tx (uid)
  contentLength : Int := 0
  bodyDataLeft : Int := 0
  chunkedLength : Int := 0
  receiverHook : Option Hook := none
  live : Bool := false           -- a data call of this direction is running (its chunk pointer is valid)
  deriving Repr, Inhabited

structure Conn where
  inn : Dir := {}
  out : Dir := {}
  inState : ReqState := .idle
  inStatePrev : Option ReqState := none
  outState : ResState := .idle
  outStatePrev : Option ResState := none
  inChunkCount : Nat := 0
  inChunkRequestIndex : Nat := 0
  outNextTxIndex : Int := 0
  outDataOtherAtTxEnd : Bool := false
  putFile : Bool := false
  txs : List (Option Tx) := []       -- conn->transactions (NULL after destroy)
  nextUid : Nat := 0
  connFlags : Nat := 0
  inDataCounter : Nat := 0
  outDataCounter : Nat := 0
  -- callbacks
  policy : List (Nat × CbAction) := []   -- (global callback invocation number, action)
  cbCount : Nat := 0
  allowCbDestroy : Bool := true          -- false when tx_auto_destroy is on (the library destroys it itself)
  events : List Event := []              -- newest first; cleared by the driver per call
  -- model bookkeeping
  unsupported : Bool := false            -- the run entered behaviour the model does not cover
  reqDecompressor : Bool := false
  outDecompressor : Bool := false
  outDecs : List Dec := []               -- connp->out_decompressor chain (head first)
  inDecs : List Dec := []                -- connp->req_decompressor (a single layer)
  zoracle : List ZRes := []              -- results of the inflate() calls still to come in this data call
  zused : Bool := false                  -- an oracle was supplied for this data call
  bombLimit : Nat := 1048576             -- cfg->compression_bomb_limit (copied at creation)
  deriving Repr, Inhabited

def Conn.findTx (c : Conn) (uid : Nat) : Option Tx :=
  (c.txs.find? (fun t => match t with | some t => t.uid == uid | none => false)).join

def Conn.setTx (c : Conn) (t : Tx) : Conn :=
  { c with txs := c.txs.map (fun o => match o with | some x => if x.uid == t.uid then some t else some x | none => none) }

def Conn.modTx (c : Conn) (uid : Nat) (f : Tx → Tx) : Conn :=
  { c with txs := c.txs.map (fun o => match o with | some x => if x.uid == uid then some (f x) else some x | none => none) }

/-- the tx a direction works on; a default (never stored) when absent — callers guard as the C does -/
def Conn.inTx (c : Conn) : Tx := (c.inn.tx.bind c.findTx).getD { uid := 0 }
def Conn.outTx (c : Conn) : Tx := (c.out.tx.bind c.findTx).getD { uid := 0 }
def Conn.modIn (c : Conn) (f : Tx → Tx) : Conn := match c.inn.tx with | some u => c.modTx u f | none => c
def Conn.modOut (c : Conn) (f : Tx → Tx) : Conn := match c.out.tx with | some u => c.modTx u f | none => c

abbrev R := Conn × Rc

/-- continue only when the previous step returned HTP_OK -/
@[inline] def R.andThen (r : R) (f : Conn → R) : R := if r.2 == .ok then f r.1 else r

infixl:55 " >>? " => R.andThen

/-- (int64 → size_t) conversion of a possibly negative difference -/
def sizeOfInt (x : Int) : Nat := (x % 18446744073709551616).toNat

end Htp.Conn
