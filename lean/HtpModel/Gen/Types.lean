/- Hand-written record types that the generated tables instantiate. -/
namespace Htp.Gen

/-- One `htp_decoder_cfg_t` (htp_config_private.h), field for field, minus the map pointer
    (the only map in the tree is `bestfit_1252`, generated as `bestfit1252`). -/
structure DecoderCfg where
  backslashConvertSlashes : Bool := false
  convertLowercase : Bool := false
  pathSeparatorsCompress : Bool := false
  pathSeparatorsDecode : Bool := false
  plusspaceDecode : Bool := false
  pathSeparatorsEncodedUnwanted : Nat := 0
  nulRawTerminates : Bool := false
  nulRawUnwanted : Nat := 0
  controlCharsUnwanted : Nat := 0
  uEncodingDecode : Bool := false
  uEncodingUnwanted : Nat := 0
  urlEncodingInvalidHandling : Nat := 0
  urlEncodingInvalidUnwanted : Nat := 0
  nulEncodedTerminates : Bool := false
  nulEncodedUnwanted : Nat := 0
  utf8InvalidUnwanted : Nat := 0
  utf8ConvertBestfit : Bool := false
  bestfitReplacementByte : Nat := 63
  deriving Repr, DecidableEq, Inhabited

end Htp.Gen
