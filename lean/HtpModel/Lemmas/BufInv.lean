/- The request direction's line buffer stays within the hard limit and the cursors inside the chunk (`WFB`), per state function and for
   the whole loop of a data call (`CallReach`); from it, 'DATA means the whole chunk was consumed' for a whole call (C09, C10, C01). -/
import HtpModel.Lemmas.CursorInv
namespace Htp.Conn
open Htp Htp.Gen

/-- `f` leaves the request direction's line buffer alone -/
def KeepBuf (c c' : Conn) : Prop := c'.inn.buf = c.inn.buf

theorem KeepBuf.refl (c : Conn) : KeepBuf c c := rfl
theorem KeepBuf.trans {a b c : Conn} (h1 : KeepBuf a b) (h2 : KeepBuf b c) : KeepBuf a c := Eq.trans h2 h1

theorem keepBuf_of_frame {c c' : Conn} (h : FrameDirs c c') : KeepBuf c c' := by
  obtain ⟨_, _, _, _, _, _, h7, _, _⟩ := h.inn_fields
  exact h7

theorem keepBuf_andThen (c0 : Conn) (r : R) (f : Conn → R) (h1 : KeepBuf c0 r.1) (h2 : ∀ c, KeepBuf c (f c).1) :
    KeepBuf c0 (r >>? f).1 := by
  unfold R.andThen
  split
  · exact h1.trans (h2 _)
  · exact h1

theorem keepBuf_runCallback (h : Hook) (uid : Option Nat) (data : Option Bytes) (l : Bool) (c : Conn) (g : Nat) (s : Bool) :
    KeepBuf c (runCallback h uid data l c g s).1 := keepBuf_of_frame (frame_runCallback ..)

theorem keepBuf_modTx (u : Nat) (f : Tx → Tx) (c : Conn) : KeepBuf c (c.modTx u f) := rfl
theorem keepBuf_modIn (f : Tx → Tx) (c : Conn) : KeepBuf c (c.modIn f) := by
  unfold Conn.modIn
  split <;> exact rfl

theorem keepBuf_reqReceiverSend (l : Bool) (c : Conn) : KeepBuf c (reqReceiverSend l c).1 := by
  unfold reqReceiverSend
  cases c.inn.receiverHook with
  | none => exact KeepBuf.refl c
  | some h =>
    simp only
    apply keepBuf_andThen
    · exact keepBuf_runCallback ..
    · intro c2; exact rfl

theorem keepBuf_reqReceiverFinalizeClear (c : Conn) : KeepBuf c (reqReceiverFinalizeClear c).1 := by
  unfold reqReceiverFinalizeClear
  cases c.inn.receiverHook with
  | none => exact KeepBuf.refl c
  | some h =>
    simp only
    exact (keepBuf_reqReceiverSend true c).trans rfl

theorem keepBuf_reqReceiverSet (h : Hook) (c : Conn) : KeepBuf c (reqReceiverSet h c).1 := by
  unfold reqReceiverSet
  simp only
  exact (keepBuf_reqReceiverFinalizeClear c).trans rfl

theorem keepBuf_reqProcessBodyData (cfg : Cfg) (data : Option Bytes) (g : Nat) (c : Conn) :
    KeepBuf c (reqProcessBodyData cfg data g c).1 := keepBuf_of_frame (frame_reqProcessBodyData ..)

theorem keepBuf_txFinalize (cfg : Cfg) (uid : Nat) (c : Conn) : KeepBuf c (txFinalize cfg uid c).1 := by
  unfold txFinalize
  cases c.findTx uid with
  | none => exact KeepBuf.refl c
  | some t =>
    simp only
    split
    · exact KeepBuf.refl c
    · apply keepBuf_andThen
      · exact keepBuf_runCallback ..
      · intro c1
        split
        · split
          · exact keepBuf_of_frame (frame_destroyTx ..)
          · exact KeepBuf.refl _
        · exact KeepBuf.refl _

theorem keepBuf_txStateRequestCompletePartial (cfg : Cfg) (uid : Nat) (c : Conn) : KeepBuf c (txStateRequestCompletePartial cfg uid c).1 := by
  unfold txStateRequestCompletePartial
  simp only
  apply keepBuf_andThen
  · split
    · exact keepBuf_reqProcessBodyData ..
    · exact KeepBuf.refl c
  · intro c1
    apply keepBuf_andThen
    · exact (keepBuf_modTx _ _ c1).trans (keepBuf_runCallback ..)
    · intro c2
      apply keepBuf_andThen
      · exact keepBuf_reqReceiverFinalizeClear c2
      · intro c3; exact rfl

theorem keepBuf_txStateRequestComplete (cfg : Cfg) (uid : Nat) (c : Conn) : KeepBuf c (txStateRequestComplete cfg uid c).1 := by
  unfold txStateRequestComplete
  simp only
  apply keepBuf_andThen
  · split
    · exact keepBuf_txStateRequestCompletePartial ..
    · exact KeepBuf.refl c
  · intro c1
    have h := keepBuf_txFinalize cfg uid { c1 with inState := if ((c1.findTx uid).map (·.is09)).getD ((c.findTx uid).getD { uid := uid }).is09 then .ignoreDataAfter09 else .idle }
    exact (KeepBuf.trans rfl h).trans rfl

theorem keepBuf_txStateRequestStart (uid : Nat) (c : Conn) : KeepBuf c (txStateRequestStart uid c).1 := by
  unfold txStateRequestStart
  apply keepBuf_andThen
  · exact keepBuf_runCallback ..
  · intro c1
    exact KeepBuf.trans (b := { c1 with inState := .line }) rfl (keepBuf_modIn _ _)

theorem keepBuf_processRequestHeader (data : Bytes) (c : Conn) : KeepBuf c (processRequestHeader data c).1 := by
  unfold processRequestHeader
  simp only
  exact (keepBuf_modIn _ c).trans (keepBuf_modIn _ _)

theorem keepBuf_reqFlushHeader (c : Conn) : KeepBuf c (reqFlushHeader c).1 := by
  unfold reqFlushHeader
  cases c.inn.header with
  | none => exact KeepBuf.refl c
  | some h =>
    simp only
    have := keepBuf_processRequestHeader h c
    split
    · exact this
    · exact this.trans rfl

theorem keepBuf_setTx (t : Tx) (c : Conn) : KeepBuf c (c.setTx t) := rfl

theorem keepBuf_installUrlenc (cfg : Cfg) (uid : Nat) (t : Tx) (c : Conn) : KeepBuf c (installUrlenc cfg uid t c) := by
  unfold installUrlenc
  simp only []
  repeat' split
  all_goals first | exact KeepBuf.refl _ | exact keepBuf_setTx _ _

theorem keepBuf_installMpart (cfg : Cfg) (uid : Nat) (t : Tx) (c : Conn) : KeepBuf c (installMpart cfg uid t c) := by
  unfold installMpart
  simp only []
  repeat' split
  all_goals first | exact KeepBuf.refl _ | exact keepBuf_setTx _ _

theorem keepBuf_txProcessRequestHeadersTail (cfg : Cfg) (uid : Nat) (t : Tx) (ae : Bool) (c : Conn) :
    KeepBuf c (txProcessRequestHeadersTail cfg uid t ae c).1 := by
  unfold txProcessRequestHeadersTail
  split
  · exact KeepBuf.refl c
  · apply keepBuf_andThen
    · exact keepBuf_reqReceiverFinalizeClear _
    · intro c1
      exact ((keepBuf_installUrlenc cfg uid t c1).trans (keepBuf_installMpart ..)).trans (keepBuf_runCallback ..)

theorem keepBuf_txProcessRequestHeaders (cfg : Cfg) (uid : Nat) (c : Conn) : KeepBuf c (txProcessRequestHeaders cfg uid c).1 := by
  unfold txProcessRequestHeaders
  extract_lets t0 ce enc c2 t1 c1 fr t2 hasBody c0 un
  have k2 : KeepBuf c c2 := keepBuf_modTx ..
  have k1 : KeepBuf c2 c1 := by
    simp only [c1]
    split
    · exact rfl
    · exact KeepBuf.refl _
  have k0 : KeepBuf c1 c0 := by
    simp only [c0]
    split
    · exact rfl
    · exact KeepBuf.refl _
  have k := (k2.trans k1).trans k0
  clear_value c0
  repeat' split
  all_goals exact k.trans ((keepBuf_setTx _ _).trans (keepBuf_txProcessRequestHeadersTail ..))

theorem keepBuf_txStateRequestHeaders (cfg : Cfg) (uid : Nat) (c : Conn) : KeepBuf c (txStateRequestHeaders cfg uid c).1 := by
  unfold txStateRequestHeaders
  simp only
  split
  · apply keepBuf_andThen
    · exact keepBuf_runCallback ..
    · intro c1
      apply keepBuf_andThen
      · exact keepBuf_reqReceiverFinalizeClear _
      · intro c2; exact rfl
  · split
    · apply keepBuf_andThen
      · refine KeepBuf.trans ?_ (keepBuf_txProcessRequestHeaders ..)
        split
        · exact keepBuf_modTx ..
        · exact KeepBuf.refl _
      · intro c1; exact rfl
    · exact KeepBuf.refl _

theorem keepBuf_urlencQueryCallback (cfg : Cfg) (uid : Nat) (c : Conn) : KeepBuf c (urlencQueryCallback cfg uid c) := by
  unfold urlencQueryCallback
  simp only []
  repeat' split
  all_goals first | exact KeepBuf.refl _ | exact keepBuf_setTx _ _

theorem keepBuf_txStateRequestLine (cfg : Cfg) (uid : Nat) (c : Conn) : KeepBuf c (txStateRequestLine cfg uid c).1 := by
  unfold txStateRequestLine
  extract_lets t0 hp fl1 fl2 src t1 t2 t3 c1
  split
  · exact KeepBuf.refl c
  · have k1 : KeepBuf c c1 := keepBuf_setTx ..
    clear_value c1
    apply keepBuf_andThen
    · exact k1.trans (keepBuf_runCallback ..)
    · intro c2
      apply keepBuf_andThen
      · refine KeepBuf.trans ?_ (keepBuf_runCallback ..)
        split
        · exact keepBuf_urlencQueryCallback ..
        · exact KeepBuf.refl _
      · intro c3; exact rfl

theorem keepBuf_txCreate (cfg : Cfg) (c : Conn) : KeepBuf c (txCreate cfg c).1 := by
  unfold txCreate
  simp only []
  split <;> exact rfl


/-! ### the line buffer stays within the hard limit -/

/-- cursors inside the chunk and the line buffer within `hard` -/
def WFB (hard : Nat) (d : Dir) : Prop := WFCur d ∧ (d.buf.map (·.length)).getD 0 ≤ hard

theorem wfb_keep {hard : Nat} {c c' : Conn} (k : KeepIn c c') (kb : KeepBuf c c') (w : WFB hard c.inn) : WFB hard c'.inn :=
  ⟨wf_keepIn k w.1, by rw [kb]; exact w.2⟩

theorem wfb_peekSet (hard : Nat) (d : Dir) (w : WFB hard d) : WFB hard (d.peekSet).1 := ⟨wf_peekSet _ w.1, w.2⟩

theorem copyByte_some_wfb (hard : Nat) (d d' : Dir) (b : UInt8) (w : WFB hard d) (h : d.copyByte = some (d', b)) : WFB hard d' := by
  refine ⟨(copyByte_some_wf _ d' b w.1 h).1, ?_⟩
  unfold Dir.copyByte at h
  split at h
  · split at h
    · simp only [Option.some.injEq, Prod.mk.injEq] at h; rw [← h.1]; exact w.2
    · simp only [Option.some.injEq, Prod.mk.injEq] at h; rw [← h.1]; exact w.2
  · simp at h

theorem wfb_clearBuffer (hard : Nat) (d : Dir) (w : WFB hard d) : WFB hard d.clearBuffer :=
  ⟨wf_clearBuffer _ w.1, by unfold Dir.clearBuffer; simp⟩

theorem sliceCur_len_le (d : Dir) (a b : Int) : (sliceCur d a b).length ≤ (b - a).toNat := by
  unfold sliceCur
  simp only [List.length_take]
  omega

theorem buffer_wfb (hard : Nat) (s : Bool) (d d' : Dir) (w : WFB hard d) (h : d.buffer hard s = some d') : WFB hard d' := by
  unfold Dir.buffer at h
  split at h
  · simp only [Option.some.injEq] at h; rw [← h]; exact w
  · simp only at h
    split at h
    · simp only [Option.some.injEq] at h; rw [← h]; exact w
    · split at h
      · simp at h
      · rename_i hle
        simp only [Option.some.injEq] at h
        rw [← h]
        refine ⟨⟨w.1.notNull, Int.le_trans w.1.c0 w.1.cr, Int.le_refl _, w.1.rl, w.1.lc, w.1.small⟩, ?_⟩
        simp only [Option.map_some, Option.getD_some, List.length_append]
        have hs := sliceCur_len_le d d.consume d.read
        have h0 : 0 ≤ d.read - d.consume := by have := w.1.cr; omega
        have h1 : d.read - d.consume < 18446744073709551616 := by have := w.1.rl; have := w.1.small; have := w.1.c0; omega
        have hsz : (d.read - d.consume).toNat ≤ sizeOfInt (d.read - d.consume) := by
          unfold sizeOfInt
          rw [Int.emod_eq_of_lt h0 h1]
          omega
        cases hb : d.buf <;> cases hh : d.header <;> simp_all <;> omega

theorem consolidate_wfb (hard : Nat) (s : Bool) (d d2 : Dir) (data : Bytes) (w : WFB hard d) (h : d.consolidate hard s = some (d2, data)) :
    WFB hard d2 := by
  unfold Dir.consolidate at h
  cases hb : d.buf with
  | none => rw [hb] at h; simp only [Option.some.injEq, Prod.mk.injEq] at h; rw [← h.1]; exact w
  | some bb =>
    rw [hb] at h
    simp only at h
    cases hbu : d.buffer hard s with
    | none => rw [hbu] at h; simp at h
    | some d' =>
      rw [hbu] at h
      simp only [Option.some.injEq, Prod.mk.injEq] at h
      rw [← h.1]
      exact buffer_wfb hard s d d' w hbu

/-! ### ... and every request state function keeps both -/

theorem wfb_same {hard : Nat} {d d' : Dir} (w : WFB hard d) (h : SameCur d d') (hb : d'.buf = d.buf) : WFB hard d' :=
  ⟨wf_of_sameCur _ _ h w.1, by rw [hb]; exact w.2⟩

theorem wfbIn_reqIdle (cfg : Cfg) (c : Conn) (w : WFB cfg.fieldLimitHard c.inn) : WFB cfg.fieldLimitHard (reqIdle cfg c).1.inn := by
  unfold reqIdle
  split
  · exact w
  · have k := keepIn_txCreate cfg c
    have kb := keepBuf_txCreate cfg c
    rcases hx : txCreate cfg c with ⟨c1, u⟩
    rw [hx] at k kb
    simp only at k kb ⊢
    have w1 := wfb_keep k kb w
    cases u with
    | none => exact wfb_keep (c := c1) ⟨rfl, rfl, rfl, rfl, rfl⟩ rfl w1
    | some uid =>
      simp only
      exact wfb_keep (keepIn_txStateRequestStart uid c1) (keepBuf_txStateRequestStart uid c1) w1

theorem wfbIn_reqLineComplete (cfg : Cfg) (c : Conn) (w : WFB cfg.fieldLimitHard c.inn) : WFB cfg.fieldLimitHard (reqLineComplete cfg c).1.inn := by
  unfold reqLineComplete
  cases hc : c.inn.consolidate cfg.fieldLimitHard true with
  | none => exact w
  | some p =>
    obtain ⟨d, data⟩ := p
    have wd := consolidate_wfb _ _ _ _ _ w hc
    simp -zeta only
    extract_lets c0 ci line rl c1
    have w0 : WFB _ c0.inn := wd
    have wi : WFB _ ci.inn := wfb_keep (keepIn_modIn _ c0) (keepBuf_modIn _ c0) w0
    have w1 : WFB _ c1.inn := wfb_keep (keepIn_modIn _ c0) (keepBuf_modIn _ c0) w0
    clear_value ci c1
    split
    · exact wfb_clearBuffer _ _ w0
    · split
      · exact wfb_clearBuffer _ _ wi
      · cases c1.inn.tx with
        | none => exact w1
        | some uid =>
          simp only
          have w2 := wfb_keep (keepIn_txStateRequestLine cfg uid c1) (keepBuf_txStateRequestLine cfg uid c1) w1
          split
          · exact w2
          · exact wfb_clearBuffer _ _ w2

theorem wfbIn_reqLineLoop (cfg : Cfg) (fuel : Nat) (c : Conn) (w : WFB cfg.fieldLimitHard c.inn) : WFB cfg.fieldLimitHard (reqLineLoop cfg fuel c).1.inn := by
  induction fuel generalizing c with
  | zero => unfold reqLineLoop; exact w
  | succ k ih =>
    unfold reqLineLoop
    simp only
    have w0 := wfb_peekSet _ _ w
    split
    · exact wfbIn_reqLineComplete cfg _ w0
    · cases hn : (c.inn.peekSet).1.copyByte with
      | none => exact w0
      | some p =>
        obtain ⟨d, b⟩ := p
        have wd := copyByte_some_wfb _ _ d b w0 hn
        simp only
        split
        · exact wfbIn_reqLineComplete cfg _ wd
        · exact ih _ wd

theorem wfbIn_reqProtocol (hard : Nat) (c : Conn) (w : WFB hard c.inn) : WFB hard (reqProtocol c).1.inn := by
  unfold reqProtocol
  simp only []
  repeat' split
  all_goals first
    | exact w
    | exact wfb_keep (c := { c with inState := .headers }) (keepIn_modIn _ _) (keepBuf_modIn _ _) w
    | exact wfb_keep (keepIn_modIn _ _) (keepBuf_modIn _ _) (wfb_keep (c := { c with inState := .headers }) (keepIn_modIn _ _) (keepBuf_modIn _ _) w)

theorem wfb_header (hard : Nat) (d : Dir) (h : Option Bytes) (w : WFB hard d) : WFB hard { d with header := h } :=
  wfb_same w ⟨rfl, rfl, rfl, rfl, rfl⟩ rfl

/-- the per-line step of REQ_HEADERS (start a header, continue a folded one) keeps the cursors -/
theorem wfbIn_reqHeadersLoop (cfg : Cfg) (fuel : Nat) (c : Conn) (w : WFB cfg.fieldLimitHard c.inn) : WFB cfg.fieldLimitHard (reqHeadersLoop cfg fuel c).1.inn := by
  induction fuel generalizing c with
  | zero => unfold reqHeadersLoop; exact w
  | succ k ih =>
    unfold reqHeadersLoop
    cases c.inn.tx with
    | none => exact w
    | some uid =>
      simp only
      split
      · -- closed
        have k1 := keepIn_reqFlushHeader c
        have k1b := keepBuf_reqFlushHeader c
        rcases hx : reqFlushHeader c with ⟨c1, rc1⟩
        rw [hx] at k1 k1b
        simp only at k1 k1b
        have w1 := wfb_keep k1 k1b w
        unfold R.andThen
        simp only
        split
        · refine wfb_keep (keepIn_txStateRequestHeaders cfg uid _) (keepBuf_txStateRequestHeaders cfg uid _) ?_
          exact wfb_keep (keepIn_modIn _ _) (keepBuf_modIn _ _) (wfb_clearBuffer _ _ w1)
        · exact w1
      · cases hn : c.inn.copyByte with
        | none => exact w
        | some p =>
          obtain ⟨d, b⟩ := p
          have wd := copyByte_some_wfb _ _ d b w hn
          simp only
          split
          · exact ih _ wd
          · cases hc : d.consolidate cfg.fieldLimitHard true with
            | none => exact wd
            | some q =>
              obtain ⟨d2, data⟩ := q
              have w2 := consolidate_wfb _ _ _ _ _ wd hc
              simp only
              split
              · have k1 := keepIn_reqFlushHeader { c with inn := d2 }
                have k1b := keepBuf_reqFlushHeader { c with inn := d2 }
                rcases hx : reqFlushHeader { c with inn := d2 } with ⟨c1, rc1⟩
                rw [hx] at k1 k1b
                simp only at k1 k1b
                have w1 : WFB _ c1.inn := wfb_keep k1 k1b w2
                unfold R.andThen
                simp only
                split
                · exact wfb_keep (keepIn_txStateRequestHeaders cfg uid _) (keepBuf_txStateRequestHeaders cfg uid _) (wfb_clearBuffer _ _ w1)
                · exact w1
              · -- a header line
                have key : ∀ (r : R), WFB cfg.fieldLimitHard r.1.inn → WFB cfg.fieldLimitHard (r >>? fun c => reqHeadersLoop cfg k { c with inn := c.inn.clearBuffer }).1.inn := by
                  intro r wr
                  unfold R.andThen
                  split
                  · exact ih _ (wfb_clearBuffer _ _ wr)
                  · exact wr
                apply key
                split
                · have k1 := keepIn_reqFlushHeader { c with inn := d2 }
                  have k1b := keepBuf_reqFlushHeader { c with inn := d2 }
                  rcases hx : reqFlushHeader { c with inn := d2 } with ⟨c1, rc1⟩
                  rw [hx] at k1 k1b
                  simp only at k1 k1b
                  have w1 : WFB _ c1.inn := wfb_keep k1 k1b w2
                  unfold R.andThen
                  simp only
                  split
                  · have wp := wfb_peekSet _ _ w1
                    split
                    · split
                      · have kk := keepIn_processRequestHeader (Parse.chomp data).1 { c1 with inn := (c1.inn.peekSet).1 }
                        have kkb := keepBuf_processRequestHeader (Parse.chomp data).1 { c1 with inn := (c1.inn.peekSet).1 }
                        split
                        · exact wfb_keep kk kkb wp
                        · exact wfb_keep kk kkb wp
                      · exact wfb_header _ _ _ wp
                    · exact wfb_header _ _ _ wp
                  · exact w1
                · split
                  · exact wfb_header _ _ _ (wfb_keep (c := { c with inn := d2 }) (keepIn_modIn _ _) (keepBuf_modIn _ _) w2)
                  · split
                    · exact wfb_header _ _ _ w2
                    · exact w2

theorem wfbIn_connect_states (hard : Nat) (c : Conn) (w : WFB hard c.inn) :
    WFB hard (reqConnectCheck c).1.inn ∧ WFB hard (reqConnectWaitResponse c).1.inn ∧ WFB hard (reqBodyDetermine c).1.inn := by
  refine ⟨?_, ?_, ?_⟩
  · unfold reqConnectCheck
    split
    · exact (wfb_same w ⟨rfl, rfl, rfl, rfl, rfl⟩ rfl)
    · exact w
  · unfold reqConnectWaitResponse
    simp only []
    repeat' split
    all_goals exact w
  · unfold reqBodyDetermine
    simp only []
    repeat' split
    all_goals first
      | exact w
      | exact wfb_keep (c := { c with inState := .bodyChunkedLength }) (keepIn_modIn _ _) (keepBuf_modIn _ _) w
      | exact (wfb_same w ⟨rfl, rfl, rfl, rfl, rfl⟩ rfl)
      | (refine wfb_keep (keepIn_modIn _ _) (keepBuf_modIn _ _) ?_; exact (wfb_same w ⟨rfl, rfl, rfl, rfl, rfl⟩ rfl))

theorem wfbIn_reqConnectProbeLoop (cfg : Cfg) (fuel : Nat) (c : Conn) (w : WFB cfg.fieldLimitHard c.inn) :
    WFB cfg.fieldLimitHard (reqConnectProbeLoop cfg fuel c).1.inn := by
  induction fuel generalizing c with
  | zero => unfold reqConnectProbeLoop; exact w
  | succ k ih =>
    unfold reqConnectProbeLoop
    simp only
    have w0 := wfb_peekSet _ _ w
    split
    · cases hc : (c.inn.peekSet).1.consolidate cfg.fieldLimitHard true with
      | none => exact w0
      | some q =>
        obtain ⟨d2, data⟩ := q
        have w2 := consolidate_wfb _ _ _ _ _ w0 hc
        simp only
        split
        · split
          · exact wfb_keep (keepIn_txStateRequestComplete cfg _ _) (keepBuf_txStateRequestComplete cfg _ _) w2
          · exact w2
        · exact (wfb_same w2 ⟨rfl, rfl, rfl, rfl, rfl⟩ rfl)
    · cases hn : (c.inn.peekSet).1.copyByte with
      | none => exact w0
      | some p =>
        obtain ⟨d, b⟩ := p
        have wd := copyByte_some_wfb _ _ d b w0 hn
        exact ih _ wd

theorem wfb_advance (hard : Nat) (d : Dir) (n : Int) (w : WFB hard d) (h0 : 0 ≤ n) (h1 : n ≤ d.len - d.read) : WFB hard (d.advance n) :=
  ⟨wf_advance d n w.1 h0 h1, w.2⟩

theorem wfbIn_reqBodyIdentity (cfg : Cfg) (c : Conn) (w : WFB cfg.fieldLimitHard c.inn) (ho : 0 ≤ c.inn.bodyDataLeft) :
    WFB cfg.fieldLimitHard (reqBodyIdentity cfg c).1.inn := by
  unfold reqBodyIdentity
  extract_lets avail n data
  have hn0 : 0 ≤ n := by
    simp only [n, avail]
    have := w.1.rl
    split <;> omega
  have hn1 : n ≤ c.inn.len - c.inn.read := by
    simp only [n, avail]
    split <;> omega
  clear_value n
  split
  · exact w
  · have k := keepIn_reqProcessBodyData cfg data (if c.inn.curNull then n.toNat else 0) c
    have kb := keepBuf_reqProcessBodyData cfg data (if c.inn.curNull then n.toNat else 0) c
    rcases hx : reqProcessBodyData cfg data (if c.inn.curNull then n.toNat else 0) c with ⟨c1, rc1⟩
    rw [hx] at k kb
    simp only at k kb ⊢
    have w1 := wfb_keep k kb w
    split
    · exact w1
    · obtain ⟨kr, kl, _, _, _⟩ := k
      have wa : WFB _ (c1.inn.advance n) := wfb_advance _ _ _ w1 hn0 (by rw [kr, kl]; exact hn1)
      have wb : WFB _ { c1.inn.advance n with bodyDataLeft := c1.inn.bodyDataLeft - n } :=
        (wfb_same wa ⟨rfl, rfl, rfl, rfl, rfl⟩ rfl)
      split
      · exact wfb_keep (c := { c1 with inn := { c1.inn.advance n with bodyDataLeft := c1.inn.bodyDataLeft - n } }) (keepIn_modIn _ _) (keepBuf_modIn _ _) wb
      · exact wfb_keep (c := { c1 with inn := { c1.inn.advance n with bodyDataLeft := c1.inn.bodyDataLeft - n } }) (keepIn_modIn _ _) (keepBuf_modIn _ _) wb

theorem nextByteConsume_some_wfb (hard : Nat) (d d' : Dir) (b : UInt8) (w : WFB hard d) (h : d.nextByteConsume = some (d', b)) : WFB hard d' := by
  refine ⟨nextByteConsume_some_wf d d' b w.1 h, ?_⟩
  unfold Dir.nextByteConsume at h
  cases hc : d.copyByte with
  | none => rw [hc] at h; simp at h
  | some p =>
    obtain ⟨d1, b1⟩ := p
    rw [hc] at h
    simp only [Option.some.injEq, Prod.mk.injEq] at h
    have w1 := copyByte_some_wfb hard d d1 b1 w hc
    rw [← h.1]
    exact w1.2

theorem wfbIn_reqChunkedDataEndLoop (hard : Nat) (fuel : Nat) (c : Conn) (w : WFB hard c.inn) : WFB hard (reqChunkedDataEndLoop fuel c).1.inn := by
  induction fuel generalizing c with
  | zero => unfold reqChunkedDataEndLoop; exact w
  | succ k ih =>
    unfold reqChunkedDataEndLoop
    cases hn : c.inn.nextByteConsume with
    | none => exact w
    | some p =>
      obtain ⟨d, b⟩ := p
      have wd := nextByteConsume_some_wfb _ _ d b w hn
      simp only
      have w1 : WFB _ ({ c with inn := d }.modIn (fun t => { t with reqMessageLen := t.reqMessageLen + 1 })).inn :=
        wfb_keep (c := { c with inn := d }) (keepIn_modIn _ _) (keepBuf_modIn _ _) wd
      split
      · exact w1
      · exact ih _ w1

theorem wfbIn_reqBodyChunkedData (cfg : Cfg) (c : Conn) (w : WFB cfg.fieldLimitHard c.inn) (ho : 0 ≤ c.inn.chunkedLength) :
    WFB cfg.fieldLimitHard (reqBodyChunkedData cfg c).1.inn := by
  unfold reqBodyChunkedData
  extract_lets avail n data
  have hn0 : 0 ≤ n := by
    simp only [n, avail]
    have := w.1.rl
    split <;> omega
  have hn1 : n ≤ c.inn.len - c.inn.read := by
    simp only [n, avail]
    split <;> omega
  clear_value n
  split
  · exact w
  · have k := keepIn_reqProcessBodyData cfg (some data) 0 c
    have kb := keepBuf_reqProcessBodyData cfg (some data) 0 c
    rcases hx : reqProcessBodyData cfg (some data) 0 c with ⟨c1, rc1⟩
    rw [hx] at k kb
    simp only at k kb ⊢
    have w1 := wfb_keep k kb w
    split
    · exact w1
    · obtain ⟨kr, kl, _, _, _⟩ := k
      have wa : WFB _ (c1.inn.advance n) := wfb_advance _ _ _ w1 hn0 (by rw [kr, kl]; exact hn1)
      have wb : WFB _ { c1.inn.advance n with chunkedLength := c1.inn.chunkedLength - n } :=
        (wfb_same wa ⟨rfl, rfl, rfl, rfl, rfl⟩ rfl)
      split
      · exact wfb_keep (c := { c1 with inn := { c1.inn.advance n with chunkedLength := c1.inn.chunkedLength - n } }) (keepIn_modIn _ _) (keepBuf_modIn _ _) wb
      · exact wfb_keep (c := { c1 with inn := { c1.inn.advance n with chunkedLength := c1.inn.chunkedLength - n } }) (keepIn_modIn _ _) (keepBuf_modIn _ _) wb

theorem wfbIn_reqChunkedLengthLoop (cfg : Cfg) (fuel : Nat) (c : Conn) (w : WFB cfg.fieldLimitHard c.inn) :
    WFB cfg.fieldLimitHard (reqChunkedLengthLoop cfg fuel c).1.inn := by
  induction fuel generalizing c with
  | zero => unfold reqChunkedLengthLoop; exact w
  | succ k ih =>
    unfold reqChunkedLengthLoop
    cases hn : c.inn.copyByte with
    | none => exact w
    | some p =>
      obtain ⟨d, b⟩ := p
      have wd := copyByte_some_wfb _ _ d b w hn
      simp -zeta only
      extract_lets c0
      have w0 : WFB _ c0.inn := wd
      split
      · exact ih _ w0
      · cases hc : c0.inn.consolidate cfg.fieldLimitHard true with
        | none => exact w0
        | some q =>
          obtain ⟨d2, data⟩ := q
          have w2 := consolidate_wfb _ _ _ _ _ w0 hc
          simp -zeta only
          extract_lets c1 line n c2
          have w1 : WFB _ c1.inn := wfb_keep (c := { c0 with inn := d2 }) (keepIn_modIn _ _) (keepBuf_modIn _ _) w2
          have wc := wfb_clearBuffer _ _ w1
          have w2' : WFB _ c2.inn := (wfb_same wc ⟨rfl, rfl, rfl, rfl, rfl⟩ rfl)
          clear_value c2
          repeat' split
          all_goals first
            | exact w2'
            | exact wfb_keep (c := { c2 with inState := .headers }) (keepIn_modIn _ _) (keepBuf_modIn _ _) w2'

theorem wfbIn_reqIgnore (hard : Nat) (c : Conn) (w : WFB hard c.inn) : WFB hard (reqIgnoreDataAfter09 c).1.inn := by
  unfold reqIgnoreDataAfter09
  simp only []
  have h := wfb_advance hard c.inn (c.inn.len - c.inn.read) w (by have := w.1.rl; omega) (by omega)
  split <;> exact h

theorem reqFinalizeScan_wfb (hard : Nat) (fuel : Nat) (d d' : Dir) (w : WFB hard d) (h : reqFinalizeScan fuel d = some d') : WFB hard d' := by
  induction fuel generalizing d with
  | zero => unfold reqFinalizeScan at h; simp only [Option.some.injEq] at h; rw [← h]; exact w
  | succ k ih =>
    unfold reqFinalizeScan at h
    simp only at h
    have w0 := wfb_peekSet _ _ w
    split at h
    · simp only [Option.some.injEq] at h; rw [← h]; exact w0
    · cases hn : (d.peekSet).1.copyByte with
      | none => rw [hn] at h; simp at h
      | some p =>
        obtain ⟨d1, b1⟩ := p
        rw [hn] at h
        simp only at h
        have w1 := copyByte_some_wfb _ _ d1 b1 w0 hn
        exact ih _ w1 h

theorem wfbIn_reqFinalize (cfg : Cfg) (c : Conn) (w : WFB cfg.fieldLimitHard c.inn) : WFB cfg.fieldLimitHard (reqFinalize cfg c).1.inn := by
  unfold reqFinalize
  cases c.inn.tx with
  | none => exact w
  | some uid =>
    simp -zeta only
    extract_lets cp pre
    have w0 : WFB _ cp.inn := wfb_peekSet _ _ w
    have hp : ∀ c' b, pre = some (c', b) → WFB cfg.fieldLimitHard c'.inn := by
      intro c' b hpre
      simp only [pre] at hpre
      split at hpre
      · split at hpre
        · simp only [Option.some.injEq, Prod.mk.injEq] at hpre; rw [← hpre.1]; exact w0
        · split at hpre
          · split at hpre
            · simp at hpre
            · rename_i d hs
              simp only [Option.some.injEq, Prod.mk.injEq] at hpre
              rw [← hpre.1]
              exact reqFinalizeScan_wfb _ _ _ _ w0 hs
          · simp only [Option.some.injEq, Prod.mk.injEq] at hpre; rw [← hpre.1]; exact w0
      · simp only [Option.some.injEq, Prod.mk.injEq] at hpre; rw [← hpre.1]; exact w
    clear_value pre
    split
    · exact ⟨⟨w.1.notNull, w.1.c0, Int.le_trans w.1.cr w.1.rl, Int.le_refl _, w.1.lc, w.1.small⟩, w.2⟩
    · rename_i _ c1
      exact wfb_keep (keepIn_txStateRequestComplete cfg uid c1) (keepBuf_txStateRequestComplete cfg uid c1) (hp _ _ rfl)
    · rename_i _ c1
      have w1 := hp _ _ rfl
      clear hp
      cases hc : c1.inn.consolidate cfg.fieldLimitHard true with
      | none => exact w1
      | some q =>
        obtain ⟨d2, data⟩ := q
        have w2 := consolidate_wfb _ _ _ _ _ w1 hc
        simp -zeta only
        extract_lets c2
        have wc2 : WFB _ c2.inn := w2
        clear_value c2
        split
        · exact wfb_keep (keepIn_txStateRequestComplete cfg uid c2) (keepBuf_txStateRequestComplete cfg uid c2) wc2
        · rename_i src go _
          have hgo : ∀ c', go = some c' → WFB cfg.fieldLimitHard c'.inn := by
            intro c' hg
            simp only [go] at hg
            split at hg
            · split at hg
              · simp at hg
              · simp only [Option.some.injEq] at hg
                rw [← hg]
                split
                · exact wc2
                · exact (wfb_same wc2 ⟨rfl, rfl, rfl, rfl, rfl⟩ rfl)
            · simp only [Option.some.injEq] at hg; rw [← hg]; exact wc2
          clear_value go
          split
          · exact wfb_keep (keepIn_txStateRequestComplete cfg uid _) (keepBuf_txStateRequestComplete cfg uid _) (wfb_same wc2 ⟨rfl, rfl, rfl, rfl, rfl⟩ rfl)
          · rename_i c3
            have w3 := hgo _ rfl
            clear hgo
            extract_lets r
            have hr : ∀ c' dd, r = some (c', dd) → WFB cfg.fieldLimitHard c'.inn := by
              intro c' dd hh
              simp only [r] at hh
              split at hh
              · cases hcb : c3.inn.copyByte with
                | none => rw [hcb] at hh; simp at hh
                | some p =>
                  obtain ⟨d4, b4⟩ := p
                  have w4 := copyByte_some_wfb _ _ d4 b4 w3 hcb
                  rw [hcb] at hh
                  simp only at hh
                  cases hc4 : d4.consolidate cfg.fieldLimitHard true with
                  | none =>
                    rw [hc4] at hh
                    simp only [Option.some.injEq, Prod.mk.injEq] at hh
                    rw [← hh.1]; exact w4
                  | some q4 =>
                    obtain ⟨d5, data5⟩ := q4
                    rw [hc4] at hh
                    simp only [Option.some.injEq, Prod.mk.injEq] at hh
                    rw [← hh.1]
                    exact consolidate_wfb _ _ _ _ _ w4 hc4
              · simp only [Option.some.injEq, Prod.mk.injEq] at hh; rw [← hh.1]; exact w3
            clear_value r
            split
            · exact w3
            · rename_i c6 data6
              have w6 := hr _ _ rfl
              have k := keepIn_reqProcessBodyData cfg (some data6) 0 c6
              have kb := keepBuf_reqProcessBodyData cfg (some data6) 0 c6
              rcases hx : reqProcessBodyData cfg (some data6) 0 c6 with ⟨c7, rc7⟩
              rw [hx] at k kb
              simp only at k kb ⊢
              exact wfb_clearBuffer _ _ (wfb_keep k kb w6)

/-- **every request state function keeps the line buffer within the hard limit** (and the cursors inside the chunk), whatever it answers -/
theorem wfbIn_reqStateFn (cfg : Cfg) (c : Conn) (w : WFB cfg.fieldLimitHard c.inn)
    (ho1 : c.inState = ReqState.bodyIdentity → 0 ≤ c.inn.bodyDataLeft)
    (ho2 : c.inState = ReqState.bodyChunkedData → 0 ≤ c.inn.chunkedLength) : WFB cfg.fieldLimitHard (reqStateFn cfg c).1.inn := by
  unfold reqStateFn
  cases hs : c.inState with
  | idle => exact wfbIn_reqIdle cfg c w
  | line => exact wfbIn_reqLineLoop cfg _ c w
  | protocol => exact wfbIn_reqProtocol _ c w
  | headers => exact wfbIn_reqHeadersLoop cfg _ c w
  | connectCheck => exact (wfbIn_connect_states _ c w).1
  | connectWaitResponse => exact (wfbIn_connect_states _ c w).2.1
  | connectProbeData => exact wfbIn_reqConnectProbeLoop cfg _ c w
  | bodyDetermine => exact (wfbIn_connect_states _ c w).2.2
  | bodyIdentity => exact wfbIn_reqBodyIdentity cfg c w (ho1 hs)
  | bodyChunkedLength => exact wfbIn_reqChunkedLengthLoop cfg _ c w
  | bodyChunkedData => exact wfbIn_reqBodyChunkedData cfg c w (ho2 hs)
  | bodyChunkedDataEnd => exact wfbIn_reqChunkedDataEndLoop _ _ c w
  | finalize => exact wfbIn_reqFinalize cfg c w
  | ignoreDataAfter09 => exact wfbIn_reqIgnore _ c w

theorem wfbIn_reqHandleStateChange (hard : Nat) (c : Conn) (w : WFB hard c.inn) : WFB hard (reqHandleStateChange c).1.inn := by
  unfold reqHandleStateChange
  split
  · exact w
  · simp only
    have key : ∀ (r : R), WFB hard r.1.inn → WFB hard (r >>? fun c => ({ c with inStatePrev := some c.inState }, Rc.ok)).1.inn := by
      intro r wr
      unfold R.andThen
      split
      · exact wr
      · exact wr
    apply key
    repeat' split
    all_goals first | exact w | exact wfb_keep (keepIn_reqReceiverSet _ c) (keepBuf_reqReceiverSet _ c) w


/-- **a data call that returns after this pass** (the state function answered anything but HTP_OK): what it leaves behind - after the
    receiver hand-over and, for HTP_DATA_BUFFER, after setting the unconsumed tail aside - has the cursors inside the chunk and the line
    buffer within the hard limit (setting aside is refused as a whole when it would exceed the limit) -/
theorem wfb_reqDriverLoop_return (cfg : Cfg) (fuel : Nat) (c : Conn) (w : WFB cfg.fieldLimitHard c.inn)
    (ho1 : c.inState = ReqState.bodyIdentity → 0 ≤ c.inn.bodyDataLeft)
    (ho2 : c.inState = ReqState.bodyChunkedData → 0 ≤ c.inn.chunkedLength)
    (hd : (reqStateFn cfg c).2 ≠ Rc.ok) :
    WFB cfg.fieldLimitHard (reqDriverLoop cfg false (fuel + 1) c).1.inn := by
  have ws := wfbIn_reqStateFn cfg c w ho1 ho2
  unfold reqDriverLoop
  simp only [Bool.false_eq_true, if_false]
  rcases hx : reqStateFn cfg c with ⟨c1, rc1⟩
  rw [hx] at hd ws
  simp only at hd ws ⊢
  have hnok : (rc1 == Rc.ok) = false := by cases rc1 <;> simp_all
  simp only [hnok, Bool.false_eq_true, if_false]
  split
  · have k := keepIn_reqReceiverSend false c1
    have kb := keepBuf_reqReceiverSend false c1
    rcases hy : reqReceiverSend false c1 with ⟨c2, rc2⟩
    rw [hy] at k kb
    simp only at k kb ⊢
    have w2 := wfb_keep k kb ws
    split
    · cases hb : c2.inn.buffer cfg.fieldLimitHard true with
      | none => exact wfb_same w2 ⟨rfl, rfl, rfl, rfl, rfl⟩ rfl
      | some d =>
        have wd := buffer_wfb _ _ _ _ w2 hb
        exact wfb_same wd ⟨rfl, rfl, rfl, rfl, rfl⟩ rfl
    · exact wfb_same w2 ⟨rfl, rfl, rfl, rfl, rfl⟩ rfl
  · repeat' split
    all_goals exact wfb_same ws ⟨rfl, rfl, rfl, rfl, rfl⟩ rfl

/-- the two counted body states do not owe a negative amount -/
def OwedOK (c : Conn) : Prop :=
  (c.inState = ReqState.bodyIdentity → 0 ≤ c.inn.bodyDataLeft) ∧ (c.inState = ReqState.bodyChunkedData → 0 ≤ c.inn.chunkedLength)

/-- the states one (non-gap) request data call passes through: the state it starts its loop in, and after every pass that answered HTP_OK
    the state left by the state-change hook -/
inductive CallReach (cfg : Cfg) (c : Conn) : Conn → Prop
  | start : CallReach cfg c c
  | step (c' : Conn) : CallReach cfg c c' → (reqStateFn cfg c').2 = Rc.ok →
      ((reqStateFn cfg c').1.inn.status == STREAM_TUNNEL) = false →
      (reqHandleStateChange (reqStateFn cfg c').1).2 = Rc.ok →
      CallReach cfg c (reqHandleStateChange (reqStateFn cfg c').1).1

/-- **the whole loop of a request data call**: started with the cursors inside the chunk and the line buffer within the hard limit, it
    returns with both - for every chunk, state, transaction list and callback policy - provided no pass of the call finds a negative amount
    owed in a counted body state -/
theorem reqDriverLoop_wfb (cfg : Cfg) (fuel : Nat) (c0 c : Conn) (hr : CallReach cfg c0 c) (w : WFB cfg.fieldLimitHard c.inn)
    (ho : ∀ c', CallReach cfg c0 c' → OwedOK c') :
    WFB cfg.fieldLimitHard (reqDriverLoop cfg false fuel c).1.inn := by
  induction fuel generalizing c with
  | zero => unfold reqDriverLoop; exact wfb_same w ⟨rfl, rfl, rfl, rfl, rfl⟩ rfl
  | succ k ih =>
    by_cases hd : (reqStateFn cfg c).2 = Rc.ok
    · have ws := wfbIn_reqStateFn cfg c w (ho c hr).1 (ho c hr).2
      unfold reqDriverLoop
      simp only [Bool.false_eq_true, if_false]
      rcases hx : reqStateFn cfg c with ⟨c1, rc1⟩
      have hstep := CallReach.step c hr hd
      rw [hx] at hd ws hstep
      simp only at hd ws hstep ⊢
      subst hd
      simp only [beq_self_eq_true, if_true]
      by_cases ht : (c1.inn.status == STREAM_TUNNEL) = true
      · simp only [ht, if_true, beq_self_eq_true]
        exact ws
      · have ht' : (c1.inn.status == STREAM_TUNNEL) = false := by simpa using ht
        simp only [ht', Bool.false_eq_true, if_false]
        have wh := wfbIn_reqHandleStateChange cfg.fieldLimitHard c1 ws
        have hstep2 := hstep ht'
        rcases hy : reqHandleStateChange c1 with ⟨c2, rc2⟩
        rw [hy] at wh hstep2
        simp only at wh hstep2 ⊢
        by_cases h2 : rc2 = Rc.ok
        · subst h2
          simp only [beq_self_eq_true, if_true]
          split
          · exact wh
          · exact ih c2 (hstep2 rfl) wh
        · have hnok : (rc2 == Rc.ok) = false := by cases rc2 <;> simp_all
          simp only [hnok, Bool.false_eq_true, if_false]
          split
          · have k := keepIn_reqReceiverSend false c2
            have kb := keepBuf_reqReceiverSend false c2
            rcases hz : reqReceiverSend false c2 with ⟨c3, rc3⟩
            rw [hz] at k kb
            simp only at k kb ⊢
            have w3 := wfb_keep k kb wh
            split
            · cases hb : c3.inn.buffer cfg.fieldLimitHard true with
              | none => exact wfb_same w3 ⟨rfl, rfl, rfl, rfl, rfl⟩ rfl
              | some d => exact wfb_same (buffer_wfb _ _ _ _ w3 hb) ⟨rfl, rfl, rfl, rfl, rfl⟩ rfl
            · exact wfb_same w3 ⟨rfl, rfl, rfl, rfl, rfl⟩ rfl
          · repeat' split
            all_goals exact wfb_same wh ⟨rfl, rfl, rfl, rfl, rfl⟩ rfl
    · exact wfb_reqDriverLoop_return cfg k c w (ho c hr).1 (ho c hr).2 hd

/-- length of the request direction's line buffer -/
def inBufLen (c : Conn) : Nat := (c.inn.buf.map (·.length)).getD 0

/-- **a whole request data call keeps the line buffer within the hard limit**: any state, any chunk of data (not a gap), any callback policy -
    provided no pass of the call finds a negative amount owed in a counted body state. With `wfb`-preservation of storing the chunk this
    carries the bound from call to call. -/
theorem reqData_buffer_bounded (cfg : Cfg) (d : Bytes) (c : Conn) (hs : (d.length : Int) < 18446744073709551616)
    (hb : inBufLen c ≤ cfg.fieldLimitHard)
    (ho : ∀ c', CallReach cfg (reqWakeOther (reqStoreChunk (some d) d.length c)) c' → OwedOK c') :
    inBufLen (reqData cfg (some d) d.length c).1 ≤ cfg.fieldLimitHard := by
  unfold reqData
  simp only
  unfold inBufLen
  simp only
  unfold reqDataCore
  have wst : WFB cfg.fieldLimitHard (reqStoreChunk (some d) d.length c).inn := ⟨wf_reqStoreChunk d c hs, hb⟩
  split
  · exact hb
  split
  · exact hb
  split
  · exact hb
  split
  · exact hb
  simp only
  split
  · exact wst.2
  · have w0 : WFB cfg.fieldLimitHard (reqWakeOther (reqStoreChunk (some d) d.length c)).inn := by
      unfold reqWakeOther
      split
      · exact wfb_same wst ⟨rfl, rfl, rfl, rfl, rfl⟩ rfl
      · exact wst
    exact (reqDriverLoop_wfb cfg _ _ _ CallReach.start w0 ho).2

theorem noData_reqReceiverSet (h : Hook) (c : Conn) : NoData (reqReceiverSet h c).2 := by
  unfold reqReceiverSet
  simp only
  exact noData_reqReceiverFinalizeClear c

theorem noData_reqHandleStateChange (c : Conn) : NoData (reqHandleStateChange c).2 := by
  unfold reqHandleStateChange
  split
  · exact NoData.ok
  · simp only
    apply noData_andThen
    · repeat' split
      all_goals first | exact NoData.ok | exact NoData.error | exact noData_reqReceiverSet _ _
    · intro c1; exact NoData.ok

/-- the two counted body states still owe bytes -/
def OwedPos (c : Conn) : Prop :=
  (c.inState = ReqState.bodyIdentity → 0 < c.inn.bodyDataLeft) ∧ (c.inState = ReqState.bodyChunkedData → 0 < c.inn.chunkedLength)

theorem owedOK_of_pos {c : Conn} (h : OwedPos c) : OwedOK c :=
  ⟨fun e => Int.le_of_lt (h.1 e), fun e => Int.le_of_lt (h.2 e)⟩

/-- **DATA means the whole chunk was consumed, for the whole loop of a request data call**: whenever the loop returns STREAM_DATA the read
    cursor stands at the end of the chunk - provided every pass of the call finds the counted body states still owing bytes (they are
    entered with a positive amount and left when it reaches zero) -/
theorem reqDriverLoop_data_consumed (cfg : Cfg) (fuel : Nat) (c0 c : Conn) (hr : CallReach cfg c0 c) (w : WFB cfg.fieldLimitHard c.inn)
    (ho : ∀ c', CallReach cfg c0 c' → OwedPos c')
    (hdata : (reqDriverLoop cfg false fuel c).2 = STREAM_DATA) :
    (reqDriverLoop cfg false fuel c).1.inn.len ≤ (reqDriverLoop cfg false fuel c).1.inn.read := by
  induction fuel generalizing c with
  | zero => unfold reqDriverLoop at hdata; simp only at hdata; exact absurd hdata (by decide)
  | succ k ih =>
    have hoc := ho c hr
    by_cases hd : (reqStateFn cfg c).2 = Rc.ok
    · have ws := wfbIn_reqStateFn cfg c w (owedOK_of_pos hoc).1 (owedOK_of_pos hoc).2
      unfold reqDriverLoop at hdata ⊢
      simp only [Bool.false_eq_true, if_false] at hdata ⊢
      rcases hx : reqStateFn cfg c with ⟨c1, rc1⟩
      have hstep := CallReach.step c hr hd
      rw [hx] at hd ws hstep hdata
      simp only at hd ws hstep hdata ⊢
      subst hd
      simp only [beq_self_eq_true, if_true] at hdata ⊢
      by_cases ht : (c1.inn.status == STREAM_TUNNEL) = true
      · simp only [ht, if_true, beq_self_eq_true] at hdata
        exact absurd hdata (by decide)
      · have ht' : (c1.inn.status == STREAM_TUNNEL) = false := by simpa using ht
        simp only [ht', Bool.false_eq_true, if_false] at hdata ⊢
        have wh := wfbIn_reqHandleStateChange cfg.fieldLimitHard c1 ws
        have hn := noData_reqHandleStateChange c1
        have hstep2 := hstep ht'
        rcases hy : reqHandleStateChange c1 with ⟨c2, rc2⟩
        rw [hy] at wh hstep2 hdata hn
        simp only at wh hstep2 hdata hn ⊢
        cases rc2 with
        | ok =>
          simp only [beq_self_eq_true, if_true] at hdata ⊢
          split at hdata
          · simp only at hdata; exact absurd hdata (by decide)
          · rename_i htt
            simp only [htt, if_false]
            exact ih c2 (hstep2 rfl) wh hdata
        | data => exact absurd rfl hn.1
        | dataBuffer => exact absurd rfl hn.2
        | dataOther =>
          simp only [show (Rc.dataOther == Rc.ok) = false by decide, show (Rc.dataOther == Rc.data || Rc.dataOther == Rc.dataBuffer) = false by decide,
            show (Rc.dataOther == Rc.dataOther) = true by decide, Bool.false_eq_true, if_false, if_true] at hdata ⊢
          split at hdata
          · rename_i hge
            simp only [hge, if_true]
          · simp only at hdata; exact absurd hdata (by decide)
        | error =>
          simp only [show (Rc.error == Rc.ok) = false by decide, show (Rc.error == Rc.data || Rc.error == Rc.dataBuffer) = false by decide,
            show (Rc.error == Rc.dataOther) = false by decide, show (Rc.error == Rc.stop) = false by decide, Bool.false_eq_true, if_false] at hdata
          exact absurd hdata (by decide)
        | stop =>
          simp only [show (Rc.stop == Rc.ok) = false by decide, show (Rc.stop == Rc.data || Rc.stop == Rc.dataBuffer) = false by decide,
            show (Rc.stop == Rc.dataOther) = false by decide, show (Rc.stop == Rc.stop) = true by decide, Bool.false_eq_true, if_false, if_true] at hdata
          exact absurd hdata (by decide)
        | declined =>
          simp only [show (Rc.declined == Rc.ok) = false by decide, show (Rc.declined == Rc.data || Rc.declined == Rc.dataBuffer) = false by decide,
            show (Rc.declined == Rc.dataOther) = false by decide, show (Rc.declined == Rc.stop) = false by decide, Bool.false_eq_true, if_false] at hdata
          exact absurd hdata (by decide)
    · by_cases hdd : (reqStateFn cfg c).2 = Rc.data ∨ (reqStateFn cfg c).2 = Rc.dataBuffer
      · obtain ⟨_, h2, h3⟩ := reqDriverLoop_data_step cfg k c hdd
        rw [h2, h3]
        exact consumed_reqStateFn cfg c (fun _ => w.1) hoc.1 hoc.2 hdd
      · unfold reqDriverLoop at hdata ⊢
        simp only [Bool.false_eq_true, if_false] at hdata ⊢
        rcases hx : reqStateFn cfg c with ⟨c1, rc1⟩
        rw [hx] at hd hdd hdata
        simp only at hd hdd hdata ⊢
        cases rc1 with
        | ok => exact absurd rfl hd
        | data => exact absurd (Or.inl rfl) hdd
        | dataBuffer => exact absurd (Or.inr rfl) hdd
        | dataOther =>
          simp only [show (Rc.dataOther == Rc.ok) = false by decide, show (Rc.dataOther == Rc.data || Rc.dataOther == Rc.dataBuffer) = false by decide,
            show (Rc.dataOther == Rc.dataOther) = true by decide, Bool.false_eq_true, if_false, if_true] at hdata ⊢
          split at hdata
          · rename_i hge
            simp only [hge, if_true]
          · simp only at hdata; exact absurd hdata (by decide)
        | error =>
          simp only [show (Rc.error == Rc.ok) = false by decide, show (Rc.error == Rc.data || Rc.error == Rc.dataBuffer) = false by decide,
            show (Rc.error == Rc.dataOther) = false by decide, show (Rc.error == Rc.stop) = false by decide, Bool.false_eq_true, if_false] at hdata
          exact absurd hdata (by decide)
        | stop =>
          simp only [show (Rc.stop == Rc.ok) = false by decide, show (Rc.stop == Rc.data || Rc.stop == Rc.dataBuffer) = false by decide,
            show (Rc.stop == Rc.dataOther) = false by decide, show (Rc.stop == Rc.stop) = true by decide, Bool.false_eq_true, if_false, if_true] at hdata
          exact absurd hdata (by decide)
        | declined =>
          simp only [show (Rc.declined == Rc.ok) = false by decide, show (Rc.declined == Rc.data || Rc.declined == Rc.dataBuffer) = false by decide,
            show (Rc.declined == Rc.dataOther) = false by decide, show (Rc.declined == Rc.stop) = false by decide, Bool.false_eq_true, if_false] at hdata
          exact absurd hdata (by decide)

/-- **DATA means the whole chunk was consumed, for a whole request data call**: htp_connp_req_data on any state and any chunk of data that
    returns HTP_STREAM_DATA leaves the read cursor exactly at the end of the chunk - provided the line buffer was within the limit (the
    invariant carried from call to call) and every pass of the call finds the counted body states still owing bytes -/
theorem reqData_data_consumed (cfg : Cfg) (d : Bytes) (c : Conn) (hs : (d.length : Int) < 18446744073709551616)
    (hb : inBufLen c ≤ cfg.fieldLimitHard)
    (ho : ∀ c', CallReach cfg (reqWakeOther (reqStoreChunk (some d) d.length c)) c' → OwedPos c')
    (hdata : (reqData cfg (some d) d.length c).2 = STREAM_DATA) :
    (reqData cfg (some d) d.length c).1.inn.read = (reqData cfg (some d) d.length c).1.inn.len := by
  unfold reqData at hdata ⊢
  simp only at hdata ⊢
  unfold reqDataCore at hdata ⊢
  have wst : WFB cfg.fieldLimitHard (reqStoreChunk (some d) d.length c).inn := ⟨wf_reqStoreChunk d c hs, hb⟩
  split at hdata
  · simp only at hdata; exact absurd hdata (by decide)
  split at hdata
  · simp only at hdata; exact absurd hdata (by decide)
  split at hdata
  · simp only at hdata; exact absurd hdata (by decide)
  split at hdata
  · simp only at hdata; exact absurd hdata (by decide)
  simp only at hdata
  split at hdata
  · simp only at hdata; exact absurd hdata (by decide)
  · rename_i h1 h2 h3 h4 h5
    simp only [h1, h2, h3, h4, h5, if_false]
    have w0 : WFB cfg.fieldLimitHard (reqWakeOther (reqStoreChunk (some d) d.length c)).inn := by
      unfold reqWakeOther
      split
      · exact wfb_same wst ⟨rfl, rfl, rfl, rfl, rfl⟩ rfl
      · exact wst
    have hc := reqDriverLoop_data_consumed cfg _ _ _ CallReach.start w0 ho hdata
    have hw := (reqDriverLoop_wfb cfg (8 * d.length + 64) _ _ CallReach.start w0 (fun c' h => owedOK_of_pos (ho c' h))).1.rl
    exact Int.le_antisymm hw hc

end Htp.Conn
