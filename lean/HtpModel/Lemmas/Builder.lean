/- The string builder refines a list of pieces: helper lemmas for Props/C17. -/
import HtpModel.Prim.Builder
import HtpModel.Lemmas.Ring
namespace Htp.Builder
open Htp Htp.Ring

theorem filterMap_getElem_range' {α} (pre l : List α) :
    (List.range' pre.length l.length).filterMap (fun i => (pre ++ l)[i]?) = l := by
  induction l generalizing pre with
  | nil => simp
  | cons x t ih =>
    have h := ih (pre ++ [x])
    simp only [List.length_append, List.length_cons, List.length_nil, List.append_assoc, List.singleton_append] at h
    simp only [List.length_cons, List.range'_succ, List.filterMap_cons]
    have : (pre ++ x :: t)[pre.length]? = some x := by simp
    rw [this]
    simp only
    rw [h]

theorem filterMap_getElem_range {α} (l : List α) : (List.range l.length).filterMap (fun i => l[i]?) = l := by
  have := filterMap_getElem_range' [] l
  simpa [List.range_eq_range'] using this

theorem piecesList_eq (b : Builder) : piecesList b = Ring.abs b.pieces := by
  unfold piecesList size Ring.size
  have h : Ring.get b.pieces = (fun i => (Ring.abs b.pieces)[i]?) := by
    funext i; exact Ring.get_eq _ _
  rw [h]
  have := filterMap_getElem_range (Ring.abs b.pieces)
  simpa using this

def sumLen : List Bytes → Nat
  | [] => 0
  | p :: t => p.length + sumLen t

theorem foldl_len (ps : List Bytes) (n : Nat) : ps.foldl (fun n p => n + p.length) n = n + sumLen ps := by
  induction ps generalizing n with
  | nil => simp [sumLen]
  | cons p t ih => simp only [List.foldl_cons, sumLen]; rw [ih]; omega

theorem sumLen_cons (p : Bytes) (t : List Bytes) : sumLen (p :: t) = p.length + sumLen t := rfl

theorem foldl_noex (total : Nat) (ps : List Bytes) (acc : Bytes) (h : acc.length + sumLen ps ≤ total) :
    ps.foldl (fun acc p => Bstr.addMemNoex total acc p) acc = acc ++ ps.flatten := by
  induction ps generalizing acc with
  | nil => simp
  | cons p t ih =>
    rw [sumLen_cons] at h
    simp only [List.foldl_cons, List.flatten_cons]
    have e : Bstr.addMemNoex total acc p = acc ++ p := by
      unfold Bstr.addMemNoex
      rw [if_neg (by omega)]
    rw [e, ih _ (by simp; omega)]; simp

/-- bstr_builder_to_str returns the concatenation of the pieces in the order they were appended (nothing is cut by the
    non-expanding append, because the buffer was sized with the sum of the lengths) -/
theorem toStr_eq (b : Builder) : toStr b = (Ring.abs b.pieces).flatten := by
  unfold toStr
  simp only [piecesList_eq]
  rw [foldl_len]
  have := foldl_noex (0 + sumLen (Ring.abs b.pieces)) (Ring.abs b.pieces) [] (by simp)
  simpa using this

end Htp.Builder
