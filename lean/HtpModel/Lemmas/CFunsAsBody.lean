/- htp_treat_response_line_as_body (htp_util.c) as translated from the current source (HtpModel/Gen/CFuns.lean) = the model's
   `Parse.treatResponseLineAsBody` for all byte strings: skip white space / NUL bytes, then "http" in either case, the guard
   `len < pos + 4` keeping the four reads inside the array. The `data == NULL` test is `false` in the translation (non-NULL
   parameters are an assumption of the translator). -/
import HtpModel.Lemmas.CFunsClasses
import HtpModel.Lemmas.CFunsLine
import HtpModel.Conn.Parsers
namespace Htp.CFuns
open Htp Htp.CSem Htp.Gen.C Htp.Gen
set_option linter.unusedSimpArgs false

/-- what the C does after the skip loop, on the bytes from `pos` on -/
def notHttp (rest : Bytes) : Bool :=
  match rest with
  | a :: b :: c :: d :: _ =>
    !((a == 0x48 || a == 0x68) && (b == 0x54 || b == 0x74) && (c == 0x54 || c == 0x74) && (d == 0x50 || d == 0x70))
  | _ => true

theorem treatResponseLineAsBody_eq (d : Bytes) :
    Parse.treatResponseLineAsBody d = notHttp (d.dropWhile (fun c => isSpace c || c == 0)) := rfl

theorem andL_some (a b : Bool) : andL (some a) (some b) = some (a && b) := by cases a <;> rfl
theorem orL_some (a b : Bool) : orL (some a) (some b) = some (a || b) := by cases a <;> rfl

/-- the loop condition on one byte: `htp_is_space(c) || c == 0` -/
theorem skip_table : ∀ c : UInt8,
    (decide ((if spaceB (c.toNat : Int) then (1 : Int) else 0) ≠ 0) || decide ((c.toNat : Int) = 0)) = (isSpace c || c == 0) := by
  apply forall_uint8_of_lt
  decide +kernel

theorem ne2_table_Hh : ∀ c : UInt8, (decide ((c.toNat : Int) ≠ 72) && decide ((c.toNat : Int) ≠ 104)) = !(c == 0x48 || c == 0x68) := by
  apply forall_uint8_of_lt
  decide +kernel
theorem ne2_table_Tt : ∀ c : UInt8, (decide ((c.toNat : Int) ≠ 84) && decide ((c.toNat : Int) ≠ 116)) = !(c == 0x54 || c == 0x74) := by
  apply forall_uint8_of_lt
  decide +kernel
theorem ne2_table_Pp : ∀ c : UInt8, (decide ((c.toNat : Int) ≠ 80) && decide ((c.toNat : Int) ≠ 112)) = !(c == 0x50 || c == 0x70) := by
  apply forall_uint8_of_lt
  decide +kernel

/-- `if (c) return e;` followed by more statements -/
theorem seqS_ifret_true {σ : Type} {c : σ → Option Bool} {e : σ → Option Int} {rest : Stmt σ} {s : σ} (h : c s = some true) :
    seqS (iteS c (retS e) skipS) rest s = (e s).map (Ctl.ret s) := by
  unfold seqS iteS retS
  rw [h]
  rcases e s with _ | v <;> rfl
theorem seqS_ifret_false {σ : Type} {c : σ → Option Bool} {e : σ → Option Int} {rest : Stmt σ} {s : σ} (h : c s = some false) :
    seqS (iteS c (retS e) skipS) rest s = rest s := by
  unfold seqS iteS skipS
  rw [h]

/-- `p[i] != k1 && p[i] != k2` with the byte known -/
theorem ne2_cond (d : Bytes) (i : Int) (v : UInt8) (k1 k2 : Int) (h : rd d i = some (v.toNat : Int)) :
    ((andL ((rd d i).bind fun a => some (decide (a ≠ k1))) ((rd d i).bind fun b => some (decide (b ≠ k2)))).bind fun c => some c)
      = some (decide ((v.toNat : Int) ≠ k1) && decide ((v.toNat : Int) ≠ k2)) := by
  rw [h]; simp only [Option.bind_some, andL_some]

/-- a read `k` bytes behind a known suffix -/
theorem rd_of_drop_add {d a : Bytes} {p : Nat} (h : d.drop p = a) (k : Nat) (hk : k < a.length) :
    rd d ((p : Int) + (k : Int)) = some ((a[k]).toNat : Int) := by
  rw [show (p : Int) + (k : Int) = ((p + k : Nat) : Int) by omega]
  have hx : d[p + k]? = some a[k] := by
    have := List.getElem?_drop (xs := d) (i := p) (j := k)
    rw [h] at this
    rw [← this]; simp [hk]
  unfold rd
  have : ¬ (((p + k : Nat) : Int) < 0) := by omega
  rw [if_neg this, Int.toNat_natCast, hx]
  rfl

abbrev T (d : Bytes) (p : Nat) : St_htp_treat_response_line_as_body := { len := d.length, pos := p }

theorem asbody_rest (F : Nat) (d : Bytes) (h1 : d.length < 9223372036854775808) (a : Bytes) (p : Nat)
    (ha : d.drop p = a) (hp : p ≤ d.length) :
    retVal (htp_treat_response_line_as_body_rest1 F d (T d p)) = some (b2i (notHttp a)) := by
  have hlen : a.length = d.length - p := by rw [← ha]; simp
  have hu4 : u64 ((p : Int) + 4) = (p : Int) + 4 := by rw [u64_id] <;> omega
  have short : a.length < 4 → retVal (htp_treat_response_line_as_body_rest1 F d (T d p)) = some 1 := by
    intro hs
    have : ((d.length : Int) < (p : Int) + 4) := by omega
    simp [htp_treat_response_line_as_body_rest1, seqS, iteS, retS, retVal, T, hu4, this]
  match a, ha, hlen, short with
  | [], _, _, short => rw [short (by simp)]; rfl
  | [_], _, _, short => rw [short (by simp)]; rfl
  | [_, _], _, _, short => rw [short (by simp)]; rfl
  | [_, _, _], _, _, short => rw [short (by simp)]; rfl
  | x :: y :: z :: w :: t, ha, hlen, _ =>
    simp only [List.length_cons] at hlen
    have hge : ¬ ((d.length : Int) < (p : Int) + 4) := by omega
    have hu1 : u64 ((p : Int) + 1) = (p : Int) + 1 := by rw [u64_id] <;> omega
    have hu2 : u64 ((p : Int) + 2) = (p : Int) + 2 := by rw [u64_id] <;> omega
    have hu3 : u64 ((p : Int) + 3) = (p : Int) + 3 := by rw [u64_id] <;> omega
    have r0 : rd d (p : Int) = some (x.toNat : Int) := rd_of_drop ha
    have r1 : rd d ((p : Int) + 1) = some (y.toNat : Int) := rd_of_drop_add ha 1 (by simp)
    have r2 : rd d ((p : Int) + 2) = some (z.toNat : Int) := rd_of_drop_add ha 2 (by simp)
    have r3 : rd d ((p : Int) + 3) = some (w.toNat : Int) := rd_of_drop_add ha 3 (by simp)
    have e0 := ne2_table_Hh x
    have e1 := ne2_table_Tt y
    have e2 := ne2_table_Tt z
    have e3 := ne2_table_Pp w
    have c0 := ne2_cond d _ x 72 104 r0
    have c1 := ne2_cond d _ y 84 116 r1
    have c2 := ne2_cond d _ z 84 116 r2
    have c3 := ne2_cond d _ w 80 112 r3
    rw [e0] at c0; rw [e1] at c1; rw [e2] at c2; rw [e3] at c3
    have g : (fun (s : St_htp_treat_response_line_as_body) => some (decide (s.len < u64 (s.pos + 4)))) (T d p) = some false := by
      simp only [T, hu4, hge, decide_false]
    unfold htp_treat_response_line_as_body_rest1
    rw [seqS_ifret_false (s := T d p) g]
    simp only [notHttp]
    generalize (x == 0x48 || x == 0x68) = b0 at c0
    generalize (y == 0x54 || y == 0x74) = b1 at c1
    generalize (z == 0x54 || z == 0x74) = b2 at c2
    generalize (w == 0x50 || w == 0x70) = b3 at c3
    cases b0
    · rw [seqS_ifret_true (s := T d p) (by simpa only [T, Bool.not_false, Bool.not_true] using c0)]; rfl
    rw [seqS_ifret_false (s := T d p) (by simpa only [T, Bool.not_false, Bool.not_true] using c0)]
    cases b1
    · rw [seqS_ifret_true (s := T d p) (by simpa only [T, hu1, Bool.not_false, Bool.not_true] using c1)]; rfl
    rw [seqS_ifret_false (s := T d p) (by simpa only [T, hu1, Bool.not_false, Bool.not_true] using c1)]
    cases b2
    · rw [seqS_ifret_true (s := T d p) (by simpa only [T, hu2, Bool.not_false, Bool.not_true] using c2)]; rfl
    rw [seqS_ifret_false (s := T d p) (by simpa only [T, hu2, Bool.not_false, Bool.not_true] using c2)]
    cases b3
    · rw [seqS_ifret_true (s := T d p) (by simpa only [T, hu3, Bool.not_false, Bool.not_true] using c3)]; rfl
    rw [seqS_ifret_false (s := T d p) (by simpa only [T, hu3, Bool.not_false, Bool.not_true] using c3)]
    rfl

theorem asbody_loop (F : Nat) (d : Bytes) (h1 : d.length < 9223372036854775808) :
    ∀ (a : Bytes) (p n : Nat), d.drop p = a → p ≤ d.length → a.length < n →
      retVal (seqS (whileF (htp_treat_response_line_as_body_cond1 F d) (htp_treat_response_line_as_body_body1 F d)
                (htp_treat_response_line_as_body_incr1 F d) n) (htp_treat_response_line_as_body_rest1 F d) (T d p))
            = some (b2i (notHttp (a.dropWhile (fun c => isSpace c || c == 0)))) := by
  intro a
  induction a with
  | nil =>
    intro p n ha hp hn
    obtain ⟨m, rfl⟩ : ∃ m, n = m + 1 := ⟨n - 1, by omega⟩
    have hl := le_of_drop_nil ha
    have hpe : (p : Int) = d.length := by omega
    have hc : htp_treat_response_line_as_body_cond1 F d (T d p) = some false := by
      simp [htp_treat_response_line_as_body_cond1, T, hpe, andL]
    rw [seqS_next (whileF_exit m hc)]
    exact asbody_rest F d h1 [] p ha hp
  | cons x a' ih =>
    intro p n ha hp hn
    obtain ⟨m, rfl⟩ : ∃ m, n = m + 1 := ⟨n - 1, by omega⟩
    have hl := lt_of_drop_cons ha
    have c1 : ((p : Int) < d.length) := by omega
    have r1 := rd_of_drop ha
    have hcv : htp_treat_response_line_as_body_cond1 F d (T d p) = some (isSpace x || x == 0) := by
      simp only [htp_treat_response_line_as_body_cond1, T, c1, decide_true, r1, Option.bind_some, htp_is_space_int, orL_some,
        andL_some, skip_table, Bool.true_and]
    cases hx : (isSpace x || x == 0) with
    | true =>
      rw [hx] at hcv
      have hu : u64 ((p : Int) + 1) = ((p + 1 : Nat) : Int) := by rw [u64_id] <;> omega
      have hb1 : htp_treat_response_line_as_body_body1 F d (T d p) = some (.next (T d (p + 1))) := by
        simp [htp_treat_response_line_as_body_body1, assignS, T, hu]
      have hi : htp_treat_response_line_as_body_incr1 F d (T d (p + 1)) = some (.next (T d (p + 1))) := rfl
      rw [seqS_congr (whileF_next m hcv hb1 hi)]
      have := ih (p + 1) m (drop_succ_of_drop ha) (by omega) (by simp at hn; omega)
      rw [List.dropWhile_cons_of_pos (by simpa using hx)]
      exact this
    | false =>
      rw [hx] at hcv
      rw [seqS_next (whileF_exit m hcv)]
      rw [List.dropWhile_cons_of_neg (by simp [hx])]
      exact asbody_rest F d h1 (x :: a') p ha hp

/-- **htp_treat_response_line_as_body, as translated from the current source, is the model's `Parse.treatResponseLineAsBody`** for all
    byte strings (below 2^63 bytes); every read inside the array; the loop finished within `len + 1` turns -/
theorem htp_treat_response_line_as_body_eq (d : Bytes) (h1 : d.length < 9223372036854775808) (fuel : Nat) (hf : d.length < fuel) :
    (htp_treat_response_line_as_body fuel d d.length).map (·.1) = some (b2i (Parse.treatResponseLineAsBody d)) := by
  unfold htp_treat_response_line_as_body
  rw [run_val]
  unfold htp_treat_response_line_as_body_stmt htp_treat_response_line_as_body_loop1
  have h0 : (assignS fun s => some { s with pos := 0 })
      ({ len := d.length } : St_htp_treat_response_line_as_body) = some (.next (T d 0)) := by
    simp [assignS, T]
  rw [seqS_next h0]
  have h2 : (iteS (fun _ => some false) (retS (fun _ => some 1)) skipS) (T d 0) = some (.next (T d 0)) := rfl
  rw [seqS_next h2, treatResponseLineAsBody_eq]
  exact asbody_loop fuel d h1 d 0 fuel rfl (by omega) hf

end Htp.CFuns

#print axioms Htp.CFuns.htp_treat_response_line_as_body_eq
