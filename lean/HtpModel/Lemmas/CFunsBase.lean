/- Facts shared by the proofs about the translated C functions (HtpModel/Gen/CFuns.lean, regenerated from /repo on every run):
   reading a byte pointer at the head of a suffix, suffix bookkeeping. -/
import HtpModel.Gen.CFuns
import HtpModel.Prim.Num
namespace Htp.CFuns
open Htp Htp.CSem Htp.Gen.C Htp.Gen

theorem rd_of_drop {d : Bytes} {p : Nat} {x : UInt8} {t : Bytes} (h : d.drop p = x :: t) :
    rd d (p : Int) = some (x.toNat : Int) := by
  have hp : p < d.length := by
    rcases Nat.lt_or_ge p d.length with h' | h'
    · exact h'
    · rw [List.drop_eq_nil_of_le h'] at h; cases h
  have hx : d[p]? = some x := by
    have := List.getElem?_drop (xs := d) (i := p) (j := 0)
    rw [h] at this
    simpa using this.symm
  unfold rd
  have : ¬ ((p : Int) < 0) := by omega
  simp [this, hx]

theorem drop_succ_of_drop {d : Bytes} {p : Nat} {x : UInt8} {t : Bytes} (h : d.drop p = x :: t) : d.drop (p + 1) = t := by
  have : d.drop (p + 1) = (d.drop p).drop 1 := by rw [List.drop_drop]; 
  rw [this, h]; rfl

theorem lt_of_drop_cons {d : Bytes} {p : Nat} {x : UInt8} {t : Bytes} (h : d.drop p = x :: t) : p < d.length := by
  rcases Nat.lt_or_ge p d.length with h' | h'
  · exact h'
  · rw [List.drop_eq_nil_of_le h'] at h; cases h

theorem le_of_drop_nil {d : Bytes} {p : Nat} (h : d.drop p = []) : d.length ≤ p := by
  simpa using h

end Htp.CFuns
