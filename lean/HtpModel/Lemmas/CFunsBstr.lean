/- Nine small bstr.c / htp_util.c functions as translated from the current source (HtpModel/Gen/CFuns.lean) = the hand-written models in
   `Htp.Bstr` / `Htp.Parse`, for all inputs: htp_connp_is_line_folded, bstr_char_at, bstr_char_at_end, bstr_chop, bstr_chr, bstr_rchr,
   bstr_begins_with_mem, bstr_begins_with_mem_nocase, bstr_to_lowercase. A `bstr *` is its content `memOf d` and its length. -/
import HtpModel.Lemmas.CFunsLine
import HtpModel.Lemmas.CFunsNocase
import HtpModel.Prim.Bstr
namespace Htp.CFuns.BstrC
open Htp Htp.CSem Htp.Gen.C Htp.Gen
set_option linter.unusedSimpArgs false
set_option linter.unusedVariables false

/-! ## 0. memory facts -/

theorem memOf_length (b : Bytes) : (memOf b).length = b.length := by simp [memOf]

theorem rdM_nat (m : List Int) (i : Nat) : rdM m (i : Int) = m[i]? := by
  have : ¬ ((i : Int) < 0) := by omega
  simp [rdM, this]

theorem rdM_memOf (d : Bytes) (i : Nat) : rdM (memOf d) (i : Int) = (d[i]?).map (fun b => (b.toNat : Int)) := by
  rw [rdM_nat]; simp [memOf]

theorem rdM_memOf_lt (d : Bytes) (i : Nat) (h : i < d.length) : rdM (memOf d) (i : Int) = some ((d[i]).toNat : Int) := by
  rw [rdM_memOf, List.getElem?_eq_getElem h]; rfl

/-! ## 1. bstr_char_at, bstr_char_at_end -/

/-- **bstr_char_at, as translated from the current source, is the model's `Bstr.charAt`** (-1 for "none") at every position -/
theorem bstr_char_at_eq (fuel : Nat) (d : Bytes) (pos : Nat) :
    (bstr_char_at fuel (memOf d) d.length pos).map (·.1)
      = some (match Bstr.charAt d pos with | some c => (c.toNat : Int) | none => -1) := by
  unfold bstr_char_at
  rw [run_val]
  unfold bstr_char_at_stmt Bstr.charAt
  by_cases h : pos < d.length
  · have hc : ¬ ((pos : Int) ≥ (d.length : Int)) := by omega
    simp [seqS, assignS, iteS, retS, skipS, retVal, hc, rdM_memOf_lt d pos h, List.getElem?_eq_getElem h]
  · have hc : ((pos : Int) ≥ (d.length : Int)) := by omega
    have hn : d[pos]? = none := List.getElem?_eq_none (by omega)
    simp [seqS, assignS, iteS, retS, retVal, hc, hn]

/-- **bstr_char_at_end = the model's `Bstr.charAtEnd`** at every position (strings below 2^63 bytes) -/
theorem bstr_char_at_end_eq (fuel : Nat) (d : Bytes) (h1 : d.length < 9223372036854775808) (pos : Nat) :
    (bstr_char_at_end fuel (memOf d) d.length pos).map (·.1)
      = some (match Bstr.charAtEnd d pos with | some c => (c.toNat : Int) | none => -1) := by
  unfold bstr_char_at_end
  rw [run_val]
  unfold bstr_char_at_end_stmt Bstr.charAtEnd
  by_cases h : pos < d.length
  · have hc : ¬ ((pos : Int) ≥ (d.length : Int)) := by omega
    have hc' : ¬ (pos ≥ d.length) := by omega
    have hk : d.length - 1 - pos < d.length := by omega
    have hu : u64 (u64 ((d.length : Int) - 1) - (pos : Int)) = ((d.length - 1 - pos : Nat) : Int) := by
      rw [u64_id (v := (d.length : Int) - 1) (by omega) (by omega), u64_id (by omega) (by omega)]; omega
    simp [seqS, assignS, iteS, retS, skipS, retVal, hc, hc', hu, rdM_memOf_lt d _ hk, List.getElem?_eq_getElem hk]
  · have hc : ((pos : Int) ≥ (d.length : Int)) := by omega
    have hc' : (pos ≥ d.length) := by omega
    simp [seqS, assignS, iteS, retS, retVal, hc, hc']

/-! ## 2. bstr_chop -/

/-- **bstr_chop = the model's `Bstr.chop`**: the new length is that of `d.dropLast`, the content is untouched -/
theorem bstr_chop_eq (fuel : Nat) (d : Bytes) (h1 : d.length < 9223372036854775808) :
    bstr_chop fuel (memOf d) d.length = some (0, { b_len := ((Bstr.chop d).length : Int), b_mem := memOf d }) := by
  unfold bstr_chop run bstr_chop_stmt Bstr.chop
  by_cases h : 0 < d.length
  · have hc : ((d.length : Int) > 0) := by omega
    have hu : u64 ((d.length : Int) - 1) = ((d.length - 1 : Nat) : Int) := by rw [u64_id] <;> omega
    simp [seqS, assignS, iteS, retS, h, hu]
  · have hc : ¬ ((d.length : Int) > 0) := by omega
    have h0 : d.length = 0 := by omega
    simp [seqS, iteS, retS, skipS, h0]

/-! ## 3. htp_connp_is_line_folded -/

/-- **htp_connp_is_line_folded = the model's `Parse.isLineFolded`** (-1 for the empty line), the callee being the translated
    `htp_is_folding_char` -/
theorem htp_connp_is_line_folded_eq (fuel : Nat) (d : Bytes) :
    (htp_connp_is_line_folded fuel d d.length).map (·.1)
      = some (match Parse.isLineFolded d with | none => -1 | some b => b2i b) := by
  unfold htp_connp_is_line_folded
  rw [run_val]
  unfold htp_connp_is_line_folded_stmt Parse.isLineFolded
  cases d with
  | nil => simp [seqS, iteS, retS, retVal]
  | cons x t =>
    have hne : ¬ (((x :: t).length : Int) = 0) := by simp; omega
    have hf := folding_table x
    simp only [seqS, iteS, retS, skipS, retVal, hne, rd_cons_zero, htp_is_folding_char_int, Bool.false_or, decide_false,
      Option.bind_some, Option.map_some, hf]

/-! ## 4. bstr_chr -/

theorem rdM_of_drop {d : Bytes} {p : Nat} {x : UInt8} {t : Bytes} (h : d.drop p = x :: t) :
    rdM (memOf d) (p : Int) = some (x.toNat : Int) := by
  have hp := lt_of_drop_cons h
  have hx : d[p] = x := by
    have := List.getElem?_drop (xs := d) (i := p) (j := 0)
    rw [h] at this
    simp [List.getElem?_eq_getElem hp] at this
    exact this.symm
  rw [rdM_memOf_lt d p hp, hx]

abbrev CH (d : Bytes) (c : UInt8) (p : Nat) : St_bstr_chr :=
  { b_len := d.length, c := c.toNat, len := d.length, i := p, b_mem := memOf d }

theorem chr_loop (F : Nat) (d : Bytes) (c : UInt8) (h1 : d.length < 2147483648) :
    ∀ (a : Bytes) (p n : Nat), d.drop p = a → p ≤ d.length → a.length < n →
      retVal (seqS (whileF (bstr_chr_cond1 F) (bstr_chr_body1 F) (bstr_chr_incr1 F) n) (bstr_chr_rest1 F) (CH d c p))
        = some (match Bstr.chrAux c a p with | some i => (i : Int) | none => -1) := by
  intro a
  induction a with
  | nil =>
    intro p n ha hp hn
    obtain ⟨m, rfl⟩ : ∃ m, n = m + 1 := ⟨n - 1, by omega⟩
    have hl := le_of_drop_nil ha
    have hpe : (p : Int) = d.length := by omega
    have hc : bstr_chr_cond1 F (CH d c p) = some false := by simp [bstr_chr_cond1, hpe]
    rw [seqS_next (whileF_exit m hc)]
    simp [bstr_chr_rest1, retS, retVal, Bstr.chrAux]
  | cons x a' ih =>
    intro p n ha hp hn
    obtain ⟨m, rfl⟩ : ∃ m, n = m + 1 := ⟨n - 1, by omega⟩
    have hl := lt_of_drop_cons ha
    have c1 : ((p : Int) < d.length) := by omega
    have r1 := rdM_of_drop ha
    have hc : bstr_chr_cond1 F (CH d c p) = some true := by simp [bstr_chr_cond1, c1]
    by_cases hxc : x = c
    · subst hxc
      have hi32 : i32 (p : Int) = (p : Int) := by rw [i32_id] <;> omega
      have hb1 : bstr_chr_body1 F (CH d x p) = some (.ret (CH d x p) (p : Int)) := by
        simp [bstr_chr_body1, iteS, retS, seqS, CH, r1, hi32]
      rw [seqS_ret (whileF_ret m hc hb1)]
      simp [retVal, Bstr.chrAux]
    · have hn' : ¬ ((x.toNat : Int) = c.toNat) := by rw [toNat_int_eq_iff]; exact hxc
      have hu : u64 ((p : Int) + 1) = ((p + 1 : Nat) : Int) := by rw [u64_id] <;> omega
      have hb1 : bstr_chr_body1 F (CH d c p) = some (.next (CH d c (p + 1))) := by
        simp [bstr_chr_body1, iteS, seqS, skipS, assignS, CH, r1, hn', hu]
      have hi : bstr_chr_incr1 F (CH d c (p + 1)) = some (.next (CH d c (p + 1))) := rfl
      rw [seqS_congr (whileF_next m hc hb1 hi)]
      have := ih (p + 1) m (drop_succ_of_drop ha) (by omega) (by simp at hn; omega)
      simpa [Bstr.chrAux, hxc] using this

/-- **bstr_chr = the model's `Bstr.chr`** (-1 for "none"; strings below 2^31 bytes, the `(int)` conversion of the index is exact) -/
theorem bstr_chr_eq (d : Bytes) (c : UInt8) (h1 : d.length < 2147483648) (fuel : Nat) (hf : d.length < fuel) :
    (bstr_chr fuel (memOf d) d.length c.toNat).map (·.1)
      = some (match Bstr.chr d c with | some i => (i : Int) | none => -1) := by
  unfold bstr_chr
  rw [run_val]
  unfold bstr_chr_stmt bstr_chr_loop1
  have h0 : (assignS fun s : St_bstr_chr => some { s with len := s.b_len })
      ({ b_len := d.length, c := c.toNat, b_mem := memOf d } : St_bstr_chr)
      = some (.next { b_len := d.length, c := c.toNat, len := d.length, b_mem := memOf d }) := by
    simp [assignS]
  have h1' : (assignS fun s : St_bstr_chr => some { s with i := 0 })
      ({ b_len := d.length, c := c.toNat, len := d.length, b_mem := memOf d } : St_bstr_chr)
      = some (.next (CH d c 0)) := by
    simp [assignS, CH]
  rw [seqS_next h0, seqS_next h1']
  exact chr_loop fuel d c h1 d 0 fuel rfl (by omega) hf

/-! ## 5. bstr_rchr: the C scans from the end, the model scans forward and keeps the last match -/

theorem rchrAux_snoc (c x : UInt8) : ∀ (a : Bytes) (i : Nat) (acc : Option Nat),
    Bstr.rchrAux c (a ++ [x]) i acc = if x == c then some (i + a.length) else Bstr.rchrAux c a i acc := by
  intro a
  induction a with
  | nil => intro i acc; simp [Bstr.rchrAux]
  | cons h t ih =>
    intro i acc
    simp only [List.cons_append, Bstr.rchrAux, ih, List.length_cons]
    have : i + 1 + t.length = i + (t.length + 1) := by omega
    rw [this]

theorem rchr_take_succ (d : Bytes) (c : UInt8) (p : Nat) (h : p < d.length) :
    Bstr.rchr (d.take (p + 1)) c = if d[p] == c then some p else Bstr.rchr (d.take p) c := by
  unfold Bstr.rchr
  rw [List.take_succ_eq_append_getElem h, rchrAux_snoc]
  simp [List.length_take, Nat.min_eq_left (Nat.le_of_lt h)]

abbrev RC (d : Bytes) (c : UInt8) (p : Nat) : St_bstr_rchr :=
  { b_len := d.length, c := c.toNat, len := d.length, i := p, b_mem := memOf d }

theorem rchr_loop (F : Nat) (d : Bytes) (c : UInt8) (h1 : d.length < 2147483648) :
    ∀ (p n : Nat), p ≤ d.length → p < n →
      retVal (seqS (whileF (bstr_rchr_cond1 F) (bstr_rchr_body1 F) (bstr_rchr_incr1 F) n) (bstr_rchr_rest1 F) (RC d c p))
        = some (match Bstr.rchr (d.take p) c with | some i => (i : Int) | none => -1) := by
  intro p
  induction p with
  | zero =>
    intro n hp hn
    obtain ⟨m, rfl⟩ : ∃ m, n = m + 1 := ⟨n - 1, by omega⟩
    have hc : bstr_rchr_cond1 F (RC d c 0) = some false := by simp [bstr_rchr_cond1]
    rw [seqS_next (whileF_exit m hc)]
    simp [bstr_rchr_rest1, retS, retVal, Bstr.rchr, Bstr.rchrAux]
  | succ q ih =>
    intro n hp hn
    obtain ⟨m, rfl⟩ : ∃ m, n = m + 1 := ⟨n - 1, by omega⟩
    have hq : q < d.length := by omega
    have hu : u64 (((q + 1 : Nat) : Int) - 1) = (q : Int) := by rw [u64_id] <;> omega
    have r1 := rdM_memOf_lt d q hq
    have hc : bstr_rchr_cond1 F (RC d c (q + 1)) = some true := by
      have : ((q : Int) + 1 > 0) := by omega
      simp [bstr_rchr_cond1, this]
    rw [rchr_take_succ d c q hq]
    by_cases hxc : d[q] = c
    · have hi32 : i32 (q : Int) = (q : Int) := by rw [i32_id] <;> omega
      have hb1 : bstr_rchr_body1 F (RC d c (q + 1)) = some (.ret (RC d c (q + 1)) (q : Int)) := by
        simp only [bstr_rchr_body1, iteS, retS, seqS, RC, hu, r1, hxc, hi32, Option.bind_some, decide_true, Option.map_some]
      rw [seqS_ret (whileF_ret m hc hb1)]
      simp [retVal, hxc]
    · have hn' : ¬ (((d[q]).toNat : Int) = c.toNat) := by rw [toNat_int_eq_iff]; exact hxc
      have hb1 : bstr_rchr_body1 F (RC d c (q + 1)) = some (.next (RC d c q)) := by
        simp only [bstr_rchr_body1, iteS, seqS, skipS, assignS, RC, hu, r1, hn', Option.bind_some, decide_false, Option.map_some]
      have hi : bstr_rchr_incr1 F (RC d c q) = some (.next (RC d c q)) := rfl
      rw [seqS_congr (whileF_next m hc hb1 hi)]
      have := ih m (by omega) (by omega)
      simpa [hxc] using this

/-- **bstr_rchr = the model's `Bstr.rchr`**: scanning backwards from the end finds the same index as the model's forward scan that
    remembers the last match (-1 for "none"; strings below 2^31 bytes) -/
theorem bstr_rchr_eq (d : Bytes) (c : UInt8) (h1 : d.length < 2147483648) (fuel : Nat) (hf : d.length < fuel) :
    (bstr_rchr fuel (memOf d) d.length c.toNat).map (·.1)
      = some (match Bstr.rchr d c with | some i => (i : Int) | none => -1) := by
  unfold bstr_rchr
  rw [run_val]
  unfold bstr_rchr_stmt bstr_rchr_loop1
  have h0 : (assignS fun s : St_bstr_rchr => some { s with len := s.b_len })
      ({ b_len := d.length, c := c.toNat, b_mem := memOf d } : St_bstr_rchr)
      = some (.next { b_len := d.length, c := c.toNat, len := d.length, b_mem := memOf d }) := by
    simp [assignS]
  have h1' : (assignS fun s : St_bstr_rchr => some { s with i := s.len })
      ({ b_len := d.length, c := c.toNat, len := d.length, b_mem := memOf d } : St_bstr_rchr)
      = some (.next (RC d c d.length)) := by
    simp [assignS, RC]
  rw [seqS_next h0, seqS_next h1']
  have := rchr_loop fuel d c h1 d.length fuel (by omega) hf
  rw [List.take_length] at this
  exact this

/-! ## 6. bstr_begins_with_mem, bstr_begins_with_mem_nocase -/

abbrev BW (hay needle : Bytes) (p : Nat) : St_bstr_begins_with_mem :=
  { haystack_len := hay.length, len := needle.length, hlen := hay.length, pos := p, haystack_mem := memOf hay }

theorem bstr_begins_with_mem_loop (F : Nat) (hay needle : Bytes) (h1 : hay.length < 9223372036854775808)
    (h2 : needle.length < 9223372036854775808) :
    ∀ (b a : Bytes) (p n : Nat), hay.drop p = a → needle.drop p = b → p ≤ hay.length → p ≤ needle.length →
      min a.length b.length < n →
      retVal (seqS (whileF (bstr_begins_with_mem_cond1 F needle) (bstr_begins_with_mem_body1 F needle)
                (bstr_begins_with_mem_incr1 F needle) n) (bstr_begins_with_mem_rest1 F needle) (BW hay needle p))
        = some (b2i (Bstr.prefixMatch Bstr.eqExact a b)) := by
  intro b
  induction b with
  | nil =>
    intro a p n ha hb hp1 hp2 hn
    obtain ⟨m, rfl⟩ : ∃ m, n = m + 1 := ⟨n - 1, by omega⟩
    have hl := le_of_drop_nil hb
    have hpe : (p : Int) = needle.length := by omega
    have hc : bstr_begins_with_mem_cond1 F needle (BW hay needle p) = some false := by
      simp [bstr_begins_with_mem_cond1, hpe]
    rw [seqS_next (whileF_exit m hc)]
    simp [bstr_begins_with_mem_rest1, iteS, retS, retVal, hpe, Bstr.prefixMatch, b2i]
  | cons y b' ih =>
    intro a p n ha hb hp1 hp2 hn
    obtain ⟨m, rfl⟩ : ∃ m, n = m + 1 := ⟨n - 1, by omega⟩
    have hl2 := lt_of_drop_cons hb
    cases a with
    | nil =>
      have hl := le_of_drop_nil ha
      have hpe : (p : Int) = hay.length := by omega
      have hne : ¬ ((hay.length : Int) = needle.length) := by omega
      have hc : bstr_begins_with_mem_cond1 F needle (BW hay needle p) = some false := by
        simp [bstr_begins_with_mem_cond1, hpe]
      rw [seqS_next (whileF_exit m hc)]
      simp [bstr_begins_with_mem_rest1, iteS, retS, retVal, hpe, hne, Bstr.prefixMatch, b2i]
    | cons x a' =>
      have hl := lt_of_drop_cons ha
      have c1 : ((p : Int) < hay.length) := by omega
      have c2 : ((p : Int) < needle.length) := by omega
      have r1 := rdM_of_drop ha
      have r2 := rd_of_drop hb
      have t1 := tolowerI_toNat x
      have t2 := tolowerI_toNat y
      have hc : bstr_begins_with_mem_cond1 F needle (BW hay needle p) = some true := by
        simp [bstr_begins_with_mem_cond1, c1, c2]
      by_cases hxy : x = y
      · have hu : u64 ((p : Int) + 1) = ((p + 1 : Nat) : Int) := by rw [u64_id] <;> omega
        have hb1 : bstr_begins_with_mem_body1 F needle (BW hay needle p) = some (.next (BW hay needle (p + 1))) := by
          simp [bstr_begins_with_mem_body1, iteS, seqS, skipS, assignS, BW, r1, r2, t1, t2, hu, hxy]
        have hi : bstr_begins_with_mem_incr1 F needle (BW hay needle (p + 1)) = some (.next (BW hay needle (p + 1))) := rfl
        rw [seqS_congr (whileF_next m hc hb1 hi)]
        have := ih a' (p + 1) m (drop_succ_of_drop ha) (drop_succ_of_drop hb) (by omega) (by omega)
          (by simp only [List.length_cons] at hn; omega)
        simpa [Bstr.prefixMatch, Bstr.eqExact, hxy] using this
      · have hn' : ¬ (((x).toNat : Int) = (y).toNat) := by rw [toNat_int_eq_iff]; exact hxy
        have hb1 : bstr_begins_with_mem_body1 F needle (BW hay needle p) = some (.ret (BW hay needle p) 0) := by
          simp [bstr_begins_with_mem_body1, iteS, retS, seqS, BW, r1, r2, t1, t2, hn']
        rw [seqS_ret (whileF_ret m hc hb1)]
        simp [retVal, Bstr.prefixMatch, Bstr.eqExact, hxy, b2i]

/-- **bstr_begins_with_mem = the model's `Bstr.beginsWithMem`** (as a C truth value) for all byte strings below 2^63 bytes; every read
    of the haystack content and of the needle is inside its array; at most min(|hay|, |needle|) + 1 turns -/
theorem bstr_begins_with_mem_eq (hay needle : Bytes) (h1 : hay.length < 9223372036854775808)
    (h2 : needle.length < 9223372036854775808) (fuel : Nat) (hf : min hay.length needle.length < fuel) :
    (bstr_begins_with_mem fuel needle (memOf hay) hay.length needle.length).map (·.1)
      = some (b2i (Bstr.beginsWithMem hay needle)) := by
  unfold bstr_begins_with_mem
  rw [run_val]
  unfold bstr_begins_with_mem_stmt bstr_begins_with_mem_loop1
  have h0 : (assignS fun s : St_bstr_begins_with_mem => some { s with hlen := s.haystack_len })
      ({ haystack_len := hay.length, len := needle.length, haystack_mem := memOf hay } : St_bstr_begins_with_mem)
      = some (.next { haystack_len := hay.length, len := needle.length, hlen := hay.length, haystack_mem := memOf hay }) := by
    simp [assignS]
  have h1' : (assignS fun s : St_bstr_begins_with_mem => some { s with pos := 0 })
      ({ haystack_len := hay.length, len := needle.length, hlen := hay.length, haystack_mem := memOf hay } : St_bstr_begins_with_mem)
      = some (.next (BW hay needle 0)) := by
    simp [assignS, BW]
  rw [seqS_next h0, seqS_next h1']
  exact bstr_begins_with_mem_loop fuel hay needle h1 h2 needle hay 0 fuel rfl rfl (by omega) (by omega) hf

abbrev BN (hay needle : Bytes) (p : Nat) : St_bstr_begins_with_mem_nocase :=
  { haystack_len := hay.length, len := needle.length, hlen := hay.length, pos := p, haystack_mem := memOf hay }

theorem bstr_begins_with_mem_nocase_loop (F : Nat) (hay needle : Bytes) (h1 : hay.length < 9223372036854775808)
    (h2 : needle.length < 9223372036854775808) :
    ∀ (b a : Bytes) (p n : Nat), hay.drop p = a → needle.drop p = b → p ≤ hay.length → p ≤ needle.length →
      min a.length b.length < n →
      retVal (seqS (whileF (bstr_begins_with_mem_nocase_cond1 F needle) (bstr_begins_with_mem_nocase_body1 F needle)
                (bstr_begins_with_mem_nocase_incr1 F needle) n) (bstr_begins_with_mem_nocase_rest1 F needle) (BN hay needle p))
        = some (b2i (Bstr.prefixMatch Bstr.eqLower a b)) := by
  intro b
  induction b with
  | nil =>
    intro a p n ha hb hp1 hp2 hn
    obtain ⟨m, rfl⟩ : ∃ m, n = m + 1 := ⟨n - 1, by omega⟩
    have hl := le_of_drop_nil hb
    have hpe : (p : Int) = needle.length := by omega
    have hc : bstr_begins_with_mem_nocase_cond1 F needle (BN hay needle p) = some false := by
      simp [bstr_begins_with_mem_nocase_cond1, hpe]
    rw [seqS_next (whileF_exit m hc)]
    simp [bstr_begins_with_mem_nocase_rest1, iteS, retS, retVal, hpe, Bstr.prefixMatch, b2i]
  | cons y b' ih =>
    intro a p n ha hb hp1 hp2 hn
    obtain ⟨m, rfl⟩ : ∃ m, n = m + 1 := ⟨n - 1, by omega⟩
    have hl2 := lt_of_drop_cons hb
    cases a with
    | nil =>
      have hl := le_of_drop_nil ha
      have hpe : (p : Int) = hay.length := by omega
      have hne : ¬ ((hay.length : Int) = needle.length) := by omega
      have hc : bstr_begins_with_mem_nocase_cond1 F needle (BN hay needle p) = some false := by
        simp [bstr_begins_with_mem_nocase_cond1, hpe]
      rw [seqS_next (whileF_exit m hc)]
      simp [bstr_begins_with_mem_nocase_rest1, iteS, retS, retVal, hpe, hne, Bstr.prefixMatch, b2i]
    | cons x a' =>
      have hl := lt_of_drop_cons ha
      have c1 : ((p : Int) < hay.length) := by omega
      have c2 : ((p : Int) < needle.length) := by omega
      have r1 := rdM_of_drop ha
      have r2 := rd_of_drop hb
      have t1 := tolowerI_toNat x
      have t2 := tolowerI_toNat y
      have hc : bstr_begins_with_mem_nocase_cond1 F needle (BN hay needle p) = some true := by
        simp [bstr_begins_with_mem_nocase_cond1, c1, c2]
      by_cases hxy : cTolower x = cTolower y
      · have hu : u64 ((p : Int) + 1) = ((p + 1 : Nat) : Int) := by rw [u64_id] <;> omega
        have hb1 : bstr_begins_with_mem_nocase_body1 F needle (BN hay needle p) = some (.next (BN hay needle (p + 1))) := by
          simp [bstr_begins_with_mem_nocase_body1, iteS, seqS, skipS, assignS, BN, r1, r2, t1, t2, hu, hxy]
        have hi : bstr_begins_with_mem_nocase_incr1 F needle (BN hay needle (p + 1)) = some (.next (BN hay needle (p + 1))) := rfl
        rw [seqS_congr (whileF_next m hc hb1 hi)]
        have := ih a' (p + 1) m (drop_succ_of_drop ha) (drop_succ_of_drop hb) (by omega) (by omega)
          (by simp only [List.length_cons] at hn; omega)
        simpa [Bstr.prefixMatch, Bstr.eqLower, hxy] using this
      · have hn' : ¬ (((cTolower x).toNat : Int) = (cTolower y).toNat) := by rw [toNat_int_eq_iff]; exact hxy
        have hb1 : bstr_begins_with_mem_nocase_body1 F needle (BN hay needle p) = some (.ret (BN hay needle p) 0) := by
          simp [bstr_begins_with_mem_nocase_body1, iteS, retS, seqS, BN, r1, r2, t1, t2, hn']
        rw [seqS_ret (whileF_ret m hc hb1)]
        simp [retVal, Bstr.prefixMatch, Bstr.eqLower, hxy, b2i]

/-- **bstr_begins_with_mem_nocase = the model's `Bstr.beginsWithMemNocase`** (as a C truth value) for all byte strings below 2^63 bytes; every read
    of the haystack content and of the needle is inside its array; at most min(|hay|, |needle|) + 1 turns -/
theorem bstr_begins_with_mem_nocase_eq (hay needle : Bytes) (h1 : hay.length < 9223372036854775808)
    (h2 : needle.length < 9223372036854775808) (fuel : Nat) (hf : min hay.length needle.length < fuel) :
    (bstr_begins_with_mem_nocase fuel needle (memOf hay) hay.length needle.length).map (·.1)
      = some (b2i (Bstr.beginsWithMemNocase hay needle)) := by
  unfold bstr_begins_with_mem_nocase
  rw [run_val]
  unfold bstr_begins_with_mem_nocase_stmt bstr_begins_with_mem_nocase_loop1
  have h0 : (assignS fun s : St_bstr_begins_with_mem_nocase => some { s with hlen := s.haystack_len })
      ({ haystack_len := hay.length, len := needle.length, haystack_mem := memOf hay } : St_bstr_begins_with_mem_nocase)
      = some (.next { haystack_len := hay.length, len := needle.length, hlen := hay.length, haystack_mem := memOf hay }) := by
    simp [assignS]
  have h1' : (assignS fun s : St_bstr_begins_with_mem_nocase => some { s with pos := 0 })
      ({ haystack_len := hay.length, len := needle.length, hlen := hay.length, haystack_mem := memOf hay } : St_bstr_begins_with_mem_nocase)
      = some (.next (BN hay needle 0)) := by
    simp [assignS, BN]
  rw [seqS_next h0, seqS_next h1']
  exact bstr_begins_with_mem_nocase_loop fuel hay needle h1 h2 needle hay 0 fuel rfl rfl (by omega) (by omega) hf

/-! ## 7. bstr_to_lowercase: a loop that writes `data[i] = (uint8_t) tolower(data[i])` -/

theorem byte_u8 (a : UInt8) : u8 (a.toNat : Int) = (a.toNat : Int) := by
  have := a.toNat_lt
  rw [u8_id] <;> omega

theorem memOf_append (a b : Bytes) : memOf (a ++ b) = memOf a ++ memOf b := by simp [memOf]

theorem wrM_nat (m : List Int) (i : Nat) (v : Int) (h : i < m.length) : wrM m (i : Int) v = some (m.set i v) := by
  have : ¬ ((i : Int) < 0) := by omega
  simp [wrM, this, h]

/-- the byte after the part already converted -/
theorem rdM_mid (pre : Bytes) (x : UInt8) (t : Bytes) :
    rdM (memOf (pre ++ x :: t)) (pre.length : Int) = some (x.toNat : Int) := by
  rw [rdM_memOf]; simp

/-- overwriting it -/
theorem wrM_mid (pre : Bytes) (x y : UInt8) (t : Bytes) :
    wrM (memOf (pre ++ x :: t)) (pre.length : Int) (y.toNat : Int) = some (memOf ((pre ++ [y]) ++ t)) := by
  rw [wrM_nat _ _ _ (by simp [memOf_length])]
  simp [memOf]

/-- loop state: `L` is the (fixed) length, `pre` the part already converted, `a` the rest -/
abbrev TL (L : Nat) (pre a : Bytes) : St_bstr_to_lowercase :=
  { b_len := L, len := L, i := pre.length, b_mem := memOf (pre ++ a) }

theorem to_lowercase_loop (F : Nat) (L : Nat) (hL : L < 9223372036854775808) :
    ∀ (a pre : Bytes) (n : Nat), pre.length + a.length = L → a.length < n →
      seqS (whileF (bstr_to_lowercase_cond1 F) (bstr_to_lowercase_body1 F) (bstr_to_lowercase_incr1 F) n)
          (bstr_to_lowercase_rest1 F) (TL L pre a)
        = some (.ret (TL L (pre ++ a.map cTolower) []) 1) := by
  intro a
  induction a with
  | nil =>
    intro pre n hl hn
    obtain ⟨m, rfl⟩ : ∃ m, n = m + 1 := ⟨n - 1, by omega⟩
    have hpe : (pre.length : Int) = L := by simp at hl; omega
    have hc : bstr_to_lowercase_cond1 F (TL L pre []) = some false := by simp [bstr_to_lowercase_cond1, hpe]
    rw [seqS_next (whileF_exit m hc)]
    simp [bstr_to_lowercase_rest1, retS]
  | cons x t ih =>
    intro pre n hl hn
    obtain ⟨m, rfl⟩ : ∃ m, n = m + 1 := ⟨n - 1, by omega⟩
    simp only [List.length_cons] at hl hn
    have c1 : ((pre.length : Int) < L) := by omega
    have hc : bstr_to_lowercase_cond1 F (TL L pre (x :: t)) = some true := by simp [bstr_to_lowercase_cond1, c1]
    have hu : u64 ((pre.length : Int) + 1) = (((pre ++ [cTolower x]).length : Nat) : Int) := by
      rw [u64_id (by omega) (by omega)]; simp
    have hw : u8 (tolowerI (x.toNat : Int)) = ((cTolower x).toNat : Int) := by rw [tolowerI_toNat, byte_u8]
    have hb1 : bstr_to_lowercase_body1 F (TL L pre (x :: t)) = some (.next (TL L (pre ++ [cTolower x]) t)) := by
      simp only [bstr_to_lowercase_body1, seqS, assignS, TL, rdM_mid, hw, wrM_mid, Option.bind_some, Option.map_some, hu]
    have hi : bstr_to_lowercase_incr1 F (TL L (pre ++ [cTolower x]) t) = some (.next (TL L (pre ++ [cTolower x]) t)) := rfl
    rw [seqS_congr (whileF_next m hc hb1 hi)]
    have := ih (pre ++ [cTolower x]) m (by simp; omega) (by omega)
    simpa using this

/-- **bstr_to_lowercase = the model's `Bstr.toLowercase`**: it returns the (non-NULL) argument, the content afterwards is the
    lower-cased string, the length is unchanged (all byte strings below 2^63 bytes; every read and write inside the buffer; the
    `(uint8_t)` conversion of `tolower`'s result is exact) -/
theorem bstr_to_lowercase_eq (d : Bytes) (h1 : d.length < 9223372036854775808) (fuel : Nat) (hf : d.length < fuel) :
    bstr_to_lowercase fuel (memOf d) d.length
      = some (1, { b_len := d.length, len := d.length, i := d.length, b_mem := memOf (Bstr.toLowercase d) }) := by
  unfold bstr_to_lowercase run bstr_to_lowercase_stmt bstr_to_lowercase_loop1
  have h00 : (iteS (fun s : St_bstr_to_lowercase => some false) (retS fun s => some 0) skipS)
      ({ b_len := d.length, b_mem := memOf d } : St_bstr_to_lowercase)
      = some (.next { b_len := d.length, b_mem := memOf d }) := by
    simp [iteS, skipS]
  have h0 : (assignS fun s : St_bstr_to_lowercase => some { s with len := s.b_len })
      ({ b_len := d.length, b_mem := memOf d } : St_bstr_to_lowercase)
      = some (.next { b_len := d.length, len := d.length, b_mem := memOf d }) := by
    simp [assignS]
  have h1' : (assignS fun s : St_bstr_to_lowercase => some { s with i := 0 })
      ({ b_len := d.length, len := d.length, b_mem := memOf d } : St_bstr_to_lowercase)
      = some (.next (TL d.length [] d)) := by
    simp [assignS, TL]
  rw [seqS_next h00, seqS_next h0, seqS_next h1', to_lowercase_loop fuel d.length h1 d [] fuel (by simp) hf]
  simp [TL, Bstr.toLowercase]

end Htp.CFuns.BstrC

#print axioms Htp.CFuns.BstrC.htp_connp_is_line_folded_eq
#print axioms Htp.CFuns.BstrC.bstr_char_at_eq
#print axioms Htp.CFuns.BstrC.bstr_char_at_end_eq
#print axioms Htp.CFuns.BstrC.bstr_chop_eq
#print axioms Htp.CFuns.BstrC.bstr_chr_eq
#print axioms Htp.CFuns.BstrC.bstr_rchr_eq
#print axioms Htp.CFuns.BstrC.bstr_begins_with_mem_eq
#print axioms Htp.CFuns.BstrC.bstr_begins_with_mem_nocase_eq
#print axioms Htp.CFuns.BstrC.bstr_to_lowercase_eq
