/- htp_connp_req_buffer / htp_connp_res_buffer (the functions that set the unconsumed part of the current chunk aside in the line buffer
   in_buf / out_buf and enforce the hard field limit) and htp_connp_req_clear_buffer / htp_connp_res_clear_buffer, as translated from the
   current source (HtpModel/Gen/CFuns.lean):
   * C10 about the CODE: a successful call leaves `buf_size + header_len ≤ field_limit_hard` or adds nothing; a call that would exceed the
     limit returns HTP_ERROR and stores nothing (all-or-nothing), also when the allocator fails
   * they compute the hand-written model `Dir.buffer` / `Dir.clearBuffer` (HtpModel/Conn/Req.lean) on the fields of every direction
     record whose cursors lie inside the chunk. -/
import HtpModel.Gen.CFuns
import HtpModel.Conn.Req
namespace Htp.CFuns
open Htp Htp.CSem Htp.Gen.C Htp.Gen Htp.Conn
set_option linter.unusedSimpArgs false
set_option linter.unusedVariables false

/-! ## 0. what a call leaves in the connection parser: the fields both twins share -/

/-- return value and the `connp` fields after the call -/
structure BufOut where
  ret : Int
  buf : List Int
  bufNull : Int
  size : Int
  consume : Int
  read : Int
  deriving Repr, DecidableEq

def reqOut (r : Option (Int × St_htp_connp_req_buffer)) : Option BufOut :=
  r.map fun p => { ret := p.1, buf := p.2.connp_in_buf, bufNull := p.2.connp_in_buf_null, size := p.2.connp_in_buf_size,
                   consume := p.2.connp_in_current_consume_offset, read := p.2.connp_in_current_read_offset }

def resOut (r : Option (Int × St_htp_connp_res_buffer)) : Option BufOut :=
  r.map fun p => { ret := p.1, buf := p.2.connp_out_buf, bufNull := p.2.connp_out_buf_null, size := p.2.connp_out_buf_size,
                   consume := p.2.connp_out_current_consume_offset, read := p.2.connp_out_current_read_offset }

/-- the paths of the two functions, with the size_t wraps gone (`skip` = the request side's `if (len == 0) return HTP_OK`) -/
def bufPaths (skip : Bool) (cur : Bytes) (dnull : Int) (buf : List Int) (bnull size consume read hlen hnull hard alloc : Int) :
    Option BufOut :=
  if dnull ≠ 0 then some { ret := 1, buf := buf, bufNull := bnull, size := size, consume := consume, read := read }
  else if skip = true ∧ read - consume = 0 then
    some { ret := 1, buf := buf, bufNull := bnull, size := size, consume := consume, read := read }
  else if size + (read - consume) + (if hnull = 0 then hlen else 0) > hard then
    some { ret := -1, buf := buf, bufNull := bnull, size := size, consume := consume, read := read }
  else if bnull ≠ 0 then
    if alloc ≠ 0 then
      (memcpyB (List.replicate (read - consume).toNat 0) 0 cur consume (read - consume)).map fun m =>
        { ret := 1, buf := m, bufNull := 0, size := read - consume, consume := read, read := read }
    else some { ret := -1, buf := [], bufNull := 1, size := size, consume := consume, read := read }
  else
    if alloc ≠ 0 then
      (memcpyB (resizeM buf (size + (read - consume)).toNat) size cur consume (read - consume)).map fun m =>
        { ret := 1, buf := m, bufNull := 0, size := size + (read - consume), consume := read, read := read }
    else some { ret := -1, buf := buf, bufNull := bnull, size := size, consume := consume, read := read }

theorem req_paths (fuel : Nat) (cur : Bytes) (dnull : Int) (buf : List Int) (bnull size consume read hlen hnull hard alloc : Int)
    (hc0 : 0 ≤ consume) (hcr : consume ≤ read) (hr : read < 4611686018427387904)
    (hs0 : 0 ≤ size) (hs : size < 4611686018427387904) (hh0 : 0 ≤ hlen) (hh : hlen < 4611686018427387904) :
    reqOut (htp_connp_req_buffer fuel (connp_in_current_data := cur) (connp_in_current_data_null := dnull) (connp_in_buf := buf)
        (connp_in_buf_null := bnull) (connp_in_buf_size := size) (connp_in_current_consume_offset := consume)
        (connp_in_current_read_offset := read) (connp_in_header_len := hlen) (connp_in_header_null := hnull)
        (connp_in_tx_cfg_field_limit_hard := hard) (alloc_ok := alloc))
      = bufPaths true cur dnull buf bnull size consume read hlen hnull hard alloc := by
  have e1 : u64 (read - consume) = read - consume := u64_id (by omega) (by omega)
  have e2 : u64 (size + (read - consume)) = size + (read - consume) := u64_id (by omega) (by omega)
  have e3 : u64 (size + (read - consume) + hlen) = size + (read - consume) + hlen := u64_id (by omega) (by omega)
  by_cases h1 : dnull = 0
  · by_cases h2 : read - consume = 0
    · have e0 : u64 0 = 0 := rfl
      simp [htp_connp_req_buffer, htp_connp_req_buffer_stmt, run, seqS, iteS, retS, skipS, assignS, bufPaths, reqOut, e0, h1, h2]
    · by_cases h3 : hnull = 0
      · by_cases h4 : size + (read - consume) + hlen > hard
        · simp [htp_connp_req_buffer, htp_connp_req_buffer_stmt, run, seqS, iteS, retS, skipS, assignS, bufPaths, reqOut, e1, e2, e3, h1, h2, h3, h4]
        · by_cases h5 : bnull = 0 <;> by_cases h6 : alloc = 0
          · simp [htp_connp_req_buffer, htp_connp_req_buffer_stmt, run, seqS, iteS, retS, skipS, assignS, bufPaths, reqOut, e1, e2, e3, h1, h2, h3, h4, h5, h6]
          · simp [htp_connp_req_buffer, htp_connp_req_buffer_stmt, run, seqS, iteS, retS, skipS, assignS, bufPaths, reqOut, e1, e2, e3, h1, h2, h3, h4, h5, h6]
            cases memcpyB (resizeM buf (size + (read - consume)).toNat) size cur consume (read - consume) <;> simp
          · simp [htp_connp_req_buffer, htp_connp_req_buffer_stmt, run, seqS, iteS, retS, skipS, assignS, bufPaths, reqOut, e1, e2, e3, h1, h2, h3, h4, h5, h6]
          · simp [htp_connp_req_buffer, htp_connp_req_buffer_stmt, run, seqS, iteS, retS, skipS, assignS, bufPaths, reqOut, e1, e2, e3, h1, h2, h3, h4, h5, h6]
            cases memcpyB (List.replicate (read - consume).toNat 0) 0 cur consume (read - consume) <;> simp
      · by_cases h4 : size + (read - consume) > hard
        · simp [htp_connp_req_buffer, htp_connp_req_buffer_stmt, run, seqS, iteS, retS, skipS, assignS, bufPaths, reqOut, e1, e2, e3, h1, h2, h3, h4]
        · by_cases h5 : bnull = 0 <;> by_cases h6 : alloc = 0
          · simp [htp_connp_req_buffer, htp_connp_req_buffer_stmt, run, seqS, iteS, retS, skipS, assignS, bufPaths, reqOut, e1, e2, e3, h1, h2, h3, h4, h5, h6]
          · simp [htp_connp_req_buffer, htp_connp_req_buffer_stmt, run, seqS, iteS, retS, skipS, assignS, bufPaths, reqOut, e1, e2, e3, h1, h2, h3, h4, h5, h6]
            cases memcpyB (resizeM buf (size + (read - consume)).toNat) size cur consume (read - consume) <;> simp
          · simp [htp_connp_req_buffer, htp_connp_req_buffer_stmt, run, seqS, iteS, retS, skipS, assignS, bufPaths, reqOut, e1, e2, e3, h1, h2, h3, h4, h5, h6]
          · simp [htp_connp_req_buffer, htp_connp_req_buffer_stmt, run, seqS, iteS, retS, skipS, assignS, bufPaths, reqOut, e1, e2, e3, h1, h2, h3, h4, h5, h6]
            cases memcpyB (List.replicate (read - consume).toNat 0) 0 cur consume (read - consume) <;> simp
  · simp [htp_connp_req_buffer, htp_connp_req_buffer_stmt, run, seqS, iteS, retS, skipS, assignS, bufPaths, reqOut, h1]

theorem res_paths (fuel : Nat) (cur : Bytes) (dnull : Int) (buf : List Int) (bnull size consume read hlen hnull hard alloc : Int)
    (hc0 : 0 ≤ consume) (hcr : consume ≤ read) (hr : read < 4611686018427387904)
    (hs0 : 0 ≤ size) (hs : size < 4611686018427387904) (hh0 : 0 ≤ hlen) (hh : hlen < 4611686018427387904) :
    resOut (htp_connp_res_buffer fuel (connp_out_current_data := cur) (connp_out_current_data_null := dnull) (connp_out_buf := buf)
        (connp_out_buf_null := bnull) (connp_out_buf_size := size) (connp_out_current_consume_offset := consume)
        (connp_out_current_read_offset := read) (connp_out_header_len := hlen) (connp_out_header_null := hnull)
        (connp_out_tx_cfg_field_limit_hard := hard) (alloc_ok := alloc))
      = bufPaths false cur dnull buf bnull size consume read hlen hnull hard alloc := by
  have e1 : u64 (read - consume) = read - consume := u64_id (by omega) (by omega)
  have e2 : u64 (size + (read - consume)) = size + (read - consume) := u64_id (by omega) (by omega)
  have e3 : u64 (size + (read - consume) + hlen) = size + (read - consume) + hlen := u64_id (by omega) (by omega)
  by_cases h1 : dnull = 0
  · by_cases h3 : hnull = 0
    · by_cases h4 : size + (read - consume) + hlen > hard
      · simp [htp_connp_res_buffer, htp_connp_res_buffer_stmt, run, seqS, iteS, retS, skipS, assignS, bufPaths, resOut, e1, e2, e3, h1, h3, h4]
      · by_cases h5 : bnull = 0 <;> by_cases h6 : alloc = 0
        · simp [htp_connp_res_buffer, htp_connp_res_buffer_stmt, run, seqS, iteS, retS, skipS, assignS, bufPaths, resOut, e1, e2, e3, h1, h3, h4, h5, h6]
        · simp [htp_connp_res_buffer, htp_connp_res_buffer_stmt, run, seqS, iteS, retS, skipS, assignS, bufPaths, resOut, e1, e2, e3, h1, h3, h4, h5, h6]
          cases memcpyB (resizeM buf (size + (read - consume)).toNat) size cur consume (read - consume) <;> simp
        · simp [htp_connp_res_buffer, htp_connp_res_buffer_stmt, run, seqS, iteS, retS, skipS, assignS, bufPaths, resOut, e1, e2, e3, h1, h3, h4, h5, h6]
        · simp [htp_connp_res_buffer, htp_connp_res_buffer_stmt, run, seqS, iteS, retS, skipS, assignS, bufPaths, resOut, e1, e2, e3, h1, h3, h4, h5, h6]
          cases memcpyB (List.replicate (read - consume).toNat 0) 0 cur consume (read - consume) <;> simp
    · by_cases h4 : size + (read - consume) > hard
      · simp [htp_connp_res_buffer, htp_connp_res_buffer_stmt, run, seqS, iteS, retS, skipS, assignS, bufPaths, resOut, e1, e2, e3, h1, h3, h4]
      · by_cases h5 : bnull = 0 <;> by_cases h6 : alloc = 0
        · simp [htp_connp_res_buffer, htp_connp_res_buffer_stmt, run, seqS, iteS, retS, skipS, assignS, bufPaths, resOut, e1, e2, e3, h1, h3, h4, h5, h6]
        · simp [htp_connp_res_buffer, htp_connp_res_buffer_stmt, run, seqS, iteS, retS, skipS, assignS, bufPaths, resOut, e1, e2, e3, h1, h3, h4, h5, h6]
          cases memcpyB (resizeM buf (size + (read - consume)).toNat) size cur consume (read - consume) <;> simp
        · simp [htp_connp_res_buffer, htp_connp_res_buffer_stmt, run, seqS, iteS, retS, skipS, assignS, bufPaths, resOut, e1, e2, e3, h1, h3, h4, h5, h6]
        · simp [htp_connp_res_buffer, htp_connp_res_buffer_stmt, run, seqS, iteS, retS, skipS, assignS, bufPaths, resOut, e1, e2, e3, h1, h3, h4, h5, h6]
          cases memcpyB (List.replicate (read - consume).toNat 0) 0 cur consume (read - consume) <;> simp
  · simp [htp_connp_res_buffer, htp_connp_res_buffer_stmt, run, seqS, iteS, retS, skipS, assignS, bufPaths, resOut, h1]

/-! ## 1. C10 about the code: what is set aside never exceeds the hard limit; over the limit nothing is stored -/

theorem memcpyB_length {dst : List Int} {doff : Int} {src : Bytes} {soff n : Int} {m : List Int}
    (h : memcpyB dst doff src soff n = some m) : m.length = dst.length := by
  unfold memcpyB at h
  split at h
  · cases h
  · split at h
    · rename_i hneg hr
      cases h
      simp only [List.length_append, List.length_take, List.length_map, List.length_drop]
      omega
    · cases h

theorem resizeM_length (m : List Int) (n : Nat) : (resizeM m n).length = n := by
  unfold resizeM
  simp only [List.length_append, List.length_take, List.length_replicate]
  omega

/-- every path of the two functions, for all field values: the result is HTP_OK (1) or HTP_ERROR (-1);
    HTP_OK: either the line buffer now holds `size' = (buf NULL ? 0 : size) + len` bytes with `size' + header_len ≤ hard`, or nothing
    was touched; HTP_ERROR: size, offsets and buffer content are as before, and unless the allocator failed the sum was over the limit -/
theorem bufPaths_c10 (skip : Bool) (cur : Bytes) (dnull : Int) (buf : List Int) (bnull size consume read hlen hnull hard alloc : Int)
    (hcr : consume ≤ read) (hs0 : 0 ≤ size) (o : BufOut)
    (h : bufPaths skip cur dnull buf bnull size consume read hlen hnull hard alloc = some o) :
    (o.ret = 1 ∨ o.ret = -1) ∧ o.read = read ∧
    (o.ret = 1 →
      (o.size + (if hnull = 0 then hlen else 0) ≤ hard ∧ o.size ≤ size + (read - consume) ∧ (o.buf.length : Int) = o.size ∧
        o.bufNull = 0 ∧ o.consume = read) ∨
      (o.buf = buf ∧ o.bufNull = bnull ∧ o.size = size ∧ o.consume = consume ∧ (dnull ≠ 0 ∨ read - consume = 0))) ∧
    (o.ret = -1 →
      o.size = size ∧ o.consume = consume ∧ (o.bufNull ≠ 0 ↔ bnull ≠ 0) ∧ (bnull = 0 → o.buf = buf) ∧
      (alloc ≠ 0 → size + (read - consume) + (if hnull = 0 then hlen else 0) > hard)) := by
  unfold bufPaths at h
  generalize (if hnull = 0 then hlen else 0) = hdr at h ⊢
  split at h
  · cases h; simp; omega
  · split at h
    · cases h; simp; omega
    · split at h
      · cases h; simp; omega
      · rename_i hd hsk hlim
        split at h
        · split at h
          · cases hm : memcpyB (List.replicate (read - consume).toNat 0) 0 cur consume (read - consume) with
            | none => rw [hm] at h; cases h
            | some m =>
              rw [hm] at h; cases h
              have hl := memcpyB_length hm
              simp only [List.length_replicate] at hl
              refine ⟨Or.inl rfl, rfl, fun _ => Or.inl ⟨?_, ?_, ?_, rfl, rfl⟩, fun h => by cases h⟩
              · show read - consume + _ ≤ hard; omega
              · show read - consume ≤ _; omega
              · show (m.length : Int) = read - consume; omega
          · cases h; simp; omega
        · split at h
          · cases hm : memcpyB (resizeM buf (size + (read - consume)).toNat) size cur consume (read - consume) with
            | none => rw [hm] at h; cases h
            | some m =>
              rw [hm] at h; cases h
              have hl := memcpyB_length hm
              rw [resizeM_length] at hl
              refine ⟨Or.inl rfl, rfl, fun _ => Or.inl ⟨?_, ?_, ?_, rfl, rfl⟩, fun h => by cases h⟩
              · show size + (read - consume) + _ ≤ hard; omega
              · show size + (read - consume) ≤ _; omega
              · show (m.length : Int) = size + (read - consume); omega
          · cases h; simp; omega

/-- **C10 about the translated `htp_connp_req_buffer`** (all field values, allocator succeeding or failing): the function returns
    HTP_OK (1) or HTP_ERROR (-1). HTP_OK: either the bytes now set aside obey `in_buf_size + in_header_len ≤ field_limit_hard` (and
    `in_buf` has exactly `in_buf_size` elements, the chunk is consumed up to the read offset), or nothing was added and no field changed
    (NULL chunk, `len == 0`). HTP_ERROR: nothing was stored - size, offsets and the buffer are as before - and, unless the allocator
    failed, the sum was over the limit. -/
theorem htp_connp_req_buffer_c10 (fuel : Nat) (cur : Bytes) (dnull : Int) (buf : List Int)
    (bnull size consume read hlen hnull hard alloc : Int)
    (hc0 : 0 ≤ consume) (hcr : consume ≤ read) (hr : read < 4611686018427387904)
    (hs0 : 0 ≤ size) (hs : size < 4611686018427387904) (hh0 : 0 ≤ hlen) (hh : hlen < 4611686018427387904)
    (r : Int) (s : St_htp_connp_req_buffer)
    (h : htp_connp_req_buffer fuel (connp_in_current_data := cur) (connp_in_current_data_null := dnull) (connp_in_buf := buf)
        (connp_in_buf_null := bnull) (connp_in_buf_size := size) (connp_in_current_consume_offset := consume)
        (connp_in_current_read_offset := read) (connp_in_header_len := hlen) (connp_in_header_null := hnull)
        (connp_in_tx_cfg_field_limit_hard := hard) (alloc_ok := alloc) = some (r, s)) :
    (r = 1 ∨ r = -1) ∧ s.connp_in_current_read_offset = read ∧
    (r = 1 →
      (s.connp_in_buf_size + (if hnull = 0 then hlen else 0) ≤ hard ∧ s.connp_in_buf_size ≤ size + (read - consume) ∧
        (s.connp_in_buf.length : Int) = s.connp_in_buf_size ∧ s.connp_in_buf_null = 0 ∧
        s.connp_in_current_consume_offset = read) ∨
      (s.connp_in_buf = buf ∧ s.connp_in_buf_null = bnull ∧ s.connp_in_buf_size = size ∧
        s.connp_in_current_consume_offset = consume ∧ (dnull ≠ 0 ∨ read - consume = 0))) ∧
    (r = -1 →
      s.connp_in_buf_size = size ∧ s.connp_in_current_consume_offset = consume ∧
      (s.connp_in_buf_null ≠ 0 ↔ bnull ≠ 0) ∧ (bnull = 0 → s.connp_in_buf = buf) ∧
      (alloc ≠ 0 → size + (read - consume) + (if hnull = 0 then hlen else 0) > hard)) := by
  have hp := req_paths fuel cur dnull buf bnull size consume read hlen hnull hard alloc hc0 hcr hr hs0 hs hh0 hh
  rw [h] at hp
  exact bufPaths_c10 _ cur dnull buf bnull size consume read hlen hnull hard alloc hcr hs0 _ hp.symm

/-- all-or-nothing, the refusing half: a request chunk with something to set aside that would take `buf_size + len + header_len` over the hard
    limit makes the translated function return HTP_ERROR with every field as before (whatever the allocator does) -/
theorem htp_connp_req_buffer_over_limit (fuel : Nat) (cur : Bytes) (dnull : Int) (buf : List Int)
    (bnull size consume read hlen hnull hard alloc : Int)
    (hc0 : 0 ≤ consume) (hcr : consume ≤ read) (hr : read < 4611686018427387904)
    (hs0 : 0 ≤ size) (hs : size < 4611686018427387904) (hh0 : 0 ≤ hlen) (hh : hlen < 4611686018427387904)
    (hd : dnull = 0) (hne : consume < read)
    (hover : size + (read - consume) + (if hnull = 0 then hlen else 0) > hard) :
    ∃ s, htp_connp_req_buffer fuel (connp_in_current_data := cur) (connp_in_current_data_null := dnull) (connp_in_buf := buf)
        (connp_in_buf_null := bnull) (connp_in_buf_size := size) (connp_in_current_consume_offset := consume)
        (connp_in_current_read_offset := read) (connp_in_header_len := hlen) (connp_in_header_null := hnull)
        (connp_in_tx_cfg_field_limit_hard := hard) (alloc_ok := alloc) = some (-1, s) ∧
      s.connp_in_buf = buf ∧ s.connp_in_buf_null = bnull ∧ s.connp_in_buf_size = size ∧
      s.connp_in_current_consume_offset = consume ∧ s.connp_in_current_read_offset = read := by
  have hp := req_paths fuel cur dnull buf bnull size consume read hlen hnull hard alloc hc0 hcr hr hs0 hs hh0 hh
  have hb : bufPaths true cur dnull buf bnull size consume read hlen hnull hard alloc
      = some { ret := -1, buf := buf, bufNull := bnull, size := size, consume := consume, read := read } := by
    unfold bufPaths
    rw [if_neg (by omega), if_neg (by omega), if_pos hover]
  rw [hb] at hp
  cases hc : htp_connp_req_buffer fuel (connp_in_current_data := cur) (connp_in_current_data_null := dnull) (connp_in_buf := buf)
        (connp_in_buf_null := bnull) (connp_in_buf_size := size) (connp_in_current_consume_offset := consume)
        (connp_in_current_read_offset := read) (connp_in_header_len := hlen) (connp_in_header_null := hnull)
        (connp_in_tx_cfg_field_limit_hard := hard) (alloc_ok := alloc) with
  | none => rw [hc] at hp; cases hp
  | some p =>
    obtain ⟨r, s⟩ := p
    rw [hc] at hp
    simp only [reqOut, Option.map_some, Option.some.injEq, BufOut.mk.injEq] at hp
    obtain ⟨h1, h2, h3, h4, h5, h6⟩ := hp
    subst h1
    exact ⟨s, rfl, h2, h3, h4, h5, h6⟩

/-- **C10 about the translated `htp_connp_res_buffer`** (all field values, allocator succeeding or failing): the function returns
    HTP_OK (1) or HTP_ERROR (-1). HTP_OK: either the bytes now set aside obey `out_buf_size + out_header_len ≤ field_limit_hard` (and
    `out_buf` has exactly `out_buf_size` elements, the chunk is consumed up to the read offset), or nothing was added and no field changed
    (NULL chunk). HTP_ERROR: nothing was stored - size, offsets and the buffer are as before - and, unless the allocator
    failed, the sum was over the limit. -/
theorem htp_connp_res_buffer_c10 (fuel : Nat) (cur : Bytes) (dnull : Int) (buf : List Int)
    (bnull size consume read hlen hnull hard alloc : Int)
    (hc0 : 0 ≤ consume) (hcr : consume ≤ read) (hr : read < 4611686018427387904)
    (hs0 : 0 ≤ size) (hs : size < 4611686018427387904) (hh0 : 0 ≤ hlen) (hh : hlen < 4611686018427387904)
    (r : Int) (s : St_htp_connp_res_buffer)
    (h : htp_connp_res_buffer fuel (connp_out_current_data := cur) (connp_out_current_data_null := dnull) (connp_out_buf := buf)
        (connp_out_buf_null := bnull) (connp_out_buf_size := size) (connp_out_current_consume_offset := consume)
        (connp_out_current_read_offset := read) (connp_out_header_len := hlen) (connp_out_header_null := hnull)
        (connp_out_tx_cfg_field_limit_hard := hard) (alloc_ok := alloc) = some (r, s)) :
    (r = 1 ∨ r = -1) ∧ s.connp_out_current_read_offset = read ∧
    (r = 1 →
      (s.connp_out_buf_size + (if hnull = 0 then hlen else 0) ≤ hard ∧ s.connp_out_buf_size ≤ size + (read - consume) ∧
        (s.connp_out_buf.length : Int) = s.connp_out_buf_size ∧ s.connp_out_buf_null = 0 ∧
        s.connp_out_current_consume_offset = read) ∨
      (s.connp_out_buf = buf ∧ s.connp_out_buf_null = bnull ∧ s.connp_out_buf_size = size ∧
        s.connp_out_current_consume_offset = consume ∧ (dnull ≠ 0 ∨ read - consume = 0))) ∧
    (r = -1 →
      s.connp_out_buf_size = size ∧ s.connp_out_current_consume_offset = consume ∧
      (s.connp_out_buf_null ≠ 0 ↔ bnull ≠ 0) ∧ (bnull = 0 → s.connp_out_buf = buf) ∧
      (alloc ≠ 0 → size + (read - consume) + (if hnull = 0 then hlen else 0) > hard)) := by
  have hp := res_paths fuel cur dnull buf bnull size consume read hlen hnull hard alloc hc0 hcr hr hs0 hs hh0 hh
  rw [h] at hp
  exact bufPaths_c10 _ cur dnull buf bnull size consume read hlen hnull hard alloc hcr hs0 _ hp.symm

/-- all-or-nothing, the refusing half: a response chunk that would take `buf_size + len + header_len` over the hard
    limit makes the translated function return HTP_ERROR with every field as before (whatever the allocator does) -/
theorem htp_connp_res_buffer_over_limit (fuel : Nat) (cur : Bytes) (dnull : Int) (buf : List Int)
    (bnull size consume read hlen hnull hard alloc : Int)
    (hc0 : 0 ≤ consume) (hcr : consume ≤ read) (hr : read < 4611686018427387904)
    (hs0 : 0 ≤ size) (hs : size < 4611686018427387904) (hh0 : 0 ≤ hlen) (hh : hlen < 4611686018427387904)
    (hd : dnull = 0)
    (hover : size + (read - consume) + (if hnull = 0 then hlen else 0) > hard) :
    ∃ s, htp_connp_res_buffer fuel (connp_out_current_data := cur) (connp_out_current_data_null := dnull) (connp_out_buf := buf)
        (connp_out_buf_null := bnull) (connp_out_buf_size := size) (connp_out_current_consume_offset := consume)
        (connp_out_current_read_offset := read) (connp_out_header_len := hlen) (connp_out_header_null := hnull)
        (connp_out_tx_cfg_field_limit_hard := hard) (alloc_ok := alloc) = some (-1, s) ∧
      s.connp_out_buf = buf ∧ s.connp_out_buf_null = bnull ∧ s.connp_out_buf_size = size ∧
      s.connp_out_current_consume_offset = consume ∧ s.connp_out_current_read_offset = read := by
  have hp := res_paths fuel cur dnull buf bnull size consume read hlen hnull hard alloc hc0 hcr hr hs0 hs hh0 hh
  have hb : bufPaths false cur dnull buf bnull size consume read hlen hnull hard alloc
      = some { ret := -1, buf := buf, bufNull := bnull, size := size, consume := consume, read := read } := by
    unfold bufPaths
    rw [if_neg (by omega), if_neg (by simp), if_pos hover]
  rw [hb] at hp
  cases hc : htp_connp_res_buffer fuel (connp_out_current_data := cur) (connp_out_current_data_null := dnull) (connp_out_buf := buf)
        (connp_out_buf_null := bnull) (connp_out_buf_size := size) (connp_out_current_consume_offset := consume)
        (connp_out_current_read_offset := read) (connp_out_header_len := hlen) (connp_out_header_null := hnull)
        (connp_out_tx_cfg_field_limit_hard := hard) (alloc_ok := alloc) with
  | none => rw [hc] at hp; cases hp
  | some p =>
    obtain ⟨r, s⟩ := p
    rw [hc] at hp
    simp only [resOut, Option.map_some, Option.some.injEq, BufOut.mk.injEq] at hp
    obtain ⟨h1, h2, h3, h4, h5, h6⟩ := hp
    subst h1
    exact ⟨s, rfl, h2, h3, h4, h5, h6⟩

/-! ## 2. the translated functions compute the model `Dir.buffer` -/

/-- `malloc(len)` + `memcpy(in_buf, data + consume, len)`: the new buffer is the piece of the chunk -/
theorem memcpyB_fresh (cur : Bytes) (consume read : Int) (h0 : 0 ≤ consume) (h1 : consume ≤ read) (h2 : read ≤ cur.length) :
    memcpyB (List.replicate (read - consume).toNat 0) 0 cur consume (read - consume)
      = some (memOf ((cur.drop consume.toNat).take (read - consume).toNat)) := by
  unfold memcpyB
  rw [if_neg (by omega)]
  have hc : consume.toNat + (read - consume).toNat ≤ cur.length ∧
      (0 : Int).toNat + (read - consume).toNat ≤ (List.replicate (read - consume).toNat (0 : Int)).length := by
    refine ⟨by omega, by simp⟩
  rw [if_pos hc]
  simp [memOf]

/-- `realloc(in_buf, size + len)` + `memcpy(in_buf + size, data + consume, len)`: the piece is appended -/
theorem memcpyB_append (b cur : Bytes) (consume read : Int) (h0 : 0 ≤ consume) (h1 : consume ≤ read) (h2 : read ≤ cur.length) :
    memcpyB (resizeM (memOf b) ((b.length : Int) + (read - consume)).toNat) (b.length : Int) cur consume (read - consume)
      = some (memOf (b ++ (cur.drop consume.toNat).take (read - consume).toNat)) := by
  obtain ⟨n, hn⟩ : ∃ n : Nat, read - consume = (n : Int) := ⟨(read - consume).toNat, by omega⟩
  rw [hn]
  have e : ((b.length : Int) + (n : Int)).toNat = b.length + n := by omega
  rw [e]
  have hr : resizeM (memOf b) (b.length + n) = memOf b ++ List.replicate n 0 := by
    unfold resizeM
    rw [List.take_of_length_le (by simp [memOf])]
    congr 2
    simp [memOf]
  rw [hr]
  unfold memcpyB
  rw [if_neg (by omega)]
  have hl : (memOf b).length = b.length := by simp [memOf]
  have hc : consume.toNat + (n : Int).toNat ≤ cur.length ∧
      (b.length : Int).toNat + (n : Int).toNat ≤ (memOf b ++ List.replicate n (0 : Int)).length := by
    refine ⟨by omega, by simp [hl]⟩
  rw [if_pos hc]
  simp only [Int.toNat_natCast]
  have hd : List.drop (b.length + n) (memOf b ++ List.replicate n (0 : Int)) = [] :=
    List.drop_of_length_le (by simp [hl])
  rw [List.take_left' hl, hd]
  simp [memOf]

/-- how a direction record is handed to the translated functions -/
def encBuf (b : Option Bytes) : List Int := match b with | some b => memOf b | none => []

/-- the fields after a call, read off the model's record -/
def outOfDir (ret : Int) (d : Dir) : BufOut :=
  { ret := ret, buf := encBuf d.buf, bufNull := if d.buf.isNone then 1 else 0, size := ((d.buf.map (·.length)).getD 0 : Nat),
    consume := d.consume, read := d.read }

/-- the paths on the fields of a direction record whose cursors lie inside the chunk, allocator succeeding = the model -/
theorem bufPaths_model (skip : Bool) (d : Dir) (hard : Nat)
    (hc0 : 0 ≤ d.consume) (hcr : d.consume ≤ d.read) (hrl : d.read ≤ d.cur.length) (hl : d.cur.length < 4611686018427387904) :
    bufPaths skip d.cur (if d.curNull then 1 else 0) (encBuf d.buf) (if d.buf.isNone then 1 else 0)
        ((d.buf.map (·.length)).getD 0 : Nat) d.consume d.read ((d.header.map (·.length)).getD 0 : Nat)
        (if d.header.isNone then 1 else 0) hard 1
      = some (match d.buffer hard skip with
              | none => outOfDir (-1) d
              | some d' => outOfDir 1 d') := by
  have hsz : sizeOfInt (d.read - d.consume) = (d.read - d.consume).toNat := by
    unfold sizeOfInt; congr 1; omega
  unfold bufPaths Dir.buffer
  cases hn : d.curNull
  · simp only [Bool.false_eq_true, if_false, ne_eq, not_true_eq_false, hsz]
    by_cases hsk : skip = true ∧ d.read - d.consume = 0
    · have : (skip && (d.read - d.consume).toNat == 0) = true := by
        simp only [Bool.and_eq_true, beq_iff_eq]; exact ⟨hsk.1, by omega⟩
      rw [if_pos hsk]
      simp only [this, if_true]
      rfl
    · have : (skip && (d.read - d.consume).toNat == 0) = false := by
        cases skip
        · rfl
        · simp only [Bool.true_and, beq_eq_false_iff_ne]; simp only [true_and] at hsk; omega
      rw [if_neg hsk]
      simp only [this, Bool.false_eq_true, if_false]
      have hh : (if (if d.header.isNone = true then (1 : Int) else 0) = 0 then (((d.header.map (·.length)).getD 0 : Nat) : Int) else 0)
          = (((d.header.map (·.length)).getD 0 : Nat) : Int) := by
        cases d.header <;> simp
      rw [hh]
      by_cases hlim : (d.buf.map (·.length)).getD 0 + (d.read - d.consume).toNat + (d.header.map (·.length)).getD 0 > hard
      · rw [if_pos (by omega)]
        simp only [hlim, if_true]
        rfl
      · rw [if_neg (by omega)]
        simp only [hlim, if_false]
        cases hb : d.buf with
        | none =>
          simp only [Option.isNone_none, if_true, ne_eq, not_false_eq_true, encBuf, Option.map_none, Option.getD_none]
          rw [if_pos (by decide), if_pos (by decide), memcpyB_fresh _ _ _ hc0 hcr hrl]
          simp only [Option.map_some, outOfDir, sliceCur, encBuf, Option.isNone_some, Option.map_some, Option.getD_some,
            List.nil_append, Bool.false_eq_true, if_false]
          congr 2
          simp only [List.length_take, List.length_drop]
          omega
        | some b =>
          simp only [Option.isNone_some, Bool.false_eq_true, if_false, ne_eq, not_true_eq_false, encBuf, Option.map_some,
            Option.getD_some]
          rw [if_pos (by decide), memcpyB_append _ _ _ _ hc0 hcr hrl]
          simp only [Option.map_some, outOfDir, sliceCur, encBuf, Option.isNone_some, Option.map_some, Option.getD_some,
            Bool.false_eq_true, if_false]
          congr 2
          simp only [List.length_append, List.length_take, List.length_drop]
          omega
  · simp only [if_true]
    rw [if_pos (by decide)]
    rfl

/-- **the translated `htp_connp_req_buffer` = the model `Dir.buffer · hard true`** on the fields of every direction record whose cursors
    lie inside the chunk (lengths below 2^62, allocator succeeding): it returns HTP_ERROR (-1) exactly when the model refuses, leaving
    the fields as they were, and HTP_OK (1) with the fields of the model's record otherwise; every memcpy stays inside its block -/
theorem htp_connp_req_buffer_eq (fuel : Nat) (d : Dir) (hard : Nat)
    (hc0 : 0 ≤ d.consume) (hcr : d.consume ≤ d.read) (hrl : d.read ≤ d.cur.length) (hl : d.cur.length < 4611686018427387904)
    (hbl : ∀ b, d.buf = some b → b.length < 4611686018427387904)
    (hhl : ∀ h, d.header = some h → h.length < 4611686018427387904) :
    ∃ s, htp_connp_req_buffer fuel (connp_in_current_data := d.cur) (connp_in_current_data_null := if d.curNull then 1 else 0)
        (connp_in_buf := match d.buf with | some b => memOf b | none => [])
        (connp_in_buf_null := if d.buf.isNone then 1 else 0) (connp_in_buf_size := ((d.buf.map (·.length)).getD 0 : Nat))
        (connp_in_current_consume_offset := d.consume) (connp_in_current_read_offset := d.read)
        (connp_in_header_len := ((d.header.map (·.length)).getD 0 : Nat)) (connp_in_header_null := if d.header.isNone then 1 else 0)
        (connp_in_tx_cfg_field_limit_hard := hard) (alloc_ok := 1)
      = some ((match d.buffer hard true with | none => -1 | some _ => 1), s) ∧
      (match d.buffer hard true with
       | none => s.connp_in_buf = (match d.buf with | some b => memOf b | none => []) ∧
        s.connp_in_buf_null = (if d.buf.isNone then 1 else 0) ∧
        s.connp_in_buf_size = ((d.buf.map (·.length)).getD 0 : Nat) ∧
        s.connp_in_current_consume_offset = d.consume ∧ s.connp_in_current_read_offset = d.read
       | some d' => s.connp_in_buf = (match d'.buf with | some b => memOf b | none => []) ∧
        s.connp_in_buf_null = (if d'.buf.isNone then 1 else 0) ∧
        s.connp_in_buf_size = ((d'.buf.map (·.length)).getD 0 : Nat) ∧
        s.connp_in_current_consume_offset = d'.consume ∧ s.connp_in_current_read_offset = d'.read) := by
  have hr : d.read < 4611686018427387904 := by omega
  have hb : (((d.buf.map (·.length)).getD 0 : Nat) : Int) < 4611686018427387904 := by
    cases hbuf : d.buf with
    | none => simp
    | some b => have := hbl b hbuf; simp only [Option.map_some, Option.getD_some]; omega
  have hh : (((d.header.map (·.length)).getD 0 : Nat) : Int) < 4611686018427387904 := by
    cases hhd : d.header with
    | none => simp
    | some b => have := hhl b hhd; simp only [Option.map_some, Option.getD_some]; omega
  have hp := req_paths fuel d.cur (if d.curNull then 1 else 0) (encBuf d.buf) (if d.buf.isNone then 1 else 0)
    ((d.buf.map (·.length)).getD 0 : Nat) d.consume d.read ((d.header.map (·.length)).getD 0 : Nat)
    (if d.header.isNone then 1 else 0) hard 1
  replace hp := hp hc0 hcr hr (Int.natCast_nonneg _) hb (Int.natCast_nonneg _) hh
  rw [bufPaths_model true d hard hc0 hcr hrl hl] at hp
  change reqOut (htp_connp_req_buffer fuel (connp_in_current_data := d.cur)
        (connp_in_current_data_null := if d.curNull then 1 else 0)
        (connp_in_buf := match d.buf with | some b => memOf b | none => [])
        (connp_in_buf_null := if d.buf.isNone then 1 else 0) (connp_in_buf_size := ((d.buf.map (·.length)).getD 0 : Nat))
        (connp_in_current_consume_offset := d.consume) (connp_in_current_read_offset := d.read)
        (connp_in_header_len := ((d.header.map (·.length)).getD 0 : Nat)) (connp_in_header_null := if d.header.isNone then 1 else 0)
        (connp_in_tx_cfg_field_limit_hard := hard) (alloc_ok := 1)) = _ at hp
  generalize htp_connp_req_buffer fuel (connp_in_current_data := d.cur)
        (connp_in_current_data_null := if d.curNull then 1 else 0)
        (connp_in_buf := match d.buf with | some b => memOf b | none => [])
        (connp_in_buf_null := if d.buf.isNone then 1 else 0) (connp_in_buf_size := ((d.buf.map (·.length)).getD 0 : Nat))
        (connp_in_current_consume_offset := d.consume) (connp_in_current_read_offset := d.read)
        (connp_in_header_len := ((d.header.map (·.length)).getD 0 : Nat)) (connp_in_header_null := if d.header.isNone then 1 else 0)
        (connp_in_tx_cfg_field_limit_hard := hard) (alloc_ok := 1) = call at hp ⊢
  cases call with
  | none => cases hp
  | some p =>
    obtain ⟨r, s⟩ := p
    simp only [reqOut, Option.map_some, Option.some.injEq] at hp
    refine ⟨s, ?_, ?_⟩
    · cases hm : d.buffer hard true with
      | none => rw [hm] at hp; have := congrArg BufOut.ret hp; simp only [outOfDir] at this; rw [this]
      | some d' => rw [hm] at hp; have := congrArg BufOut.ret hp; simp only [outOfDir] at this; rw [this]
    · cases hm : d.buffer hard true with
      | none =>
        rw [hm] at hp
        exact ⟨congrArg BufOut.buf hp, congrArg BufOut.bufNull hp, congrArg BufOut.size hp, congrArg BufOut.consume hp,
          congrArg BufOut.read hp⟩
      | some d' =>
        rw [hm] at hp
        exact ⟨congrArg BufOut.buf hp, congrArg BufOut.bufNull hp, congrArg BufOut.size hp, congrArg BufOut.consume hp,
          congrArg BufOut.read hp⟩

/-- **the translated `htp_connp_res_buffer` = the model `Dir.buffer · hard false`** on the fields of every direction record whose cursors
    lie inside the chunk (lengths below 2^62, allocator succeeding): it returns HTP_ERROR (-1) exactly when the model refuses, leaving
    the fields as they were, and HTP_OK (1) with the fields of the model's record otherwise; every memcpy stays inside its block -/
theorem htp_connp_res_buffer_eq (fuel : Nat) (d : Dir) (hard : Nat)
    (hc0 : 0 ≤ d.consume) (hcr : d.consume ≤ d.read) (hrl : d.read ≤ d.cur.length) (hl : d.cur.length < 4611686018427387904)
    (hbl : ∀ b, d.buf = some b → b.length < 4611686018427387904)
    (hhl : ∀ h, d.header = some h → h.length < 4611686018427387904) :
    ∃ s, htp_connp_res_buffer fuel (connp_out_current_data := d.cur) (connp_out_current_data_null := if d.curNull then 1 else 0)
        (connp_out_buf := match d.buf with | some b => memOf b | none => [])
        (connp_out_buf_null := if d.buf.isNone then 1 else 0) (connp_out_buf_size := ((d.buf.map (·.length)).getD 0 : Nat))
        (connp_out_current_consume_offset := d.consume) (connp_out_current_read_offset := d.read)
        (connp_out_header_len := ((d.header.map (·.length)).getD 0 : Nat)) (connp_out_header_null := if d.header.isNone then 1 else 0)
        (connp_out_tx_cfg_field_limit_hard := hard) (alloc_ok := 1)
      = some ((match d.buffer hard false with | none => -1 | some _ => 1), s) ∧
      (match d.buffer hard false with
       | none => s.connp_out_buf = (match d.buf with | some b => memOf b | none => []) ∧
        s.connp_out_buf_null = (if d.buf.isNone then 1 else 0) ∧
        s.connp_out_buf_size = ((d.buf.map (·.length)).getD 0 : Nat) ∧
        s.connp_out_current_consume_offset = d.consume ∧ s.connp_out_current_read_offset = d.read
       | some d' => s.connp_out_buf = (match d'.buf with | some b => memOf b | none => []) ∧
        s.connp_out_buf_null = (if d'.buf.isNone then 1 else 0) ∧
        s.connp_out_buf_size = ((d'.buf.map (·.length)).getD 0 : Nat) ∧
        s.connp_out_current_consume_offset = d'.consume ∧ s.connp_out_current_read_offset = d'.read) := by
  have hr : d.read < 4611686018427387904 := by omega
  have hb : (((d.buf.map (·.length)).getD 0 : Nat) : Int) < 4611686018427387904 := by
    cases hbuf : d.buf with
    | none => simp
    | some b => have := hbl b hbuf; simp only [Option.map_some, Option.getD_some]; omega
  have hh : (((d.header.map (·.length)).getD 0 : Nat) : Int) < 4611686018427387904 := by
    cases hhd : d.header with
    | none => simp
    | some b => have := hhl b hhd; simp only [Option.map_some, Option.getD_some]; omega
  have hp := res_paths fuel d.cur (if d.curNull then 1 else 0) (encBuf d.buf) (if d.buf.isNone then 1 else 0)
    ((d.buf.map (·.length)).getD 0 : Nat) d.consume d.read ((d.header.map (·.length)).getD 0 : Nat)
    (if d.header.isNone then 1 else 0) hard 1
  replace hp := hp hc0 hcr hr (Int.natCast_nonneg _) hb (Int.natCast_nonneg _) hh
  rw [bufPaths_model false d hard hc0 hcr hrl hl] at hp
  change resOut (htp_connp_res_buffer fuel (connp_out_current_data := d.cur)
        (connp_out_current_data_null := if d.curNull then 1 else 0)
        (connp_out_buf := match d.buf with | some b => memOf b | none => [])
        (connp_out_buf_null := if d.buf.isNone then 1 else 0) (connp_out_buf_size := ((d.buf.map (·.length)).getD 0 : Nat))
        (connp_out_current_consume_offset := d.consume) (connp_out_current_read_offset := d.read)
        (connp_out_header_len := ((d.header.map (·.length)).getD 0 : Nat)) (connp_out_header_null := if d.header.isNone then 1 else 0)
        (connp_out_tx_cfg_field_limit_hard := hard) (alloc_ok := 1)) = _ at hp
  generalize htp_connp_res_buffer fuel (connp_out_current_data := d.cur)
        (connp_out_current_data_null := if d.curNull then 1 else 0)
        (connp_out_buf := match d.buf with | some b => memOf b | none => [])
        (connp_out_buf_null := if d.buf.isNone then 1 else 0) (connp_out_buf_size := ((d.buf.map (·.length)).getD 0 : Nat))
        (connp_out_current_consume_offset := d.consume) (connp_out_current_read_offset := d.read)
        (connp_out_header_len := ((d.header.map (·.length)).getD 0 : Nat)) (connp_out_header_null := if d.header.isNone then 1 else 0)
        (connp_out_tx_cfg_field_limit_hard := hard) (alloc_ok := 1) = call at hp ⊢
  cases call with
  | none => cases hp
  | some p =>
    obtain ⟨r, s⟩ := p
    simp only [resOut, Option.map_some, Option.some.injEq] at hp
    refine ⟨s, ?_, ?_⟩
    · cases hm : d.buffer hard false with
      | none => rw [hm] at hp; have := congrArg BufOut.ret hp; simp only [outOfDir] at this; rw [this]
      | some d' => rw [hm] at hp; have := congrArg BufOut.ret hp; simp only [outOfDir] at this; rw [this]
    · cases hm : d.buffer hard false with
      | none =>
        rw [hm] at hp
        exact ⟨congrArg BufOut.buf hp, congrArg BufOut.bufNull hp, congrArg BufOut.size hp, congrArg BufOut.consume hp,
          congrArg BufOut.read hp⟩
      | some d' =>
        rw [hm] at hp
        exact ⟨congrArg BufOut.buf hp, congrArg BufOut.bufNull hp, congrArg BufOut.size hp, congrArg BufOut.consume hp,
          congrArg BufOut.read hp⟩

/-! ## 3. htp_connp_req_clear_buffer / htp_connp_res_clear_buffer = `Dir.clearBuffer` -/

/-- the translated `htp_connp_req_clear_buffer` on all field values: the chunk is consumed up to the read offset and the buffer pointer is
    NULL afterwards; a buffer that existed is freed and its size reset to 0, otherwise size and content are left alone - so
    `in_buf == NULL → in_buf_size == 0` (what `htp_connp_req_buffer` relies on when it adds `in_buf_size` without testing the pointer)
    holds after every call once it held before -/
theorem htp_connp_req_clear_buffer_raw (fuel : Nat) (buf : List Int) (bnull size consume read : Int) :
    ∃ s, htp_connp_req_clear_buffer fuel (connp_in_buf := buf) (connp_in_buf_null := bnull) (connp_in_buf_size := size)
        (connp_in_current_consume_offset := consume) (connp_in_current_read_offset := read) = some (0, s) ∧
      s.connp_in_current_consume_offset = read ∧ s.connp_in_current_read_offset = read ∧ s.connp_in_buf_null ≠ 0 ∧
      (bnull = 0 → s.connp_in_buf = [] ∧ s.connp_in_buf_size = 0 ∧ s.connp_in_buf_null = 1) ∧
      (bnull ≠ 0 → s.connp_in_buf = buf ∧ s.connp_in_buf_size = size ∧ s.connp_in_buf_null = bnull) := by
  by_cases h : bnull = 0
  · simp [htp_connp_req_clear_buffer, htp_connp_req_clear_buffer_stmt, run, seqS, iteS, retS, skipS, assignS, h]
  · simp [htp_connp_req_clear_buffer, htp_connp_req_clear_buffer_stmt, run, seqS, iteS, retS, skipS, assignS, h]

/-- **the translated `htp_connp_req_clear_buffer` = the model `Dir.clearBuffer`** on the fields of every direction record -/
theorem htp_connp_req_clear_buffer_eq (fuel : Nat) (d : Dir) :
    ∃ s, htp_connp_req_clear_buffer fuel (connp_in_buf := match d.buf with | some b => memOf b | none => [])
        (connp_in_buf_null := if d.buf.isNone then 1 else 0) (connp_in_buf_size := ((d.buf.map (·.length)).getD 0 : Nat))
        (connp_in_current_consume_offset := d.consume) (connp_in_current_read_offset := d.read) = some (0, s) ∧
      s.connp_in_buf = (match d.clearBuffer.buf with | some b => memOf b | none => []) ∧
      s.connp_in_buf_null = (if d.clearBuffer.buf.isNone then 1 else 0) ∧
      s.connp_in_buf_size = ((d.clearBuffer.buf.map (·.length)).getD 0 : Nat) ∧
      s.connp_in_current_consume_offset = d.clearBuffer.consume ∧ s.connp_in_current_read_offset = d.clearBuffer.read := by
  cases hb : d.buf with
  | none => simp [htp_connp_req_clear_buffer, htp_connp_req_clear_buffer_stmt, run, seqS, iteS, retS, skipS, assignS, Dir.clearBuffer]
  | some b => simp [htp_connp_req_clear_buffer, htp_connp_req_clear_buffer_stmt, run, seqS, iteS, retS, skipS, assignS, Dir.clearBuffer]

/-- the translated `htp_connp_res_clear_buffer` on all field values: the chunk is consumed up to the read offset and the buffer pointer is
    NULL afterwards; a buffer that existed is freed and its size reset to 0, otherwise size and content are left alone - so
    `out_buf == NULL → out_buf_size == 0` (what `htp_connp_res_buffer` relies on when it adds `out_buf_size` without testing the pointer)
    holds after every call once it held before -/
theorem htp_connp_res_clear_buffer_raw (fuel : Nat) (buf : List Int) (bnull size consume read : Int) :
    ∃ s, htp_connp_res_clear_buffer fuel (connp_out_buf := buf) (connp_out_buf_null := bnull) (connp_out_buf_size := size)
        (connp_out_current_consume_offset := consume) (connp_out_current_read_offset := read) = some (0, s) ∧
      s.connp_out_current_consume_offset = read ∧ s.connp_out_current_read_offset = read ∧ s.connp_out_buf_null ≠ 0 ∧
      (bnull = 0 → s.connp_out_buf = [] ∧ s.connp_out_buf_size = 0 ∧ s.connp_out_buf_null = 1) ∧
      (bnull ≠ 0 → s.connp_out_buf = buf ∧ s.connp_out_buf_size = size ∧ s.connp_out_buf_null = bnull) := by
  by_cases h : bnull = 0
  · simp [htp_connp_res_clear_buffer, htp_connp_res_clear_buffer_stmt, run, seqS, iteS, retS, skipS, assignS, h]
  · simp [htp_connp_res_clear_buffer, htp_connp_res_clear_buffer_stmt, run, seqS, iteS, retS, skipS, assignS, h]

/-- **the translated `htp_connp_res_clear_buffer` = the model `Dir.clearBuffer`** on the fields of every direction record -/
theorem htp_connp_res_clear_buffer_eq (fuel : Nat) (d : Dir) :
    ∃ s, htp_connp_res_clear_buffer fuel (connp_out_buf := match d.buf with | some b => memOf b | none => [])
        (connp_out_buf_null := if d.buf.isNone then 1 else 0) (connp_out_buf_size := ((d.buf.map (·.length)).getD 0 : Nat))
        (connp_out_current_consume_offset := d.consume) (connp_out_current_read_offset := d.read) = some (0, s) ∧
      s.connp_out_buf = (match d.clearBuffer.buf with | some b => memOf b | none => []) ∧
      s.connp_out_buf_null = (if d.clearBuffer.buf.isNone then 1 else 0) ∧
      s.connp_out_buf_size = ((d.clearBuffer.buf.map (·.length)).getD 0 : Nat) ∧
      s.connp_out_current_consume_offset = d.clearBuffer.consume ∧ s.connp_out_current_read_offset = d.clearBuffer.read := by
  cases hb : d.buf with
  | none => simp [htp_connp_res_clear_buffer, htp_connp_res_clear_buffer_stmt, run, seqS, iteS, retS, skipS, assignS, Dir.clearBuffer]
  | some b => simp [htp_connp_res_clear_buffer, htp_connp_res_clear_buffer_stmt, run, seqS, iteS, retS, skipS, assignS, Dir.clearBuffer]

/-! ## 4. consequences -/

/-- HTP_ERROR exactly when the model refuses -/
theorem htp_connp_req_buffer_error_iff (fuel : Nat) (d : Dir) (hard : Nat)
    (hc0 : 0 ≤ d.consume) (hcr : d.consume ≤ d.read) (hrl : d.read ≤ d.cur.length) (hl : d.cur.length < 4611686018427387904)
    (hbl : ∀ b, d.buf = some b → b.length < 4611686018427387904)
    (hhl : ∀ h, d.header = some h → h.length < 4611686018427387904) :
    ((htp_connp_req_buffer fuel (connp_in_current_data := d.cur) (connp_in_current_data_null := if d.curNull then 1 else 0)
        (connp_in_buf := match d.buf with | some b => memOf b | none => [])
        (connp_in_buf_null := if d.buf.isNone then 1 else 0) (connp_in_buf_size := ((d.buf.map (·.length)).getD 0 : Nat))
        (connp_in_current_consume_offset := d.consume) (connp_in_current_read_offset := d.read)
        (connp_in_header_len := ((d.header.map (·.length)).getD 0 : Nat)) (connp_in_header_null := if d.header.isNone then 1 else 0)
        (connp_in_tx_cfg_field_limit_hard := hard) (alloc_ok := 1)).map (·.1) = some (-1)) ↔ d.buffer hard true = none := by
  obtain ⟨s, hs, _⟩ := htp_connp_req_buffer_eq fuel d hard hc0 hcr hrl hl hbl hhl
  rw [hs]
  cases d.buffer hard true <;> simp

/-- HTP_ERROR exactly when the model refuses -/
theorem htp_connp_res_buffer_error_iff (fuel : Nat) (d : Dir) (hard : Nat)
    (hc0 : 0 ≤ d.consume) (hcr : d.consume ≤ d.read) (hrl : d.read ≤ d.cur.length) (hl : d.cur.length < 4611686018427387904)
    (hbl : ∀ b, d.buf = some b → b.length < 4611686018427387904)
    (hhl : ∀ h, d.header = some h → h.length < 4611686018427387904) :
    ((htp_connp_res_buffer fuel (connp_out_current_data := d.cur) (connp_out_current_data_null := if d.curNull then 1 else 0)
        (connp_out_buf := match d.buf with | some b => memOf b | none => [])
        (connp_out_buf_null := if d.buf.isNone then 1 else 0) (connp_out_buf_size := ((d.buf.map (·.length)).getD 0 : Nat))
        (connp_out_current_consume_offset := d.consume) (connp_out_current_read_offset := d.read)
        (connp_out_header_len := ((d.header.map (·.length)).getD 0 : Nat)) (connp_out_header_null := if d.header.isNone then 1 else 0)
        (connp_out_tx_cfg_field_limit_hard := hard) (alloc_ok := 1)).map (·.1) = some (-1)) ↔ d.buffer hard false = none := by
  obtain ⟨s, hs, _⟩ := htp_connp_res_buffer_eq fuel d hard hc0 hcr hrl hl hbl hhl
  rw [hs]
  cases d.buffer hard false <;> simp

end Htp.CFuns
