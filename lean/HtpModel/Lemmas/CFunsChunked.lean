/- htp_parse_chunked_length (htp_util.c) as translated from the current source (HtpModel/Gen/CFuns.lean) = the model's
   `Num.parseChunkedLength` for all byte strings: the value returned and what the function does to `*extension` (it is only ever set
   to 1, and exactly when the model's flag is set).

   Three loops: skip the control bytes (the data pointer moves: `data_off`), scan the hexadecimal digits, look for ';' behind them;
   then the digit run is handed to htp_parse_positive_integer_whitespace as (pointer, length) WITH MORE BYTES BEHIND IT: the callee
   gets `List.drop data_off data` and `len = i`. What is used of the callee is therefore its (pointer, length) contract, an explicit
   HYPOTHESIS `hppiw` of the headline theorem (`PpiwContract` below): on an array `x ++ junk` with `len = x.length` the result is
   that of `x`. -/
import HtpModel.Lemmas.CFunsLine
namespace Htp.CFuns
open Htp Htp.CSem Htp.Gen.C Htp.Gen
set_option linter.unusedSimpArgs false

/-- the (pointer, length) contract of the translated htp_parse_positive_integer_whitespace: the bytes behind `len` do not matter -/
def PpiwContract : Prop :=
  ∀ (fuel : Nat) (x junk : Bytes) (base : Nat), (x ++ junk).length < 9223372036854775808 → 2 ≤ base → base ≤ 36 → x.length + 1 < fuel →
    (htp_parse_positive_integer_whitespace fuel (x ++ junk) x.length base).map (·.1)
      = some (Num.parsePositiveIntegerWhitespace x base)

abbrev PS := St_htp_parse_chunked_length

/-- value returned and `*extension` at the end -/
def outc (r : Option (Ctl PS)) : Option (Int × Int) :=
  match r with
  | some (.ret s v) => some (v, s.extension)
  | _ => none

theorem run_outc (body : Stmt PS) (s : PS) : (run body s).map (fun r => (r.1, r.2.extension)) = outc (body s) := by
  unfold run outc
  split <;> simp_all

/-! ## byte tables -/

theorem ctl_table : ∀ c : UInt8,
    (!((((((decide ((c.toNat : Int) = 13)) || (decide ((c.toNat : Int) = 10))) || (decide ((c.toNat : Int) = 32))) ||
        (decide ((c.toNat : Int) = 9))) || (decide ((c.toNat : Int) = 11))) || (decide ((c.toNat : Int) = 12)))) = !(isChunkedCtl c) := by
  apply forall_uint8_of_lt
  decide +kernel

theorem hex_table : ∀ c : UInt8,
    (!(((decide ((isdigitI (c.toNat : Int)) ≠ 0)) || ((decide ((c.toNat : Int) ≥ 97)) && (decide ((c.toNat : Int) ≤ 102)))) ||
        ((decide ((c.toNat : Int) ≥ 65)) && (decide ((c.toNat : Int) ≤ 70))))) = !(Num.isHexDigitC c) := by
  apply forall_uint8_of_lt
  decide +kernel

theorem semi_table : ∀ c : UInt8, decide ((c.toNat : Int) = 59) = (c == 59) := by
  apply forall_uint8_of_lt
  decide +kernel

theorem takeWhile_append_drop (p : UInt8 → Bool) : ∀ l : Bytes, l.takeWhile p ++ l.drop (l.takeWhile p).length = l := by
  intro l
  induction l with
  | nil => rfl
  | cons x t ih =>
    cases hx : p x with
    | true => simp [List.takeWhile_cons, hx, ih]
    | false => simp [List.takeWhile_cons, hx]

theorem takeWhile_length_le (p : UInt8 → Bool) : ∀ l : Bytes, (l.takeWhile p).length ≤ l.length := by
  intro l
  induction l with
  | nil => simp
  | cons x t ih =>
    cases hx : p x with
    | true => simp [List.takeWhile_cons, hx]; omega
    | false => simp [List.takeWhile_cons, hx]

theorem rd_off {d : Bytes} {off k : Nat} {x : UInt8} {t : Bytes} (h : d.drop (off + k) = x :: t) :
    rd d ((off : Int) + (k : Int)) = some (x.toNat : Int) := by
  rw [show (off : Int) + (k : Int) = ((off + k : Nat) : Int) by omega]
  exact rd_of_drop h

/-! ## loop 1: look for ';' behind the digits (only `j` and `extension` change) -/

theorem semi_loop (F : Nat) (data : Bytes) (h1 : data.length < 9223372036854775808) (off : Nat) :
    ∀ (a : Bytes) (j n : Nat) (e c i c_ cl : Int), data.drop (off + j) = a → off + j ≤ data.length → a.length < n →
      ∃ j' : Int,
        whileF (htp_parse_chunked_length_cond1 F data) (htp_parse_chunked_length_body1 F data) (htp_parse_chunked_length_incr1 F data) n
            (⟨((data.length - off : Nat) : Int), e, off, c, i, c_, j, cl⟩ : PS)
          = some (.next ⟨((data.length - off : Nat) : Int), if a.any (· == 59) then 1 else e, off, c, i, c_, j', cl⟩) := by
  intro a
  induction a with
  | nil =>
    intro j n e c i c_ cl ha hle hn
    obtain ⟨m, rfl⟩ : ∃ m, n = m + 1 := ⟨n - 1, by omega⟩
    have hl := le_of_drop_nil ha
    have hnlt : ¬ ((j : Int) < ((data.length - off : Nat) : Int)) := by omega
    have hc : htp_parse_chunked_length_cond1 F data ⟨((data.length - off : Nat) : Int), e, off, c, i, c_, j, cl⟩ = some false := by
      simp [htp_parse_chunked_length_cond1, hnlt]
    exact ⟨j, by rw [whileF_exit m hc]; simp⟩
  | cons x a' ih =>
    intro j n e c i c_ cl ha hle hn
    obtain ⟨m, rfl⟩ : ∃ m, n = m + 1 := ⟨n - 1, by omega⟩
    have hl := lt_of_drop_cons ha
    have hlt : ((j : Int) < ((data.length - off : Nat) : Int)) := by omega
    have r1 := rd_off ha
    have hc : htp_parse_chunked_length_cond1 F data ⟨((data.length - off : Nat) : Int), e, off, c, i, c_, j, cl⟩ = some true := by
      simp [htp_parse_chunked_length_cond1, hlt]
    cases hx : (x == 59) with
    | true =>
      have hb : htp_parse_chunked_length_body1 F data ⟨((data.length - off : Nat) : Int), e, off, c, i, c_, j, cl⟩
          = some (.brk ⟨((data.length - off : Nat) : Int), 1, off, c, i, c_, j, cl⟩) := by
        simp [htp_parse_chunked_length_body1, seqS, iteS, assignS, brkS, skipS, r1, semi_table, hx]
      exact ⟨j, by rw [whileF_brk m hc hb]; simp [hx]⟩
    | false =>
      have hu : u64 ((j : Int) + 1) = ((j + 1 : Nat) : Int) := by rw [u64_id] <;> omega
      have hb : htp_parse_chunked_length_body1 F data ⟨((data.length - off : Nat) : Int), e, off, c, i, c_, j, cl⟩
          = some (.next ⟨((data.length - off : Nat) : Int), e, off, c, i, c_, ((j + 1 : Nat) : Int), cl⟩) := by
        simp [htp_parse_chunked_length_body1, seqS, iteS, assignS, brkS, skipS, r1, semi_table, hx, hu]
      have hi : htp_parse_chunked_length_incr1 F data ⟨((data.length - off : Nat) : Int), e, off, c, i, c_, ((j + 1 : Nat) : Int), cl⟩
          = some (.next ⟨((data.length - off : Nat) : Int), e, off, c, i, c_, ((j + 1 : Nat) : Int), cl⟩) := rfl
      obtain ⟨j', hj'⟩ := ih (j + 1) m e c i c_ cl (drop_succ_of_drop ha) (by omega) (by simp at hn; omega)
      exact ⟨j', by rw [whileF_next m hc hb hi, hj']; simp [hx]⟩

/-! ## loop 2: the run of hexadecimal digits (only `i` and `c_` change) -/

theorem hex_loop (F : Nat) (data : Bytes) (h1 : data.length < 9223372036854775808) (off : Nat) :
    ∀ (a : Bytes) (i n : Nat) (e c c_ j cl : Int), data.drop (off + i) = a → off + i ≤ data.length → a.length < n →
      ∃ cv : Int,
        whileF (htp_parse_chunked_length_cond2 F data) (htp_parse_chunked_length_body2 F data) (htp_parse_chunked_length_incr2 F data) n
            (⟨((data.length - off : Nat) : Int), e, off, c, i, c_, j, cl⟩ : PS)
          = some (.next ⟨((data.length - off : Nat) : Int), e, off, c, ((i + (a.takeWhile Num.isHexDigitC).length : Nat) : Int), cv, j, cl⟩) := by
  intro a
  induction a with
  | nil =>
    intro i n e c c_ j cl ha hle hn
    obtain ⟨m, rfl⟩ : ∃ m, n = m + 1 := ⟨n - 1, by omega⟩
    have hl := le_of_drop_nil ha
    have hnlt : ¬ ((i : Int) < ((data.length - off : Nat) : Int)) := by omega
    have hc : htp_parse_chunked_length_cond2 F data ⟨((data.length - off : Nat) : Int), e, off, c, i, c_, j, cl⟩ = some false := by
      simp [htp_parse_chunked_length_cond2, hnlt]
    exact ⟨c_, by rw [whileF_exit m hc]; simp⟩
  | cons x a' ih =>
    intro i n e c c_ j cl ha hle hn
    obtain ⟨m, rfl⟩ : ∃ m, n = m + 1 := ⟨n - 1, by omega⟩
    have hl := lt_of_drop_cons ha
    have hlt : ((i : Int) < ((data.length - off : Nat) : Int)) := by omega
    have r1 := rd_off ha
    have hc : htp_parse_chunked_length_cond2 F data ⟨((data.length - off : Nat) : Int), e, off, c, i, c_, j, cl⟩ = some true := by
      simp [htp_parse_chunked_length_cond2, hlt]
    have ht := hex_table x
    cases hx : Num.isHexDigitC x with
    | false =>
      rw [hx] at ht
      have hb : htp_parse_chunked_length_body2 F data ⟨((data.length - off : Nat) : Int), e, off, c, i, c_, j, cl⟩
          = some (.brk ⟨((data.length - off : Nat) : Int), e, off, c, i, (x.toNat : Int), j, cl⟩) := by
        simp only [htp_parse_chunked_length_body2, seqS, iteS, assignS, brkS, skipS, r1, Option.bind_some, Option.map_some, ht,
          Bool.not_false]
      exact ⟨(x.toNat : Int), by rw [whileF_brk m hc hb]; simp [hx]⟩
    | true =>
      rw [hx] at ht
      have hu : u64 ((i : Int) + 1) = ((i + 1 : Nat) : Int) := by rw [u64_id] <;> omega
      have hb : htp_parse_chunked_length_body2 F data ⟨((data.length - off : Nat) : Int), e, off, c, i, c_, j, cl⟩
          = some (.next ⟨((data.length - off : Nat) : Int), e, off, c, ((i + 1 : Nat) : Int), (x.toNat : Int), j, cl⟩) := by
        simp only [htp_parse_chunked_length_body2, seqS, iteS, assignS, brkS, skipS, r1, Option.bind_some, Option.map_some, ht,
          Bool.not_true, hu]
      have hi : htp_parse_chunked_length_incr2 F data ⟨((data.length - off : Nat) : Int), e, off, c, ((i + 1 : Nat) : Int), (x.toNat : Int), j, cl⟩
          = some (.next ⟨((data.length - off : Nat) : Int), e, off, c, ((i + 1 : Nat) : Int), (x.toNat : Int), j, cl⟩) := rfl
      obtain ⟨cv, hcv⟩ := ih (i + 1) m e c (x.toNat : Int) j cl (drop_succ_of_drop ha) (by omega) (by simp at hn; omega)
      refine ⟨cv, ?_⟩
      rw [whileF_next m hc hb hi, hcv]
      simp only [List.takeWhile_cons, hx, if_true, List.length_cons]
      have : i + 1 + (List.takeWhile Num.isHexDigitC a').length = i + ((List.takeWhile Num.isHexDigitC a').length + 1) := by omega
      rw [this]

/-! ## loop 3: skip the control bytes (the pointer moves, `len` shrinks, `c` changes) -/

theorem ctl_loop (F : Nat) (data : Bytes) (h1 : data.length < 9223372036854775808) :
    ∀ (a : Bytes) (off n : Nat) (e c i c_ j cl : Int), data.drop off = a → off ≤ data.length → a.length < n →
      ∃ (off' : Nat) (cv : Int), data.drop off' = a.dropWhile isChunkedCtl ∧ off' ≤ data.length ∧
        whileF (htp_parse_chunked_length_cond3 F data) (htp_parse_chunked_length_body3 F data) (htp_parse_chunked_length_incr3 F data) n
            (⟨(a.length : Int), e, off, c, i, c_, j, cl⟩ : PS)
          = some (.next ⟨((a.dropWhile isChunkedCtl).length : Int), e, off', cv, i, c_, j, cl⟩) := by
  intro a
  induction a with
  | nil =>
    intro off n e c i c_ j cl ha hle hn
    obtain ⟨m, rfl⟩ : ∃ m, n = m + 1 := ⟨n - 1, by omega⟩
    have hc : htp_parse_chunked_length_cond3 F data ⟨(([] : Bytes).length : Int), e, off, c, i, c_, j, cl⟩ = some false := by
      simp [htp_parse_chunked_length_cond3]
    exact ⟨off, c, by simpa using ha, hle, by rw [whileF_exit m hc]; simp⟩
  | cons x a' ih =>
    intro off n e c i c_ j cl ha hle hn
    obtain ⟨m, rfl⟩ : ∃ m, n = m + 1 := ⟨n - 1, by omega⟩
    have hl := lt_of_drop_cons ha
    have r1 := rd_of_drop ha
    have hne : ¬ (((a'.length + 1 : Nat) : Int) = 0) := by omega
    have hc : htp_parse_chunked_length_cond3 F data ⟨((x :: a').length : Int), e, off, c, i, c_, j, cl⟩ = some true := by
      simp only [htp_parse_chunked_length_cond3, List.length_cons, ne_eq, hne, not_false_eq_true, decide_true]
    have ht := ctl_table x
    cases hx : isChunkedCtl x with
    | false =>
      rw [hx] at ht
      have hb : htp_parse_chunked_length_body3 F data ⟨((x :: a').length : Int), e, off, c, i, c_, j, cl⟩
          = some (.brk ⟨((x :: a').length : Int), e, off, (x.toNat : Int), i, c_, j, cl⟩) := by
        simp only [htp_parse_chunked_length_body3, seqS, iteS, assignS, brkS, skipS, r1, Option.bind_some, Option.map_some, ht,
          Bool.not_false]
      refine ⟨off, (x.toNat : Int), ?_, hle, ?_⟩
      · rw [ha, List.dropWhile_cons_of_neg (by simp [hx])]
      · rw [whileF_brk m hc hb, List.dropWhile_cons_of_neg (by simp [hx])]
    | true =>
      rw [hx] at ht
      have hal : a'.length + 1 = data.length - off := by
        have := congrArg List.length ha
        simpa using this.symm
      have hlc : ((x :: a').length : Int) = (a'.length : Int) + 1 := by simp
      have hu : u64 (((x :: a').length : Int) - 1) = (a'.length : Int) := by
        rw [hlc, u64_id] <;> omega
      have hb : htp_parse_chunked_length_body3 F data ⟨((x :: a').length : Int), e, off, c, i, c_, j, cl⟩
          = some (.next ⟨(a'.length : Int), e, ((off + 1 : Nat) : Int), (x.toNat : Int), i, c_, j, cl⟩) := by
        simp only [htp_parse_chunked_length_body3, seqS, iteS, assignS, brkS, skipS, r1, Option.bind_some, Option.map_some, ht,
          Bool.not_true, hu]
        rfl
      have hi : htp_parse_chunked_length_incr3 F data ⟨(a'.length : Int), e, ((off + 1 : Nat) : Int), (x.toNat : Int), i, c_, j, cl⟩
          = some (.next ⟨(a'.length : Int), e, ((off + 1 : Nat) : Int), (x.toNat : Int), i, c_, j, cl⟩) := rfl
      obtain ⟨off', cv, hd, hle', hw⟩ := ih (off + 1) m e (x.toNat : Int) i c_ j cl (drop_succ_of_drop ha) (by omega)
        (by simp at hn; omega)
      refine ⟨off', cv, ?_, hle', ?_⟩
      · rw [hd, List.dropWhile_cons_of_pos (by simpa using hx)]
      · rw [whileF_next m hc hb hi, hw, List.dropWhile_cons_of_pos (by simpa using hx)]

/-! ## after the loops: the call and the range check -/

/-- the statements from the call on -/
def callPart (F : Nat) (data : Bytes) : Stmt PS :=
  (seqS (assignS (fun s => (htp_parse_positive_integer_whitespace F (List.drop (Int.toNat s.data_off) data) s.len 16).bind fun v1 => some { s with chunk_len := v1.1 }))
    (seqS (iteS (fun s => some (decide (s.chunk_len < 0)))
    (retS (fun s => some s.chunk_len))
    (skipS))
    (seqS (iteS (fun s => some (decide (s.chunk_len > 2147483647)))
    (retS (fun _ => some (-1)))
    (skipS))
    (retS (fun s => some s.chunk_len)))))

/-- value of the model once the digit run is parsed -/
def clamp (r : Int) : Int := if r < 0 then r else if r > (INT32_MAX' : Int) then -1 else r

theorem call_part (hppiw : PpiwContract) (F : Nat) (data : Bytes) (h1 : data.length < 9223372036854775808) (off : Nat)
    (x junk : Bytes) (hd : data.drop off = x ++ junk) (hF : x.length + 1 < F) (e c i c_ j cl : Int) :
    outc (callPart F data ⟨(x.length : Int), e, off, c, i, c_, j, cl⟩)
      = some (clamp (Num.parsePositiveIntegerWhitespace x 16), e) := by
  have hlen : (x ++ junk).length < 9223372036854775808 := by
    have : (data.drop off).length ≤ data.length := by simp
    rw [hd] at this; omega
  have hcall := hppiw F x junk 16 hlen (by omega) (by omega) hF
  obtain ⟨v, hv, hv1⟩ := Option.map_eq_some_iff.mp hcall
  have hv' : htp_parse_positive_integer_whitespace F (List.drop (Int.toNat (off : Int)) data) (x.length : Int) 16 = some v := by
    rw [Int.toNat_natCast, hd]; exact hv
  generalize Num.parsePositiveIntegerWhitespace x 16 = r at hv1 ⊢
  have ha : (assignS (fun (s : PS) => (htp_parse_positive_integer_whitespace F (List.drop (Int.toNat s.data_off) data) s.len 16).bind
        fun v1 => some { s with chunk_len := v1.1 })) ⟨(x.length : Int), e, off, c, i, c_, j, cl⟩
      = some (.next ⟨(x.length : Int), e, off, c, i, c_, j, r⟩) := by
    simp only [assignS, hv', Option.bind_some, Option.map_some, hv1]
  unfold callPart
  rw [seqS_next ha]
  unfold clamp INT32_MAX'
  by_cases hneg : r < 0
  · simp [seqS, iteS, retS, skipS, outc, hneg]
  · by_cases hbig : r > 2147483647
    · simp [seqS, iteS, retS, skipS, outc, hneg, hbig]
    · simp [seqS, iteS, retS, skipS, outc, hneg, hbig]

theorem parseChunkedLength_unfold (data : Bytes) :
    Num.parseChunkedLength data =
      (if (data.dropWhile isChunkedCtl).length = 0 then (-1004, false) else
        (clamp (Num.parsePositiveIntegerWhitespace ((data.dropWhile isChunkedCtl).takeWhile Num.isHexDigitC) 16),
          ((data.dropWhile isChunkedCtl).drop ((data.dropWhile isChunkedCtl).takeWhile Num.isHexDigitC).length).any (· == 59))) := by
  unfold Num.parseChunkedLength clamp
  simp only
  split
  · rfl
  · split
    · rfl
    · split <;> rfl

/-- what follows the digit loop: `if (i != len) { look for ';'; len = i; }`, the call, the range check -/
theorem rest2_part (hppiw : PpiwContract) (F : Nat) (data : Bytes) (h1 : data.length < 9223372036854775808) (off : Nat)
    (d' : Bytes) (hd : data.drop off = d') (hoff : off ≤ data.length) (hF : d'.length + 1 < F) (e c c_ j cl : Int) :
    outc (htp_parse_chunked_length_rest2 F data
        ⟨((data.length - off : Nat) : Int), e, off, c, (((d'.takeWhile Num.isHexDigitC).length : Nat) : Int), c_, j, cl⟩)
      = some (clamp (Num.parsePositiveIntegerWhitespace (d'.takeWhile Num.isHexDigitC) 16),
          if (d'.drop (d'.takeWhile Num.isHexDigitC).length).any (· == 59) then 1 else e) := by
  have hdl : d'.length = data.length - off := by rw [← hd]; simp
  have hk := takeWhile_length_le Num.isHexDigitC d'
  have hsplit := takeWhile_append_drop Num.isHexDigitC d'
  generalize hdig : d'.takeWhile Num.isHexDigitC = digits at hk hsplit ⊢
  have hd2 : data.drop off = digits ++ d'.drop digits.length := by rw [hd, hsplit]
  change outc (seqS _ (callPart F data) _) = _
  by_cases hall : digits.length = d'.length
  · -- every byte is a digit: nothing behind the run
    have hc : (fun (s : PS) => some (decide (s.i ≠ s.len))) ⟨((data.length - off : Nat) : Int), e, off, c, (digits.length : Int), c_, j, cl⟩
        = some false := by
      have : (digits.length : Int) = ((data.length - off : Nat) : Int) := by omega
      simp [this]
    have hs : (iteS (fun (s : PS) => some (decide (s.i ≠ s.len)))
          (seqS (iteS (fun s => some true)
            (seqS (assignS (fun s => some { s with j := s.i })) (htp_parse_chunked_length_loop1 F data)) (skipS))
            (assignS (fun s => some { s with len := s.i })))
          (skipS)) ⟨((data.length - off : Nat) : Int), e, off, c, (digits.length : Int), c_, j, cl⟩
        = some (.next ⟨(digits.length : Int), e, off, c, (digits.length : Int), c_, j, cl⟩) := by
      unfold iteS
      rw [hc]
      have : ((data.length - off : Nat) : Int) = (digits.length : Int) := by omega
      rw [this]; rfl
    rw [seqS_next hs, call_part hppiw F data h1 off digits _ hd2 (by omega)]
    have : d'.drop digits.length = [] := by rw [hall]; simp
    simp [this]
  · have hc : (fun (s : PS) => some (decide (s.i ≠ s.len))) ⟨((data.length - off : Nat) : Int), e, off, c, (digits.length : Int), c_, j, cl⟩
        = some true := by
      have : ¬ ((digits.length : Int) = ((data.length - off : Nat) : Int)) := by omega
      simp [this]
    obtain ⟨j', hj'⟩ := semi_loop F data h1 off (d'.drop digits.length) digits.length F e c (digits.length : Int) c_ cl
      (by rw [← hd, List.drop_drop]) (by omega) (by simp; omega)
    have hs : (iteS (fun (s : PS) => some (decide (s.i ≠ s.len)))
          (seqS (iteS (fun s => some true)
            (seqS (assignS (fun s => some { s with j := s.i })) (htp_parse_chunked_length_loop1 F data)) (skipS))
            (assignS (fun s => some { s with len := s.i })))
          (skipS)) ⟨((data.length - off : Nat) : Int), e, off, c, (digits.length : Int), c_, j, cl⟩
        = some (.next ⟨(digits.length : Int), if (d'.drop digits.length).any (· == 59) then 1 else e, off, c, (digits.length : Int), c_, j', cl⟩) := by
      unfold iteS
      rw [hc]
      simp only [htp_parse_chunked_length_loop1, htp_parse_chunked_length_rest1, seqS, assignS, skipS, Option.map_some, hj']
    rw [seqS_next hs, call_part hppiw F data h1 off digits _ hd2 (by omega)]

/-- **htp_parse_chunked_length, as translated from the current source, is the model's `Num.parseChunkedLength`** for all byte strings
    (below 2^63 bytes), given the (pointer, length) contract of the callee: the value returned, and `*extension` (set to 1 exactly when
    the model's flag is set, otherwise left as it was); every read inside the array; every loop finished within `len + 1` turns -/
theorem htp_parse_chunked_length_eq (hppiw : PpiwContract) (d : Bytes) (h1 : d.length < 9223372036854775808) (fuel : Nat)
    (hf : d.length + 1 < fuel) (e0 : Int) :
    (htp_parse_chunked_length fuel d d.length e0).map (fun r => (r.1, r.2.extension))
      = some ((Num.parseChunkedLength d).1, if (Num.parseChunkedLength d).2 then 1 else e0) := by
  unfold htp_parse_chunked_length
  rw [run_outc]
  unfold htp_parse_chunked_length_stmt htp_parse_chunked_length_loop3
  obtain ⟨off', cv, hd, hle, hw⟩ := ctl_loop fuel d h1 d 0 fuel e0 0 0 0 0 0 rfl (by omega) (by omega)
  have hs : ({ len := d.length, extension := e0 } : PS) = ⟨(d.length : Int), e0, ((0 : Nat) : Int), 0, 0, 0, 0, 0⟩ := rfl
  rw [hs, seqS_next hw, parseChunkedLength_unfold]
  generalize hd' : d.dropWhile isChunkedCtl = d' at hd ⊢
  have hdl : d'.length = d.length - off' := by rw [← hd]; simp
  unfold htp_parse_chunked_length_rest3
  by_cases hz : d'.length = 0
  · simp [seqS, iteS, retS, skipS, outc, hz]
  · have hnz : ¬ ((d'.length : Int) = 0) := by omega
    have h0 : (iteS (fun (s : PS) => some (decide (s.len = 0))) (retS (fun _ => some (-1004))) skipS)
        ⟨(d'.length : Int), e0, off', cv, 0, 0, 0, 0⟩ = some (.next ⟨(d'.length : Int), e0, off', cv, 0, 0, 0, 0⟩) := by
      simp only [iteS, skipS, hnz, decide_false]
    have h1' : (assignS (fun (s : PS) => some { s with i := 0 })) ⟨(d'.length : Int), e0, off', cv, 0, 0, 0, 0⟩
        = some (.next ⟨((d.length - off' : Nat) : Int), e0, off', cv, ((0 : Nat) : Int), 0, 0, 0⟩) := by
      simp [assignS, hdl]
    rw [seqS_next h0, seqS_next h1']
    unfold htp_parse_chunked_length_loop2
    obtain ⟨cv2, hw2⟩ := hex_loop fuel d h1 off' d' 0 fuel e0 cv 0 0 0 (by simpa using hd) (by omega) (by omega)
    rw [seqS_next hw2, Nat.zero_add, rest2_part hppiw fuel d h1 off' d' hd hle (by omega), if_neg hz]

end Htp.CFuns

#print axioms Htp.CFuns.htp_parse_chunked_length_eq
