/- The character classes of htp_util.c that are `switch` statements (htp_is_space, htp_is_separator) and htp_is_token (which calls
   htp_is_separator), as translated from the current source (HtpModel/Gen/CFuns.lean) = the regenerated bit-mask tables
   `Htp.Gen.isSpace`, `Htp.Gen.isSeparator`, `Htp.Gen.isToken` on every byte. Route as in CFunsLine.lean: a statement for every `Int`
   argument by unfolding and a case split on the translated condition, then a complete check of the 256 bytes. -/
import HtpModel.Lemmas.CFunsBase
namespace Htp.CFuns
open Htp Htp.CSem Htp.Gen.C Htp.Gen
set_option linter.unusedSimpArgs false

/-- the `switch` of htp_is_space as the translator prints it -/
def spaceB (x : Int) : Bool :=
  (decide (x = 32)) || (decide (x = 12)) || (decide (x = 11)) || (decide (x = 9)) || (decide (x = 13)) || (decide (x = 10))

/-- the `switch` of htp_is_separator as the translator prints it -/
def separatorB (x : Int) : Bool :=
  (decide (x = 40)) || (decide (x = 41)) || (decide (x = 60)) || (decide (x = 62)) || (decide (x = 64)) || (decide (x = 44)) ||
  (decide (x = 59)) || (decide (x = 58)) || (decide (x = 92)) || (decide (x = 34)) || (decide (x = 47)) || (decide (x = 91)) ||
  (decide (x = 93)) || (decide (x = 63)) || (decide (x = 61)) || (decide (x = 123)) || (decide (x = 125)) || (decide (x = 32)) ||
  (decide (x = 9))

/-- `if (c) return 1; else return 0;` -/
theorem run_ite_ret10 {σ : Type} (c : σ → Option Bool) (s : σ) :
    run (iteS c (retS (fun _ => some 1)) (retS (fun _ => some 0))) s = (c s).map (fun b => (if b then 1 else 0, s)) := by
  unfold run iteS retS
  rcases c s with _ | b
  · rfl
  · cases b <;> rfl

theorem htp_is_space_int (fuel : Nat) (x : Int) :
    htp_is_space fuel x = some (if spaceB x then 1 else 0, { c := x }) := by
  unfold htp_is_space htp_is_space_stmt
  rw [run_ite_ret10]
  rfl

theorem htp_is_separator_int (fuel : Nat) (x : Int) :
    htp_is_separator fuel x = some (if separatorB x then 1 else 0, { c := x }) := by
  unfold htp_is_separator htp_is_separator_stmt
  rw [run_ite_ret10]
  rfl

theorem htp_is_token_int (fuel : Nat) (x : Int) :
    htp_is_token fuel x = some (if x < 32 ∨ x > 126 then 0 else if separatorB x then 0 else 1, { c := x }) := by
  simp only [htp_is_token, htp_is_token_stmt, run, iteS, retS, seqS, skipS, htp_is_separator_int]
  by_cases h1 : x < 32
  · simp [h1]
  · by_cases h2 : x > 126
    · simp [h2]
    · cases h3 : separatorB x <;> simp [h1, h2, h3]

theorem space_table : ∀ c : UInt8, (if spaceB (c.toNat : Int) then (1 : Int) else 0) = b2i (Htp.Gen.isSpace c) := by
  apply forall_uint8_of_lt
  decide +kernel

theorem separator_table : ∀ c : UInt8, (if separatorB (c.toNat : Int) then (1 : Int) else 0) = b2i (Htp.Gen.isSeparator c) := by
  apply forall_uint8_of_lt
  decide +kernel

theorem token_table : ∀ c : UInt8,
    (if (c.toNat : Int) < 32 ∨ (c.toNat : Int) > 126 then (0 : Int) else if separatorB (c.toNat : Int) then 0 else 1)
      = b2i (Htp.Gen.isToken c) := by
  apply forall_uint8_of_lt
  decide +kernel

/-- **htp_is_space, as translated from the current source, is the regenerated table `isSpace`** on every byte -/
theorem htp_is_space_eq (fuel : Nat) (c : UInt8) :
    (htp_is_space fuel c.toNat).map (·.1) = some (b2i (Htp.Gen.isSpace c)) := by
  rw [htp_is_space_int]; simp only [Option.map_some]; rw [space_table]

/-- the call with -1 ("no byte") -/
theorem htp_is_space_neg1 (fuel : Nat) :
    (htp_is_space fuel (-1)).map (·.1) = some (b2i Htp.Gen.isSpaceNeg1) := by
  rw [htp_is_space_int]; rfl

/-- **htp_is_separator = the regenerated table `isSeparator`** on every byte -/
theorem htp_is_separator_eq (fuel : Nat) (c : UInt8) :
    (htp_is_separator fuel c.toNat).map (·.1) = some (b2i (Htp.Gen.isSeparator c)) := by
  rw [htp_is_separator_int]; simp only [Option.map_some]; rw [separator_table]

/-- **htp_is_token = the regenerated table `isToken`** on every byte -/
theorem htp_is_token_eq (fuel : Nat) (c : UInt8) :
    (htp_is_token fuel c.toNat).map (·.1) = some (b2i (Htp.Gen.isToken c)) := by
  rw [htp_is_token_int]; simp only [Option.map_some]; rw [token_table]

end Htp.CFuns

#print axioms Htp.CFuns.htp_is_space_eq
#print axioms Htp.CFuns.htp_is_space_neg1
#print axioms Htp.CFuns.htp_is_separator_eq
#print axioms Htp.CFuns.htp_is_token_eq
