/- htp_conn_track_inbound_data / htp_conn_track_outbound_data as translated from the current source: the counter grows by exactly the length
   offered (the int64 store does not wrap below 2^63). -/
import HtpModel.Gen.CFuns
namespace Htp.CFuns
open Htp Htp.CSem Htp.Gen.C

theorem htp_conn_track_inbound_data_eq (fuel : Nat) (len ctr : Int) (h0 : 0 ≤ ctr) (hl : 0 ≤ len)
    (hb : ctr + len < 9223372036854775808) :
    htp_conn_track_inbound_data fuel (len := len) (conn_in_data_counter := ctr)
      = some (0, { len := len, conn_in_data_counter := ctr + len }) := by
  have hw : i64 (ctr + len) = ctr + len := i64_id (by omega) hb
  simp [htp_conn_track_inbound_data, htp_conn_track_inbound_data_stmt, run, seqS, iteS, retS, skipS, assignS, hw]

theorem htp_conn_track_outbound_data_eq (fuel : Nat) (len ctr : Int) (h0 : 0 ≤ ctr) (hl : 0 ≤ len)
    (hb : ctr + len < 9223372036854775808) :
    htp_conn_track_outbound_data fuel (len := len) (conn_out_data_counter := ctr)
      = some (0, { len := len, conn_out_data_counter := ctr + len }) := by
  have hw : i64 (ctr + len) = ctr + len := i64_id (by omega) hb
  simp [htp_conn_track_outbound_data, htp_conn_track_outbound_data_stmt, run, seqS, iteS, retS, skipS, assignS, hw]

end Htp.CFuns
