/- The line-level helpers of htp_util.c as translated from the current source (HtpModel/Gen/CFuns.lean) = the regenerated tables / the
   hand-written model (all inputs): htp_is_lws, htp_is_text, htp_is_folding_char, htp_is_line_empty, htp_is_line_whitespace, htp_chomp. -/
import HtpModel.Lemmas.CFunsBase
import HtpModel.Conn.Parsers
namespace Htp.CFuns
open Htp Htp.CSem Htp.Gen.C Htp.Gen
set_option linter.unusedSimpArgs false

/-! ## 1. character predicates -/

theorem htp_is_lws_int (fuel : Nat) (x : Int) :
    htp_is_lws fuel x = some (if x = 32 ∨ x = 9 then 1 else 0, { c := x }) := by
  simp only [htp_is_lws, htp_is_lws_stmt, run, iteS, retS]
  by_cases h1 : x = 32
  · simp [h1]
  · by_cases h2 : x = 9
    · simp [h2]
    · simp [h1, h2]

theorem htp_is_text_int (fuel : Nat) (x : Int) :
    htp_is_text fuel x = some (if x = 9 then 1 else if x < 32 then 0 else 1, { c := x }) := by
  simp only [htp_is_text, htp_is_text_stmt, run, iteS, retS, seqS, skipS]
  by_cases h1 : x = 9
  · simp [h1]
  · by_cases h2 : x < 32
    · simp [h1, h2]
    · simp [h1, h2]

theorem htp_is_folding_char_int (fuel : Nat) (x : Int) :
    htp_is_folding_char fuel x = some (if x = 32 ∨ x = 9 ∨ x = 0 then 1 else 0, { c := x }) := by
  simp only [htp_is_folding_char, htp_is_folding_char_stmt, run, iteS, retS, htp_is_lws_int, orL]
  by_cases h1 : x = 32
  · simp [h1]
  · by_cases h2 : x = 9
    · simp [h2]
    · by_cases h3 : x = 0
      · simp [h3]
      · simp [h1, h2, h3]

theorem lws_table : ∀ c : UInt8, (if ((c.toNat : Int) = 32 ∨ (c.toNat : Int) = 9) then (1 : Int) else 0) = b2i (Htp.Gen.isLws c) := by
  apply forall_uint8_of_lt
  decide +kernel

theorem text_table : ∀ c : UInt8,
    (if (c.toNat : Int) = 9 then (1 : Int) else if (c.toNat : Int) < 32 then 0 else 1) = b2i (Htp.Gen.isText c) := by
  apply forall_uint8_of_lt
  decide +kernel

theorem folding_table : ∀ c : UInt8,
    (if ((c.toNat : Int) = 32 ∨ (c.toNat : Int) = 9 ∨ (c.toNat : Int) = 0) then (1 : Int) else 0) = b2i (Htp.Gen.isFoldingChar c) := by
  apply forall_uint8_of_lt
  decide +kernel

/-- **htp_is_lws, as translated from the current source, is the regenerated table `isLws`** on every byte -/
theorem htp_is_lws_eq (fuel : Nat) (c : UInt8) :
    (htp_is_lws fuel c.toNat).map (·.1) = some (b2i (Htp.Gen.isLws c)) := by
  rw [htp_is_lws_int]; simp only [Option.map_some]; rw [lws_table]

/-- **htp_is_text = the regenerated table `isText`** on every byte -/
theorem htp_is_text_eq (fuel : Nat) (c : UInt8) :
    (htp_is_text fuel c.toNat).map (·.1) = some (b2i (Htp.Gen.isText c)) := by
  rw [htp_is_text_int]; simp only [Option.map_some]; rw [text_table]

/-- **htp_is_folding_char = the regenerated table `isFoldingChar`** on every byte -/
theorem htp_is_folding_char_eq (fuel : Nat) (c : UInt8) :
    (htp_is_folding_char fuel c.toNat).map (·.1) = some (b2i (Htp.Gen.isFoldingChar c)) := by
  rw [htp_is_folding_char_int]; simp only [Option.map_some]; rw [folding_table]

/-- the call with -1 ("no byte") -/
theorem htp_is_folding_char_neg1 (fuel : Nat) :
    (htp_is_folding_char fuel (-1)).map (·.1) = some (b2i Htp.Gen.isFoldingCharNeg1) := by
  rw [htp_is_folding_char_int]; rfl

/-! ## 2. htp_is_line_empty -/

theorem toNat_int_eq_iff (a k : UInt8) : ((a.toNat : Int) = (k.toNat : Int)) ↔ a = k := by
  constructor
  · intro h; apply UInt8.toNat_inj.mp; omega
  · intro h; rw [h]

theorem rd_cons_zero (a : UInt8) (t : Bytes) : rd (a :: t) 0 = some (a.toNat : Int) := by
  simp [rd]

theorem rd_cons_one (a b : UInt8) (t : Bytes) : rd (a :: b :: t) 1 = some (b.toNat : Int) := by
  simp [rd]

/-- **htp_is_line_empty, as translated from the current source, is the model's `Parse.isLineEmpty`** for all byte strings; the lazy
    `&&` / `||` keep every read inside the array -/
theorem htp_is_line_empty_eq (fuel : Nat) (d : Bytes) :
    (htp_is_line_empty fuel d d.length).map (·.1) = some (b2i (Parse.isLineEmpty d)) := by
  unfold htp_is_line_empty
  rw [run_val]
  unfold htp_is_line_empty_stmt
  match d with
  | [] =>
    simp [seqS, iteS, retS, skipS, andL, orL, retVal, Parse.isLineEmpty, b2i]
  | [a] =>
    have e13 := toNat_int_eq_iff a 13
    have e10 := toNat_int_eq_iff a 10
    simp only [UInt8.toNat_ofNat] at e13 e10
    by_cases h13 : a = 13
    · subst h13
      simp [seqS, iteS, retS, skipS, andL, orL, retVal, Parse.isLineEmpty, b2i, rd_cons_zero, CR, LF]
    · by_cases h10 : a = 10
      · subst h10
        simp [seqS, iteS, retS, skipS, andL, orL, retVal, Parse.isLineEmpty, b2i, rd_cons_zero, CR, LF]
      · have n13 : ¬ ((a.toNat : Int) = 13) := fun h => h13 (e13.mp h)
        have n10 : ¬ ((a.toNat : Int) = 10) := fun h => h10 (e10.mp h)
        simp [seqS, iteS, retS, skipS, andL, orL, retVal, Parse.isLineEmpty, b2i, rd_cons_zero, CR, LF, h13, h10, n13, n10]
  | [a, b] =>
    have e13 := toNat_int_eq_iff a 13
    have e10 := toNat_int_eq_iff b 10
    simp only [UInt8.toNat_ofNat] at e13 e10
    by_cases h13 : a = 13
    · subst h13
      by_cases h10 : b = 10
      · subst h10
        simp [seqS, iteS, retS, skipS, andL, orL, retVal, Parse.isLineEmpty, b2i, rd_cons_zero, rd_cons_one, CR, LF]
      · have n10 : ¬ ((b.toNat : Int) = 10) := fun h => h10 (e10.mp h)
        simp [seqS, iteS, retS, skipS, andL, orL, retVal, Parse.isLineEmpty, b2i, rd_cons_zero, rd_cons_one, CR, LF, h10, n10]
    · have n13 : ¬ ((a.toNat : Int) = 13) := fun h => h13 (e13.mp h)
      simp [seqS, iteS, retS, skipS, andL, orL, retVal, Parse.isLineEmpty, b2i, rd_cons_zero, rd_cons_one, CR, LF, h13, n13]
  | a :: b :: c :: t =>
    have l1 : ¬ ((t.length : Int) + 1 + 1 + 1 = 1) := by omega
    have l2 : ¬ ((t.length : Int) + 1 + 1 + 1 = 2) := by omega
    simp [seqS, iteS, retS, skipS, andL, orL, retVal, Parse.isLineEmpty, b2i, l1, l2]

/-! ## 3. htp_is_line_whitespace -/

theorem isspaceI_byte (x : UInt8) : isspaceI (x.toNat : Int) = b2i (cIsspace x) := by
  simp [isspaceI]

abbrev W (d : Bytes) (p : Nat) : St_htp_is_line_whitespace := { len := d.length, i := p }

theorem ws_loop (F : Nat) (d : Bytes) (h1 : d.length < 9223372036854775808) :
    ∀ (a : Bytes) (p n : Nat), d.drop p = a → p ≤ d.length → a.length < n →
      retVal (seqS (whileF (htp_is_line_whitespace_cond1 F d) (htp_is_line_whitespace_body1 F d) (htp_is_line_whitespace_incr1 F d) n)
              (htp_is_line_whitespace_rest1 F d) (W d p))
            = some (b2i (a.all cIsspace)) := by
  intro a
  induction a with
  | nil =>
    intro p n ha hp hn
    obtain ⟨m, rfl⟩ : ∃ m, n = m + 1 := ⟨n - 1, by omega⟩
    have hl := le_of_drop_nil ha
    have hpe : (p : Int) = d.length := by omega
    have hc : htp_is_line_whitespace_cond1 F d (W d p) = some false := by
      simp [htp_is_line_whitespace_cond1, W, hpe]
    rw [seqS_next (whileF_exit m hc)]
    simp [htp_is_line_whitespace_rest1, retS, retVal, b2i]
  | cons x a' ih =>
    intro p n ha hp hn
    obtain ⟨m, rfl⟩ : ∃ m, n = m + 1 := ⟨n - 1, by omega⟩
    have hl := lt_of_drop_cons ha
    have c1 : ((p : Int) < d.length) := by omega
    have r1 := rd_of_drop ha
    have hc : htp_is_line_whitespace_cond1 F d (W d p) = some true := by
      simp [htp_is_line_whitespace_cond1, W, c1]
    cases hx : cIsspace x with
    | true =>
      have hb1 : htp_is_line_whitespace_body1 F d (W d p) = some (.next (W d p)) := by
        simp [htp_is_line_whitespace_body1, iteS, retS, skipS, W, r1, isspaceI_byte, hx, b2i]
      have hu : u64 ((p : Int) + 1) = ((p + 1 : Nat) : Int) := by rw [u64_id] <;> omega
      have hi : htp_is_line_whitespace_incr1 F d (W d p) = some (.next (W d (p + 1))) := by
        simp [htp_is_line_whitespace_incr1, assignS, W, hu]
      rw [seqS_congr (whileF_next m hc hb1 hi)]
      have := ih (p + 1) m (drop_succ_of_drop ha) (by omega) (by simp at hn; omega)
      simpa [hx] using this
    | false =>
      have hb1 : htp_is_line_whitespace_body1 F d (W d p) = some (.ret (W d p) 0) := by
        simp [htp_is_line_whitespace_body1, iteS, retS, skipS, W, r1, isspaceI_byte, hx, b2i]
      rw [seqS_ret (whileF_ret m hc hb1)]
      simp [retVal, hx, b2i]

/-- **htp_is_line_whitespace, as translated from the current source, is the model's `Parse.isLineWhitespace`** for all byte strings
    (below 2^63 bytes), every read inside the array, the loop finished within `len + 1` turns -/
theorem htp_is_line_whitespace_eq (d : Bytes) (h1 : d.length < 9223372036854775808) (fuel : Nat) (hf : d.length < fuel) :
    (htp_is_line_whitespace fuel d d.length).map (·.1) = some (b2i (Parse.isLineWhitespace d)) := by
  unfold htp_is_line_whitespace
  rw [run_val]
  unfold htp_is_line_whitespace_stmt htp_is_line_whitespace_loop1
  have h0 : (assignS fun s => some { s with i := 0 })
      ({ len := d.length } : St_htp_is_line_whitespace) = some (.next (W d 0)) := by
    simp [assignS, W]
  rw [seqS_next h0]
  exact ws_loop fuel d h1 d 0 fuel rfl (by omega) hf

/-! ## 4. htp_chomp -/

theorem take_succ_reverse (d : Bytes) (n : Nat) (h : n < d.length) : (d.take (n + 1)).reverse = d[n] :: (d.take n).reverse := by
  rw [List.take_succ_eq_append_getElem h]; simp

theorem rd_nat (d : Bytes) (n : Nat) (h : n < d.length) : rd d (n : Int) = some ((d[n]).toNat : Int) := by
  have : ¬ ((n : Int) < 0) := by omega
  simp [rd, this, h]

abbrev CS (n r : Nat) : St_htp_chomp := { len := n, r := r }

theorem chomp_loop (F : Nat) (d : Bytes) (h1 : d.length < 9223372036854775808) :
    ∀ (k n r m : Nat), n ≤ d.length → n < k → n < m →
      ∃ L R : Nat, Parse.chompLoop k (d.take n).reverse r = ((d.take L).reverse, R) ∧ L ≤ n ∧
        seqS (whileF (htp_chomp_cond1 F d) (htp_chomp_body1 F d) (htp_chomp_incr1 F d) m) (htp_chomp_rest1 F d) (CS n r)
          = some (.ret (CS L R) (R : Int)) := by
  intro k
  induction k with
  | zero => intro n r m _ hk; omega
  | succ k ih =>
    intro n r m hn hk hm
    obtain ⟨m, rfl⟩ : ∃ m', m = m' + 1 := ⟨m - 1, by omega⟩
    cases n with
    | zero =>
      refine ⟨0, r, by simp [Parse.chompLoop], Nat.le_refl _, ?_⟩
      have hc : htp_chomp_cond1 F d (CS 0 r) = some false := by simp [htp_chomp_cond1, CS]
      rw [seqS_next (whileF_exit m hc)]
      simp [htp_chomp_rest1, retS, CS]
    | succ n =>
      have hlt : n < d.length := by omega
      have hc : htp_chomp_cond1 F d (CS (n + 1) r) = some true := by
        simp [htp_chomp_cond1, CS]
      have hu : u64 (((n + 1 : Nat) : Int) - 1) = (n : Int) := by rw [u64_id] <;> omega
      have r1 := rd_nat d n hlt
      rw [take_succ_reverse d n hlt]
      obtain ⟨c, hcd⟩ : ∃ c, d[n] = c := ⟨_, rfl⟩
      rw [hcd] at r1 ⊢
      have e10 := toNat_int_eq_iff c 10
      have e13 := toNat_int_eq_iff c 13
      simp only [UInt8.toNat_ofNat] at e10 e13
      have hi : ∀ s, htp_chomp_incr1 F d s = some (.next s) := fun _ => rfl
      by_cases hLF : c = 10
      · have v10 : (c.toNat : Int) = 10 := e10.mpr hLF
        cases n with
        | zero =>
          refine ⟨0, 1, by simp [Parse.chompLoop, hLF, LF], by omega, ?_⟩
          have r1' : rd d 0 = some (c.toNat : Int) := r1
          have hb : htp_chomp_body1 F d (CS 1 r) = some (.ret (CS 0 1) 1) := by
            simp [htp_chomp_body1, iteS, seqS, assignS, retS, CS, r1', v10, u64]
          rw [seqS_ret (whileF_ret m hc hb)]
          rfl
        | succ n =>
          have hlt2 : n < d.length := by omega
          have hu2 : u64 (((n + 1 : Nat) : Int) - 1) = (n : Int) := by rw [u64_id] <;> omega
          have hne : ¬ (((n + 1 : Nat) : Int) = 0) := by omega
          have r2 := rd_nat d n hlt2
          obtain ⟨c2, hcd2⟩ : ∃ c2, d[n] = c2 := ⟨_, rfl⟩
          rw [hcd2] at r2
          have f13 := toNat_int_eq_iff c2 13
          simp only [UInt8.toNat_ofNat] at f13
          by_cases hCR : c2 = 13
          · have w13 : (c2.toNat : Int) = 13 := f13.mpr hCR
            obtain ⟨L, R, hmod, hL, hcode⟩ := ih n 2 m (by omega) (by omega) (by omega)
            refine ⟨L, R, ?_, by omega, ?_⟩
            · rw [take_succ_reverse d n hlt2, hcd2]
              simp [Parse.chompLoop, hLF, hCR, LF, CR, hmod]
            · have hb : htp_chomp_body1 F d (CS (n + 1 + 1) r) = some (.next (CS n 2)) := by
                simp only [htp_chomp_body1, iteS, seqS, assignS, retS, skipS, CS, hu, r1, v10, Option.bind_some, Option.map_some,
                  decide_true, hne, decide_false, hu2, r2, w13]
                rfl
              rw [seqS_congr (whileF_next m hc hb (hi _))]
              exact hcode
          · have w13 : ¬ ((c2.toNat : Int) = 13) := fun h => hCR (f13.mp h)
            obtain ⟨L, R, hmod, hL, hcode⟩ := ih (n + 1) 1 m (by omega) (by omega) (by omega)
            refine ⟨L, R, ?_, by omega, ?_⟩
            · rw [take_succ_reverse d n hlt2, hcd2] at hmod ⊢
              simp [Parse.chompLoop, hLF, hCR, LF, CR, hmod]
            · have hb : htp_chomp_body1 F d (CS (n + 1 + 1) r) = some (.next (CS (n + 1) 1)) := by
                simp only [htp_chomp_body1, iteS, seqS, assignS, retS, skipS, CS, hu, r1, v10, Option.bind_some, Option.map_some,
                  decide_true, hne, decide_false, hu2, r2, w13]
                rfl
              rw [seqS_congr (whileF_next m hc hb (hi _))]
              exact hcode
      · have v10 : ¬ ((c.toNat : Int) = 10) := fun h => hLF (e10.mp h)
        by_cases hCR : c = 13
        · have v13 : (c.toNat : Int) = 13 := e13.mpr hCR
          obtain ⟨L, R, hmod, hL, hcode⟩ := ih n 1 m (by omega) (by omega) (by omega)
          refine ⟨L, R, ?_, by omega, ?_⟩
          · subst hCR
            cases hrest : (d.take n).reverse with
            | nil => rw [hrest] at hmod; cases k <;> simpa [Parse.chompLoop, LF, CR] using hmod
            | cons y ys => rw [hrest] at hmod; simpa [Parse.chompLoop, LF, CR] using hmod
          · have hb : htp_chomp_body1 F d (CS (n + 1) r) = some (.next (CS n 1)) := by
              simp only [htp_chomp_body1, iteS, seqS, assignS, retS, skipS, CS, hu, r1, v10, v13, Option.bind_some, Option.map_some,
                decide_true, decide_false]
              rfl
            rw [seqS_congr (whileF_next m hc hb (hi _))]
            exact hcode
        · have v13 : ¬ ((c.toNat : Int) = 13) := fun h => hCR (e13.mp h)
          refine ⟨n + 1, r, ?_, Nat.le_refl _, ?_⟩
          · rw [take_succ_reverse d n hlt, hcd]
            simp [Parse.chompLoop, hLF, hCR, LF, CR]
          · have hb : htp_chomp_body1 F d (CS (n + 1) r) = some (.ret (CS (n + 1) r) (r : Int)) := by
              simp only [htp_chomp_body1, iteS, seqS, assignS, retS, skipS, CS, hu, r1, v10, v13, Option.bind_some, Option.map_some,
                decide_true, decide_false]
            rw [seqS_ret (whileF_ret m hc hb)]

/-- the model and the translated code agree on the cut: `Parse.chomp d = (d.take L, R)` and the C ends with `*len = L`, value `R` -/
theorem htp_chomp_run (d : Bytes) (h1 : d.length < 9223372036854775808) (fuel : Nat) (hf : d.length < fuel) :
    ∃ L R : Nat, Parse.chomp d = (d.take L, R) ∧ L ≤ d.length ∧ htp_chomp fuel d d.length = some ((R : Int), CS L R) := by
  obtain ⟨L, R, hmod, hL, hcode⟩ := chomp_loop fuel d h1 (d.length + 1) d.length 0 fuel (Nat.le_refl _) (by omega) hf
  refine ⟨L, R, ?_, hL, ?_⟩
  · rw [List.take_length] at hmod
    simp [Parse.chomp, hmod]
  · unfold htp_chomp htp_chomp_stmt htp_chomp_loop1
    have h0 : (assignS fun s => some { s with r := 0 }) ({ len := d.length } : St_htp_chomp) = some (.next (CS d.length 0)) := by
      simp [assignS, CS]
    unfold run
    rw [seqS_next h0, hcode]

/-- **htp_chomp, as translated from the current source, is the model's `Parse.chomp`** for all byte strings (below 2^63 bytes): the value
    returned and the length stored through `len`; every read inside the array; the loop finished within `len + 1` turns -/
theorem htp_chomp_eq (d : Bytes) (h1 : d.length < 9223372036854775808) (fuel : Nat) (hf : d.length < fuel) :
    (htp_chomp fuel d d.length).map (fun r => (r.1, r.2.len))
      = some (((Parse.chomp d).2 : Int), ((Parse.chomp d).1.length : Int)) := by
  obtain ⟨L, R, hmod, hL, hcode⟩ := htp_chomp_run d h1 fuel hf
  rw [hcode, hmod]
  simp [CS, List.length_take, Nat.min_eq_left hL]

theorem chompLoop_suffix : ∀ (k : Nat) (rev : Bytes) (r : Nat), (Parse.chompLoop k rev r).1 <:+ rev := by
  intro k
  induction k with
  | zero => intro rev r; simp [Parse.chompLoop]
  | succ k ih =>
    intro rev r
    cases rev with
    | nil => simp [Parse.chompLoop]
    | cons c rest =>
      by_cases hLF : c = LF
      · cases rest with
        | nil => simp [Parse.chompLoop, hLF]
        | cons c2 rest2 =>
          by_cases hCR : c2 = CR
          · have := ih rest2 2
            simp only [Parse.chompLoop, hLF, hCR, beq_self_eq_true, if_true]
            exact this.trans ((List.suffix_cons _ _).trans (List.suffix_cons _ _))
          · have := ih (c2 :: rest2) 1
            simp only [Parse.chompLoop, hLF, hCR, beq_self_eq_true, if_true, beq_iff_eq, if_false]
            exact this.trans (List.suffix_cons _ _)
      · by_cases hCR : c = CR
        · have := ih rest 1
          have hne : ¬ (CR = LF) := by decide
          simp only [Parse.chompLoop, hCR, hne, beq_self_eq_true, if_true, beq_iff_eq, if_false]
          exact this.trans (List.suffix_cons _ _)
        · simp [Parse.chompLoop, hLF, hCR]

/-- the model's result is a prefix of the input, so (value returned, new length) determines it -/
theorem chomp_prefix (d : Bytes) : (Parse.chomp d).1 = d.take (Parse.chomp d).1.length := by
  have h := chompLoop_suffix (d.length + 1) d.reverse 0
  have h2 : (Parse.chomp d).1 <+: d := by
    have : (Parse.chomp d).1 = (Parse.chompLoop (d.length + 1) d.reverse 0).1.reverse := rfl
    rw [this]
    have h3 := List.reverse_prefix.mpr h
    simpa using h3
  exact List.prefix_iff_eq_take.mp h2

end Htp.CFuns

#print axioms Htp.CFuns.htp_is_lws_eq
#print axioms Htp.CFuns.htp_is_text_eq
#print axioms Htp.CFuns.htp_is_folding_char_eq
#print axioms Htp.CFuns.htp_is_folding_char_neg1
#print axioms Htp.CFuns.htp_is_line_empty_eq
#print axioms Htp.CFuns.htp_is_line_whitespace_eq
#print axioms Htp.CFuns.htp_chomp_run
#print axioms Htp.CFuns.htp_chomp_eq
#print axioms Htp.CFuns.chomp_prefix
