/- bstr_util_cmp_mem_nocase as translated from the current source = the model's `Bstr.cmpMemNocase` (all inputs): loop invariant by
   induction over the remaining suffix; every read inside the arrays; at most len1 + 1 turns. -/
import HtpModel.Lemmas.CFunsBase
namespace Htp.CFuns
open Htp Htp.CSem Htp.Gen.C Htp.Gen

abbrev SN (d1 d2 : Bytes) (p : Nat) : St_bstr_util_cmp_mem_nocase := { len1 := d1.length, len2 := d2.length, p1 := p, p2 := p }

theorem tolowerI_toNat (x : UInt8) : tolowerI (x.toNat : Int) = ((cTolower x).toNat : Int) := by simp [tolowerI]

theorem cmp_nocase_loop (F : Nat) (d1 d2 : Bytes) (h1 : d1.length < 9223372036854775808) (_h2 : d2.length < 9223372036854775808) :
    ∀ (a b : Bytes) (p n : Nat), d1.drop p = a → d2.drop p = b → p ≤ d1.length → p ≤ d2.length → a.length < n →
      retVal (seqS (whileF (bstr_util_cmp_mem_nocase_cond1 F d1 d2) (bstr_util_cmp_mem_nocase_body1 F d1 d2)
                (bstr_util_cmp_mem_nocase_incr1 F d1 d2) n)
              (bstr_util_cmp_mem_nocase_rest1 F d1 d2) (SN d1 d2 p))
            = some (Bstr.cmpMemNocase a b) := by
  intro a
  induction a with
  | nil =>
    intro b p n ha hb hp1 hp2 hn
    obtain ⟨m, rfl⟩ : ∃ m, n = m + 1 := ⟨n - 1, by omega⟩
    have hl := le_of_drop_nil ha
    have hpe : (p : Int) = d1.length := by omega
    have hc : bstr_util_cmp_mem_nocase_cond1 F d1 d2 (SN d1 d2 p) = some false := by
      simp [bstr_util_cmp_mem_nocase_cond1, hpe]
    rw [seqS_next (whileF_exit m hc)]
    cases b with
    | nil =>
      have hl2 := le_of_drop_nil hb
      have hpe2 : (p : Int) = d2.length := by omega
      simp [bstr_util_cmp_mem_nocase_rest1, iteS, retS, retVal, SN, hpe, ← hpe2, Bstr.cmpMemNocase]
    | cons y b' =>
      have hl2 := lt_of_drop_cons hb
      have hne : ¬ ((d1.length : Int) = d2.length) := by omega
      simp [bstr_util_cmp_mem_nocase_rest1, iteS, retS, retVal, SN, hpe, hne, Bstr.cmpMemNocase]
  | cons x a' ih =>
    intro b p n ha hb hp1 hp2 hn
    obtain ⟨m, rfl⟩ : ∃ m, n = m + 1 := ⟨n - 1, by omega⟩
    have hl := lt_of_drop_cons ha
    cases b with
    | nil =>
      have hl2 := le_of_drop_nil hb
      have hpe2 : (p : Int) = d2.length := by omega
      have hne : ¬ ((d2.length : Int) = d1.length) := by omega
      have hc : bstr_util_cmp_mem_nocase_cond1 F d1 d2 (SN d1 d2 p) = some false := by
        simp [bstr_util_cmp_mem_nocase_cond1, hpe2]
      rw [seqS_next (whileF_exit m hc)]
      simp [bstr_util_cmp_mem_nocase_rest1, iteS, retS, retVal, SN, hpe2, hne, Bstr.cmpMemNocase]
    | cons y b' =>
      have hl2 := lt_of_drop_cons hb
      have c1 : ((p : Int) < d1.length) := by omega
      have c2 : ((p : Int) < d2.length) := by omega
      have r1 := rd_of_drop ha
      have r2 := rd_of_drop hb
      have t1 := tolowerI_toNat x
      have t2 := tolowerI_toNat y
      have hc : bstr_util_cmp_mem_nocase_cond1 F d1 d2 (SN d1 d2 p) = some true := by
        simp [bstr_util_cmp_mem_nocase_cond1, c1, c2]
      by_cases hxy : cTolower x = cTolower y
      · have hu : u64 ((p : Int) + 1) = ((p + 1 : Nat) : Int) := by rw [u64_id] <;> omega
        have hb1 : bstr_util_cmp_mem_nocase_body1 F d1 d2 (SN d1 d2 p) = some (.next (SN d1 d2 (p + 1))) := by
          simp [bstr_util_cmp_mem_nocase_body1, iteS, seqS, skipS, assignS, SN, r1, r2, t1, t2, hu, hxy]
        have hi : bstr_util_cmp_mem_nocase_incr1 F d1 d2 (SN d1 d2 (p + 1)) = some (.next (SN d1 d2 (p + 1))) := rfl
        rw [seqS_congr (whileF_next m hc hb1 hi)]
        have := ih b' (p + 1) m (drop_succ_of_drop ha) (drop_succ_of_drop hb) (by omega) (by omega) (by simp at hn; omega)
        simpa [Bstr.cmpMemNocase, hxy] using this
      · have hn' : ¬ (((cTolower x).toNat : Int) = (cTolower y).toNat) := by
          intro e; apply hxy; apply UInt8.toNat_inj.mp; omega
        have hb1 : bstr_util_cmp_mem_nocase_body1 F d1 d2 (SN d1 d2 p)
            = some (.ret (SN d1 d2 p) (if cTolower x < cTolower y then -1 else 1)) := by
          simp [bstr_util_cmp_mem_nocase_body1, iteS, retS, seqS, SN, r1, r2, t1, t2, hn', UInt8.lt_iff_toNat_lt]
        rw [seqS_ret (whileF_ret m hc hb1)]
        simp [retVal, Bstr.cmpMemNocase, hxy]

/-- **bstr_util_cmp_mem_nocase, as translated from the current source, is the model's `Bstr.cmpMemNocase`** for all byte strings
    (below 2^63 bytes), with every read inside the arrays and the loop finished within `len1 + 1` turns -/
theorem bstr_util_cmp_mem_nocase_eq (d1 d2 : Bytes) (h1 : d1.length < 9223372036854775808) (h2 : d2.length < 9223372036854775808)
    (fuel : Nat) (hf : d1.length < fuel) :
    (bstr_util_cmp_mem_nocase fuel d1 d2 d1.length d2.length).map (·.1) = some (Bstr.cmpMemNocase d1 d2) := by
  unfold bstr_util_cmp_mem_nocase
  rw [run_val]
  unfold bstr_util_cmp_mem_nocase_stmt
  have h0 : seqS (assignS fun s => some { s with p1 := 0 }) (assignS fun s => some { s with p2 := 0 })
      ({ len1 := d1.length, len2 := d2.length } : St_bstr_util_cmp_mem_nocase) = some (.next (SN d1 d2 0)) := by
    simp [seqS, assignS, SN]
  rw [seqS_next h0]
  exact cmp_nocase_loop fuel d1 d2 h1 h2 d1 d2 0 fuel rfl rfl (by omega) (by omega) hf

end Htp.CFuns
